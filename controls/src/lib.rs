//! Positive (and a few negative) controls for the zero-count rules. Deliberately wrong code,
//! analysed by the same driver and the same rule functions on every run: a rule that stops
//! firing on its control makes the property's check fail — "0 violations" stays meaningful.
#![allow(dead_code, unconditional_recursion, clippy::all)]

pub mod storage {
    pub mod bitcask {
        use std::fs;
        use std::io::{self, Seek, SeekFrom, Write};

        // ---- W1: file-mutating APIs outside the allowed sites
        pub fn c_w1_set_len(f: &fs::File) -> io::Result<()> {
            f.set_len(0)
        }
        pub fn c_w1_rename() -> io::Result<()> {
            fs::rename("a", "b")
        }
        pub fn c_w1_truncating_open() -> io::Result<fs::File> {
            fs::OpenOptions::new().write(true).truncate(true).open("x")
        }
        pub fn c_w1_unlink_elsewhere() -> io::Result<()> {
            fs::remove_file("0.bitcask.data")
        }
        pub fn c_w1_seek_on_file(f: &mut fs::File) -> io::Result<u64> {
            f.seek(SeekFrom::Start(0))
        }
        /// negative control: a read-only open is fine
        pub fn n_w1_read_only() -> io::Result<fs::File> {
            fs::OpenOptions::new().read(true).open("x")
        }

        // ---- W4: process-terminating calls
        pub fn c_w4_exit() -> ! {
            std::process::exit(1)
        }
        pub fn c_w4_abort() -> ! {
            std::process::abort()
        }

        // ---- R1: recursion without a bounded ranking argument
        pub fn c_r1_unbounded(n: u64) -> u64 {
            if n == 0 {
                0
            } else {
                1 + c_r1_unbounded(n - 1)
            }
        }
        pub fn c_r1_mutual_a(x: &[u8]) -> usize {
            if x.is_empty() {
                0
            } else {
                c_r1_mutual_b(&x[1..])
            }
        }
        pub fn c_r1_mutual_b(x: &[u8]) -> usize {
            1 + c_r1_mutual_a(x)
        }
        /// negative control: depth parameter compared with a constant before the call
        pub fn n_r1_bounded(depth: usize) -> usize {
            if depth >= 8 {
                return depth;
            }
            n_r1_bounded(depth + 1)
        }

        // ---- E1: a storage Result that is dropped
        pub fn c_e1_dropped(f: &mut fs::File) {
            let _ = f.flush();
        }
        pub fn c_e1_statement(f: &mut fs::File) {
            f.sync_all().ok();
            let _unused = 1;
            drop(f.sync_data());
        }
        /// negative control
        pub fn n_e1_propagated(f: &mut fs::File) -> io::Result<()> {
            f.flush()?;
            f.sync_all()
        }
    }
}

// bcfacts: rustc_private fact extractor for the bitcask verification rules.
//
// Used as RUSTC_WRAPPER under `cargo +nightly check --offline`. For every crate it strips the
// `--cfg feature="stdsimd"` pair (ahash 0.7.6's build script enables a feature removed from
// nightly). For the primary package it overrides `mir_borrowck`, serialises `mir_promoted` of
// every typeck root and nested body (closures, async blocks) to JSON lines, and writes one
// fact file per compiled crate target in a single write.
#![feature(rustc_private)]
#![allow(clippy::all)]

extern crate rustc_abi;
extern crate rustc_driver;
extern crate rustc_hir;
extern crate rustc_interface;
extern crate rustc_middle;
extern crate rustc_session;
extern crate rustc_span;

use std::fmt::Write as _;
use std::sync::Mutex;

use rustc_driver::Compilation;
use rustc_hir::def::DefKind;
use rustc_interface::interface;
use rustc_middle::mir::{
    self, AggregateKind, AssertKind, BorrowKind, Const, ConstValue, Operand, Place, PlaceElem,
    Rvalue, StatementKind, TerminatorKind, UnwindAction,
};
use rustc_middle::ty::print::with_no_trimmed_paths;
use rustc_middle::ty::{self, Ty, TyCtxt};
use rustc_span::def_id::{DefId, LocalDefId};
use rustc_span::hygiene::{DesugaringKind, ExpnKind};
use rustc_span::Span;

static RECORDS: Mutex<Vec<String>> = Mutex::new(Vec::new());

const DRIVER_VERSION: &str = "bcfacts-6";

// ------------------------------------------------------------------------------------------
// JSON helpers

fn jstr(s: &str) -> String {
    let mut o = String::with_capacity(s.len() + 2);
    o.push('"');
    for c in s.chars() {
        match c {
            '"' => o.push_str("\\\""),
            '\\' => o.push_str("\\\\"),
            '\n' => o.push_str("\\n"),
            '\r' => o.push_str("\\r"),
            '\t' => o.push_str("\\t"),
            c if (c as u32) < 0x20 => {
                let _ = write!(o, "\\u{:04x}", c as u32);
            }
            c => o.push(c),
        }
    }
    o.push('"');
    o
}

fn jlist(items: &[String]) -> String {
    let mut o = String::from("[");
    for (i, it) in items.iter().enumerate() {
        if i > 0 {
            o.push(',');
        }
        o.push_str(it);
    }
    o.push(']');
    o
}

fn jopt_str(s: Option<String>) -> String {
    match s {
        Some(s) => jstr(&s),
        None => "null".to_string(),
    }
}

// ------------------------------------------------------------------------------------------

struct Cx<'a, 'tcx> {
    tcx: TyCtxt<'tcx>,
    body: &'a mir::Body<'tcx>,
    owner: DefId,
}

fn dpath(tcx: TyCtxt<'_>, did: DefId) -> String {
    with_no_trimmed_paths!(tcx.def_path_str(did))
}

fn ty_str(ty: Ty<'_>) -> String {
    with_no_trimmed_paths!(ty.to_string())
}

fn ty_def<'tcx>(tcx: TyCtxt<'tcx>, ty: Ty<'tcx>) -> Option<String> {
    let mut t = ty;
    loop {
        match t.kind() {
            ty::Ref(_, inner, _) => t = *inner,
            ty::RawPtr(inner, _) => t = *inner,
            _ => break,
        }
    }
    match t.kind() {
        ty::Adt(def, _) => Some(dpath(tcx, def.did())),
        ty::Closure(did, _) | ty::Coroutine(did, _) | ty::FnDef(did, _) => Some(dpath(tcx, *did)),
        ty::CoroutineClosure(did, _) => Some(dpath(tcx, *did)),
        _ => None,
    }
}

fn span_str(tcx: TyCtxt<'_>, sp: Span) -> String {
    // the outermost call site in user code, so macro-generated code points at the macro use
    let sp = sp.source_callsite();
    tcx.sess.source_map().span_to_diagnostic_string(sp)
}

fn exp_str(sp: Span) -> String {
    // chain of expansions from innermost to outermost
    let mut out: Vec<String> = Vec::new();
    let mut s = sp;
    let mut n = 0;
    while s.from_expansion() && n < 8 {
        let data = s.ctxt().outer_expn_data();
        let k = match data.kind {
            ExpnKind::Root => "root".to_string(),
            ExpnKind::Macro(_, name) => format!("macro:{}", name),
            ExpnKind::AstPass(_) => "astpass".to_string(),
            ExpnKind::Desugaring(d) => format!(
                "desugar:{}",
                match d {
                    DesugaringKind::QuestionMark => "QuestionMark",
                    DesugaringKind::TryBlock => "TryBlock",
                    DesugaringKind::Async => "Async",
                    DesugaringKind::Await => "Await",
                    DesugaringKind::ForLoop => "ForLoop",
                    DesugaringKind::WhileLoop => "WhileLoop",
                    DesugaringKind::RangeExpr => "RangeExpr",
                    DesugaringKind::FormatLiteral { .. } => "FormatLiteral",
                    _ => "Other",
                }
            ),
        };
        out.push(k);
        s = data.call_site;
        n += 1;
    }
    out.join(">")
}

impl<'a, 'tcx> Cx<'a, 'tcx> {
    fn place(&self, pl: &Place<'tcx>) -> String {
        let tcx = self.tcx;
        let mut pty = mir::PlaceTy::from_ty(self.body.local_decls[pl.local].ty);
        let mut elems: Vec<String> = Vec::new();
        for elem in pl.projection.iter() {
            let s = match elem {
                PlaceElem::Deref => "[\"d\"]".to_string(),
                PlaceElem::Field(idx, _) => {
                    let name = field_name(tcx, pty, idx.as_usize());
                    format!("[\"f\",{},{}]", idx.as_usize(), jstr(&name))
                }
                PlaceElem::Index(l) => format!("[\"i\",{}]", l.as_usize()),
                PlaceElem::ConstantIndex { offset, from_end, .. } => {
                    format!("[\"ci\",{},{}]", offset, from_end)
                }
                PlaceElem::Subslice { from, to, from_end } => {
                    format!("[\"sub\",{},{},{}]", from, to, from_end)
                }
                PlaceElem::Downcast(name, vidx) => {
                    let n = match name {
                        Some(s) => s.to_string(),
                        None => variant_name(tcx, pty.ty, vidx.as_usize()),
                    };
                    format!("[\"dc\",{},{}]", jstr(&n), vidx.as_usize())
                }
                PlaceElem::OpaqueCast(_) => "[\"oc\"]".to_string(),
                PlaceElem::UnwrapUnsafeBinder(_) => "[\"ub\"]".to_string(),
            };
            elems.push(s);
            pty = pty.projection_ty(tcx, elem);
        }
        format!("{{\"l\":{},\"p\":{}}}", pl.local.as_usize(), jlist(&elems))
    }

    fn place_ty(&self, pl: &Place<'tcx>) -> Ty<'tcx> {
        pl.ty(&self.body.local_decls, self.tcx).ty
    }

    fn constant(&self, c: &mir::ConstOperand<'tcx>) -> String {
        let tcx = self.tcx;
        let ty = c.const_.ty();
        let mut o = String::from("{\"k\":\"const\"");
        let _ = write!(o, ",\"ty\":{}", jstr(&ty_str(ty)));
        let disp = with_no_trimmed_paths!(format!("{}", c.const_));
        let _ = write!(o, ",\"v\":{}", jstr(&disp));
        if let ty::FnDef(did, args) = ty.kind() {
            let _ = write!(o, ",\"fn\":{}", jstr(&dpath(tcx, *did)));
            let a: Vec<String> = args.iter().map(|a| jstr(&with_no_trimmed_paths!(a.to_string()))).collect();
            let _ = write!(o, ",\"fn_args\":{}", jlist(&a));
        }
        match c.const_ {
            Const::Val(ConstValue::Scalar(mir::interpret::Scalar::Int(i)), t) => {
                if let Some(s) = scalar_int_str(tcx, i, t) {
                    let _ = write!(o, ",\"int\":{}", jstr(&s));
                }
            }
            Const::Val(cv @ ConstValue::Slice { .. }, t) => {
                if is_str_or_bytes(t) {
                    if let Some(b) = cv.try_get_slice_bytes_for_diagnostics(tcx) {
                        let hex: String = b.iter().map(|x| format!("{:02x}", x)).collect();
                        let _ = write!(o, ",\"bytes\":{}", jstr(&hex));
                    }
                }
            }
            Const::Unevaluated(uv, _) => {
                if let Some(p) = uv.promoted {
                    let _ = write!(o, ",\"promoted\":{}", p.as_usize());
                } else {
                    let _ = write!(o, ",\"uneval\":{}", jstr(&dpath(tcx, uv.def)));
                    // a plain crate-local `const X: int|&str = ...;` is evaluated so that rules see
                    // its value, not its name
                    if uv.def.is_local()
                        && matches!(tcx.def_kind(uv.def), DefKind::Const { .. })
                        && tcx.generics_of(uv.def).count() == 0
                        && (is_str_or_bytes(ty) || matches!(ty.kind(), ty::Int(_) | ty::Uint(_) | ty::Bool))
                    {
                        if let Ok(cv) = tcx.const_eval_poly(uv.def) {
                            match cv {
                                ConstValue::Scalar(mir::interpret::Scalar::Int(i)) => {
                                    if let Some(s) = scalar_int_str(tcx, i, ty) {
                                        let _ = write!(o, ",\"int\":{}", jstr(&s));
                                    }
                                }
                                ConstValue::Slice { .. } => {
                                    if let Some(b) = cv.try_get_slice_bytes_for_diagnostics(tcx) {
                                        let hex: String = b.iter().map(|x| format!("{:02x}", x)).collect();
                                        let _ = write!(o, ",\"bytes\":{}", jstr(&hex));
                                    }
                                }
                                _ => {}
                            }
                        }
                    }
                }
            }
            Const::Ty(_, ct) => {
                // string patterns (`match s { "sync" => … }`) are valtree constants
                if is_str_or_bytes(ty) {
                    if let Some(v) = ct.try_to_value() {
                        if let Some(b) = v.try_to_raw_bytes(tcx) {
                            let hex: String = b.iter().map(|x| format!("{:02x}", x)).collect();
                            let _ = write!(o, ",\"bytes\":{}", jstr(&hex));
                        }
                    }
                }
                if let Some(sc) = ct.try_to_scalar() {
                    if let Ok(i) = sc.try_to_scalar_int() {
                        if let Some(s) = scalar_int_str(tcx, i, ty) {
                            let _ = write!(o, ",\"int\":{}", jstr(&s));
                        }
                    }
                }
            }
            _ => {}
        }
        o.push('}');
        o
    }

    fn operand(&self, op: &Operand<'tcx>) -> String {
        match op {
            Operand::Copy(p) => format!("{{\"k\":\"copy\",\"pl\":{}}}", self.place(p)),
            Operand::Move(p) => format!("{{\"k\":\"move\",\"pl\":{}}}", self.place(p)),
            Operand::Constant(c) => self.constant(c),
            _ => "{\"k\":\"runtime_checks\"}".to_string(),
        }
    }

    fn rvalue(&self, rv: &Rvalue<'tcx>) -> String {
        let tcx = self.tcx;
        match rv {
            Rvalue::Use(op, ..) => format!("{{\"k\":\"use\",\"op\":{}}}", self.operand(op)),
            Rvalue::Repeat(op, n) => format!(
                "{{\"k\":\"repeat\",\"op\":{},\"n\":{}}}",
                self.operand(op),
                jstr(&with_no_trimmed_paths!(n.to_string()))
            ),
            Rvalue::Ref(_, bk, pl) => {
                let b = match bk {
                    BorrowKind::Shared => "shared",
                    BorrowKind::Fake(_) => "fake",
                    BorrowKind::Mut { .. } => "mut",
                };
                format!("{{\"k\":\"ref\",\"bk\":\"{}\",\"pl\":{}}}", b, self.place(pl))
            }
            Rvalue::ThreadLocalRef(d) => {
                format!("{{\"k\":\"tlref\",\"def\":{}}}", jstr(&dpath(tcx, *d)))
            }
            Rvalue::RawPtr(_, pl) => format!("{{\"k\":\"rawptr\",\"pl\":{}}}", self.place(pl)),
            Rvalue::Cast(ck, op, ty) => format!(
                "{{\"k\":\"cast\",\"ck\":{},\"op\":{},\"ty\":{}}}",
                jstr(&format!("{:?}", ck).split('(').next().unwrap_or("").to_string()),
                self.operand(op),
                jstr(&ty_str(*ty))
            ),
            Rvalue::BinaryOp(op, ab) => format!(
                "{{\"k\":\"bin\",\"op\":\"{:?}\",\"a\":{},\"b\":{}}}",
                op,
                self.operand(&ab.0),
                self.operand(&ab.1)
            ),
            Rvalue::UnaryOp(op, a) => {
                format!("{{\"k\":\"un\",\"op\":\"{:?}\",\"a\":{}}}", op, self.operand(a))
            }
            Rvalue::Discriminant(pl) => {
                let t = self.place_ty(pl);
                let mut vars: Vec<String> = Vec::new();
                let mut adt = None;
                if let ty::Adt(def, _) = t.kind() {
                    adt = Some(dpath(tcx, def.did()));
                    if def.is_enum() {
                        for (vidx, d) in def.discriminants(tcx) {
                            vars.push(format!(
                                "[{},{}]",
                                jstr(&d.val.to_string()),
                                jstr(&def.variant(vidx).name.to_string())
                            ));
                        }
                    }
                }
                format!(
                    "{{\"k\":\"discr\",\"pl\":{},\"adt\":{},\"variants\":{}}}",
                    self.place(pl),
                    jopt_str(adt),
                    jlist(&vars)
                )
            }
            Rvalue::Aggregate(kind, ops) => {
                let opsj: Vec<String> = ops.iter().map(|o| self.operand(o)).collect();
                match &**kind {
                    AggregateKind::Array(t) => format!(
                        "{{\"k\":\"agg\",\"ak\":\"array\",\"ty\":{},\"ops\":{}}}",
                        jstr(&ty_str(*t)),
                        jlist(&opsj)
                    ),
                    AggregateKind::Tuple => {
                        format!("{{\"k\":\"agg\",\"ak\":\"tuple\",\"ops\":{}}}", jlist(&opsj))
                    }
                    AggregateKind::Adt(did, vidx, _, _, active) => {
                        let def = tcx.adt_def(*did);
                        let v = def.variant(*vidx);
                        let mut fields: Vec<String> =
                            v.fields.iter().map(|f| jstr(&f.name.to_string())).collect();
                        if let Some(a) = active {
                            // union: single active field
                            fields = vec![jstr(&v.fields[*a].name.to_string())];
                        }
                        format!(
                            "{{\"k\":\"agg\",\"ak\":\"adt\",\"adt\":{},\"variant\":{},\"fields\":{},\"ops\":{}}}",
                            jstr(&dpath(tcx, *did)),
                            jstr(&v.name.to_string()),
                            jlist(&fields),
                            jlist(&opsj)
                        )
                    }
                    AggregateKind::Closure(did, _) => {
                        let caps = capture_names(tcx, *did);
                        format!(
                            "{{\"k\":\"agg\",\"ak\":\"closure\",\"def\":{},\"fields\":{},\"ops\":{}}}",
                            jstr(&dpath(tcx, *did)),
                            jlist(&caps),
                            jlist(&opsj)
                        )
                    }
                    AggregateKind::Coroutine(did, _) => {
                        let caps = capture_names(tcx, *did);
                        format!(
                            "{{\"k\":\"agg\",\"ak\":\"coroutine\",\"def\":{},\"fields\":{},\"ops\":{}}}",
                            jstr(&dpath(tcx, *did)),
                            jlist(&caps),
                            jlist(&opsj)
                        )
                    }
                    AggregateKind::CoroutineClosure(did, _) => format!(
                        "{{\"k\":\"agg\",\"ak\":\"coroutine_closure\",\"def\":{},\"ops\":{}}}",
                        jstr(&dpath(tcx, *did)),
                        jlist(&opsj)
                    ),
                    AggregateKind::RawPtr(..) => {
                        format!("{{\"k\":\"agg\",\"ak\":\"rawptr\",\"ops\":{}}}", jlist(&opsj))
                    }
                }
            }
            Rvalue::CopyForDeref(pl) => {
                format!("{{\"k\":\"copyderef\",\"pl\":{}}}", self.place(pl))
            }
            Rvalue::WrapUnsafeBinder(op, _) => {
                format!("{{\"k\":\"use\",\"op\":{}}}", self.operand(op))
            }
        }
    }

    fn unwind(&self, u: &UnwindAction) -> String {
        match u {
            UnwindAction::Continue => "\"continue\"".to_string(),
            UnwindAction::Unreachable => "\"unreachable\"".to_string(),
            UnwindAction::Terminate(_) => "\"terminate\"".to_string(),
            UnwindAction::Cleanup(bb) => format!("{}", bb.as_usize()),
        }
    }

    fn terminator(&self, t: &mir::Terminator<'tcx>) -> String {
        let tcx = self.tcx;
        let sp = t.source_info.span;
        let tail = format!(
            ",\"span\":{},\"exp\":{}}}",
            jstr(&span_str(tcx, sp)),
            jstr(&exp_str(sp))
        );
        let head = match &t.kind {
            TerminatorKind::Goto { target } => format!("{{\"k\":\"goto\",\"t\":{}", target.as_usize()),
            TerminatorKind::SwitchInt { discr, targets } => {
                let mut ts: Vec<String> = Vec::new();
                for (v, bb) in targets.iter() {
                    ts.push(format!("[{},{}]", jstr(&v.to_string()), bb.as_usize()));
                }
                let dty = discr.ty(&self.body.local_decls, tcx);
                format!(
                    "{{\"k\":\"switch\",\"op\":{},\"ty\":{},\"targets\":{},\"otherwise\":{}",
                    self.operand(discr),
                    jstr(&ty_str(dty)),
                    jlist(&ts),
                    targets.otherwise().as_usize()
                )
            }
            TerminatorKind::UnwindResume => "{\"k\":\"resume\"".to_string(),
            TerminatorKind::UnwindTerminate(_) => "{\"k\":\"terminate\"".to_string(),
            TerminatorKind::Return => "{\"k\":\"return\"".to_string(),
            TerminatorKind::Unreachable => "{\"k\":\"unreachable\"".to_string(),
            TerminatorKind::Drop { place, target, unwind, replace, .. } => {
                let t = self.place_ty(place);
                let mut dt: Vec<String> = Vec::new();
                let mut seen: Vec<Ty<'tcx>> = Vec::new();
                collect_dtors(tcx, t, 0, &mut dt, &mut seen);
                let dtj: Vec<String> = dt.iter().map(|s| jstr(s)).collect();
                format!(
                    "{{\"k\":\"drop\",\"pl\":{},\"t\":{},\"unwind\":{},\"replace\":{},\"ty\":{},\"dtors\":{}",
                    self.place(place),
                    target.as_usize(),
                    self.unwind(unwind),
                    replace,
                    jstr(&ty_str(t)),
                    jlist(&dtj)
                )
            }
            TerminatorKind::Call { func, args, destination, target, unwind, fn_span, .. } => {
                let mut o = String::from("{\"k\":\"call\"");
                let fty = func.ty(&self.body.local_decls, tcx);
                match fty.kind() {
                    ty::FnDef(did, gargs) => {
                        let _ = write!(o, ",\"callee\":{}", jstr(&dpath(tcx, *did)));
                        let a: Vec<String> = gargs
                            .iter()
                            .map(|a| jstr(&with_no_trimmed_paths!(a.to_string())))
                            .collect();
                        let _ = write!(o, ",\"callee_args\":{}", jlist(&a));
                        // impl self type for inherent / trait-impl methods; trait for trait methods
                        if let Some(parent) = tcx.opt_parent(*did) {
                            match tcx.def_kind(parent) {
                                DefKind::Trait => {
                                    let _ = write!(o, ",\"trait\":{}", jstr(&dpath(tcx, parent)));
                                }
                                DefKind::Impl { .. } => {
                                    let st = tcx.type_of(parent).instantiate_identity().skip_norm_wip();
                                    let _ = write!(o, ",\"impl_self\":{}", jstr(&ty_str(st)));
                                }
                                _ => {}
                            }
                        }
                        let params: Vec<String> = if did.is_local() || true {
                            match tcx.def_kind(*did) {
                                DefKind::Fn | DefKind::AssocFn => tcx
                                    .fn_arg_idents(*did)
                                    .iter()
                                    .map(|i| match i {
                                        Some(id) => jstr(&id.name.to_string()),
                                        None => "null".to_string(),
                                    })
                                    .collect(),
                                _ => Vec::new(),
                            }
                        } else {
                            Vec::new()
                        };
                        let _ = write!(o, ",\"params\":{}", jlist(&params));
                        let env = ty::TypingEnv::post_analysis(tcx, self.owner);
                        match ty::Instance::try_resolve(tcx, env, *did, gargs) {
                            Ok(Some(inst)) => {
                                let rd = inst.def_id();
                                let _ = write!(o, ",\"resolved\":{}", jstr(&dpath(tcx, rd)));
                                let ra: Vec<String> = inst
                                    .args
                                    .iter()
                                    .map(|a| jstr(&with_no_trimmed_paths!(a.to_string())))
                                    .collect();
                                let _ = write!(o, ",\"resolved_args\":{}", jlist(&ra));
                                let rk = format!("{:?}", inst.def);
                                let rk = rk.split('(').next().unwrap_or("").to_string();
                                let _ = write!(o, ",\"rkind\":{}", jstr(&rk));
                                if let Some(parent) = tcx.opt_parent(rd) {
                                    if let DefKind::Impl { .. } = tcx.def_kind(parent) {
                                        let st = tcx.type_of(parent).instantiate_identity().skip_norm_wip();
                                        let _ = write!(o, ",\"resolved_self\":{}", jstr(&ty_str(st)));
                                    }
                                }
                            }
                            _ => {
                                let _ = write!(o, ",\"resolved\":null");
                            }
                        }
                    }
                    _ => {
                        let _ = write!(o, ",\"callee\":null,\"fnop\":{}", self.operand(func));
                        let _ = write!(o, ",\"fn_ty\":{}", jstr(&ty_str(fty)));
                    }
                }
                let aj: Vec<String> = args.iter().map(|a| self.operand(&a.node)).collect();
                let atys: Vec<String> = args
                    .iter()
                    .map(|a| jstr(&ty_str(a.node.ty(&self.body.local_decls, tcx))))
                    .collect();
                let _ = write!(o, ",\"args\":{}", jlist(&aj));
                let _ = write!(o, ",\"arg_tys\":{}", jlist(&atys));
                let _ = write!(o, ",\"dest\":{}", self.place(destination));
                let _ = write!(o, ",\"dest_ty\":{}", jstr(&ty_str(self.place_ty(destination))));
                let _ = write!(
                    o,
                    ",\"t\":{}",
                    match target {
                        Some(b) => b.as_usize().to_string(),
                        None => "null".to_string(),
                    }
                );
                let _ = write!(o, ",\"unwind\":{}", self.unwind(unwind));
                let _ = write!(o, ",\"fn_span\":{}", jstr(&span_str(tcx, *fn_span)));
                let _ = write!(o, ",\"fn_exp\":{}", jstr(&exp_str(*fn_span)));
                o
            }
            TerminatorKind::TailCall { .. } => "{\"k\":\"tailcall\"".to_string(),
            TerminatorKind::Assert { cond, expected, msg, target, unwind } => {
                let m = match &**msg {
                    AssertKind::BoundsCheck { len, index } => format!(
                        "{{\"k\":\"BoundsCheck\",\"len\":{},\"index\":{}}}",
                        self.operand(len),
                        self.operand(index)
                    ),
                    AssertKind::Overflow(op, a, b) => format!(
                        "{{\"k\":\"Overflow\",\"op\":\"{:?}\",\"a\":{},\"b\":{}}}",
                        op,
                        self.operand(a),
                        self.operand(b)
                    ),
                    AssertKind::OverflowNeg(a) => {
                        format!("{{\"k\":\"OverflowNeg\",\"a\":{}}}", self.operand(a))
                    }
                    AssertKind::DivisionByZero(a) => {
                        format!("{{\"k\":\"DivisionByZero\",\"a\":{}}}", self.operand(a))
                    }
                    AssertKind::RemainderByZero(a) => {
                        format!("{{\"k\":\"RemainderByZero\",\"a\":{}}}", self.operand(a))
                    }
                    AssertKind::ResumedAfterReturn(_) => "{\"k\":\"ResumedAfterReturn\"}".to_string(),
                    AssertKind::ResumedAfterPanic(_) => "{\"k\":\"ResumedAfterPanic\"}".to_string(),
                    AssertKind::ResumedAfterDrop(_) => "{\"k\":\"ResumedAfterDrop\"}".to_string(),
                    _ => "{\"k\":\"Other\"}".to_string(),
                };
                format!(
                    "{{\"k\":\"assert\",\"cond\":{},\"expected\":{},\"msg\":{},\"t\":{},\"unwind\":{}",
                    self.operand(cond),
                    expected,
                    m,
                    target.as_usize(),
                    self.unwind(unwind)
                )
            }
            TerminatorKind::Yield { value, resume, resume_arg, drop } => format!(
                "{{\"k\":\"yield\",\"val\":{},\"resume\":{},\"resume_arg\":{},\"drop\":{}",
                self.operand(value),
                resume.as_usize(),
                self.place(resume_arg),
                match drop {
                    Some(b) => b.as_usize().to_string(),
                    None => "null".to_string(),
                }
            ),
            TerminatorKind::CoroutineDrop => "{\"k\":\"cordrop\"".to_string(),
            TerminatorKind::FalseEdge { real_target, imaginary_target } => format!(
                "{{\"k\":\"falseedge\",\"real\":{},\"imag\":{}",
                real_target.as_usize(),
                imaginary_target.as_usize()
            ),
            TerminatorKind::FalseUnwind { real_target, unwind } => format!(
                "{{\"k\":\"falseunwind\",\"real\":{},\"unwind\":{}",
                real_target.as_usize(),
                self.unwind(unwind)
            ),
            TerminatorKind::InlineAsm { .. } => "{\"k\":\"asm\"".to_string(),
        };
        format!("{}{}", head, tail)
    }

    fn statement(&self, s: &mir::Statement<'tcx>) -> Option<String> {
        let tcx = self.tcx;
        match &s.kind {
            StatementKind::Assign(b) => {
                let (pl, rv) = &**b;
                Some(format!(
                    "{{\"k\":\"assign\",\"pl\":{},\"rv\":{},\"span\":{},\"exp\":{}}}",
                    self.place(pl),
                    self.rvalue(rv),
                    jstr(&span_str(tcx, s.source_info.span)),
                    jstr(&exp_str(s.source_info.span))
                ))
            }
            StatementKind::SetDiscriminant { place, variant_index } => Some(format!(
                "{{\"k\":\"setdiscr\",\"pl\":{},\"variant\":{}}}",
                self.place(place),
                variant_index.as_usize()
            )),
            StatementKind::StorageLive(l) => Some(format!("{{\"k\":\"live\",\"l\":{}}}", l.as_usize())),
            StatementKind::StorageDead(l) => Some(format!("{{\"k\":\"dead\",\"l\":{}}}", l.as_usize())),
            StatementKind::FakeRead(b) => {
                Some(format!("{{\"k\":\"fakeread\",\"pl\":{}}}", self.place(&b.1)))
            }
            StatementKind::PlaceMention(p) => {
                Some(format!("{{\"k\":\"mention\",\"pl\":{}}}", self.place(p)))
            }
            _ => None,
        }
    }

    fn body_json(&self, with_debug: bool) -> String {
        let tcx = self.tcx;
        let body = self.body;
        let mut o = String::new();
        let _ = write!(o, "\"arg_count\":{}", body.arg_count);
        let locals: Vec<String> = body
            .local_decls
            .iter()
            .map(|d| {
                format!(
                    "{{\"ty\":{},\"ty_def\":{},\"user\":{}}}",
                    jstr(&ty_str(d.ty)),
                    jopt_str(ty_def(tcx, d.ty)),
                    d.is_user_variable()
                )
            })
            .collect();
        let _ = write!(o, ",\"locals\":{}", jlist(&locals));
        if with_debug {
            let mut dbg: Vec<String> = Vec::new();
            for v in body.var_debug_info.iter() {
                if let mir::VarDebugInfoContents::Place(p) = &v.value {
                    dbg.push(format!(
                        "{{\"name\":{},\"pl\":{},\"arg\":{}}}",
                        jstr(&v.name.to_string()),
                        self.place(p),
                        match v.argument_index {
                            Some(i) => i.to_string(),
                            None => "null".to_string(),
                        }
                    ));
                }
            }
            let _ = write!(o, ",\"debug\":{}", jlist(&dbg));
        }
        let mut blocks: Vec<String> = Vec::new();
        for (_, data) in body.basic_blocks.iter_enumerated() {
            let stmts: Vec<String> = data.statements.iter().filter_map(|s| self.statement(s)).collect();
            let term = match &data.terminator {
                Some(t) => self.terminator(t),
                None => "null".to_string(),
            };
            blocks.push(format!(
                "{{\"cleanup\":{},\"stmts\":{},\"term\":{}}}",
                data.is_cleanup,
                jlist(&stmts),
                term
            ));
        }
        let _ = write!(o, ",\"blocks\":{}", jlist(&blocks));
        o
    }
}

fn is_str_or_bytes(t: Ty<'_>) -> bool {
    if let ty::Ref(_, inner, _) = t.kind() {
        match inner.kind() {
            ty::Str => return true,
            ty::Slice(e) => return matches!(e.kind(), ty::Uint(ty::UintTy::U8)),
            _ => {}
        }
    }
    false
}

fn scalar_int_str<'tcx>(tcx: TyCtxt<'tcx>, i: ty::ScalarInt, t: Ty<'tcx>) -> Option<String> {
    let _ = tcx;
    let size = i.size();
    let bits = i.to_bits(size);
    match t.kind() {
        ty::Int(_) => {
            let nbits = size.bits() as u32;
            if nbits == 0 {
                return None;
            }
            let v = if nbits >= 128 {
                bits as i128
            } else {
                let shift = 128 - nbits;
                ((bits << shift) as i128) >> shift
            };
            Some(v.to_string())
        }
        ty::Uint(_) | ty::Bool | ty::Char => Some(bits.to_string()),
        _ => None,
    }
}

fn variant_name<'tcx>(tcx: TyCtxt<'tcx>, t: Ty<'tcx>, v: usize) -> String {
    let _ = tcx;
    if let ty::Adt(def, _) = t.kind() {
        if v < def.variants().len() {
            return def.variant(rustc_abi::VariantIdx::from_usize(v)).name.to_string();
        }
    }
    format!("variant#{}", v)
}

fn field_name<'tcx>(tcx: TyCtxt<'tcx>, pty: mir::PlaceTy<'tcx>, idx: usize) -> String {
    match pty.ty.kind() {
        ty::Adt(def, _) => {
            let v = match pty.variant_index {
                Some(v) => v,
                None => {
                    if def.is_enum() {
                        return idx.to_string();
                    }
                    rustc_abi::FIRST_VARIANT
                }
            };
            let var = def.variant(v);
            match var.fields.iter().nth(idx) {
                Some(f) => f.name.to_string(),
                None => idx.to_string(),
            }
        }
        ty::Closure(did, _) | ty::Coroutine(did, _) => {
            if let Some(ld) = did.as_local() {
                let caps = tcx.closure_captures(ld);
                if idx < caps.len() {
                    return caps[idx].to_symbol().to_string();
                }
            }
            idx.to_string()
        }
        _ => idx.to_string(),
    }
}

fn capture_names<'tcx>(tcx: TyCtxt<'tcx>, did: DefId) -> Vec<String> {
    if let Some(ld) = did.as_local() {
        tcx.closure_captures(ld).iter().map(|c| jstr(&c.to_symbol().to_string())).collect()
    } else {
        Vec::new()
    }
}

fn collect_dtors<'tcx>(
    tcx: TyCtxt<'tcx>,
    t: Ty<'tcx>,
    depth: usize,
    out: &mut Vec<String>,
    seen: &mut Vec<Ty<'tcx>>,
) {
    if depth > 7 || seen.len() > 400 || seen.contains(&t) {
        return;
    }
    seen.push(t);
    match t.kind() {
        ty::Adt(def, args) => {
            if def.has_dtor(tcx) {
                let s = ty_str(t);
                if !out.contains(&s) {
                    out.push(s);
                }
            }
            if def.is_box() {
                if let Some(inner) = args.types().next() {
                    collect_dtors(tcx, inner, depth + 1, out, seen);
                }
                return;
            }
            if def.is_manually_drop() {
                return;
            }
            for v in def.variants().iter() {
                for f in v.fields.iter() {
                    let ft = f.ty(tcx, args);
                    collect_dtors(tcx, ft, depth + 1, out, seen);
                }
            }
        }
        ty::Tuple(ts) => {
            for e in ts.iter() {
                collect_dtors(tcx, e, depth + 1, out, seen);
            }
        }
        ty::Array(e, _) | ty::Slice(e) => collect_dtors(tcx, *e, depth + 1, out, seen),
        ty::Closure(_, args) => {
            for e in args.as_closure().upvar_tys().iter() {
                collect_dtors(tcx, e, depth + 1, out, seen);
            }
        }
        ty::Coroutine(_, args) => {
            for e in args.as_coroutine().upvar_tys().iter() {
                collect_dtors(tcx, e, depth + 1, out, seen);
            }
        }
        _ => {}
    }
}

fn dump_body<'tcx>(tcx: TyCtxt<'tcx>, def: LocalDefId) {
    let kind = tcx.def_kind(def);
    if !matches!(kind, DefKind::Fn | DefKind::AssocFn | DefKind::Closure) {
        return;
    }
    let (body, promoted) = {
        let (b, p) = tcx.mir_promoted(def);
        (b.borrow().clone(), p.borrow().clone())
    };
    let did = def.to_def_id();
    let cx = Cx { tcx, body: &body, owner: did };
    let mut o = String::from("{\"kind\":\"body\"");
    let _ = write!(o, ",\"path\":{}", jstr(&dpath(tcx, did)));
    let _ = write!(o, ",\"def_kind\":{}", jstr(&format!("{:?}", kind)));
    let parent = tcx.opt_parent(did).map(|p| dpath(tcx, p));
    let _ = write!(o, ",\"parent\":{}", jopt_str(parent));
    // the enclosing fn/assoc fn (family root) for closures and async blocks
    let root = tcx.typeck_root_def_id(did);
    let _ = write!(o, ",\"root\":{}", jstr(&dpath(tcx, root)));
    let _ = write!(o, ",\"span\":{}", jstr(&span_str(tcx, body.span)));
    let cor = match tcx.coroutine_kind(did) {
        Some(k) => Some(format!("{:?}", k)),
        None => None,
    };
    let _ = write!(o, ",\"coroutine\":{}", jopt_str(cor));
    if matches!(kind, DefKind::Fn | DefKind::AssocFn) {
        let vis = format!("{:?}", tcx.visibility(did));
        let _ = write!(o, ",\"vis\":{}", jstr(&vis));

        let params: Vec<String> = tcx
            .fn_arg_idents(did)
            .iter()
            .map(|i| match i {
                Some(id) => jstr(&id.name.to_string()),
                None => "null".to_string(),
            })
            .collect();
        let _ = write!(o, ",\"params\":{}", jlist(&params));
        if let Some(parent) = tcx.opt_parent(did) {
            if let DefKind::Impl { .. } = tcx.def_kind(parent) {
                let st = tcx.type_of(parent).instantiate_identity().skip_norm_wip();
                let _ = write!(o, ",\"impl_self\":{}", jstr(&ty_str(st)));
                if let Some(tr) = tcx.impl_opt_trait_ref(parent) {
                    let tr = tr.instantiate_identity().skip_norm_wip();
                    let _ = write!(o, ",\"impl_trait\":{}", jstr(&dpath(tcx, tr.def_id)));
                }
            }
        }
    }
    let in_test = dpath(tcx, did).contains("::tests::");
    let _ = write!(o, ",\"test\":{}", in_test);
    o.push(',');
    o.push_str(&cx.body_json(true));
    let mut proms: Vec<String> = Vec::new();
    for p in promoted.iter() {
        let pcx = Cx { tcx, body: p, owner: did };
        proms.push(format!("{{{}}}", pcx.body_json(false)));
    }
    let _ = write!(o, ",\"promoted\":{}", jlist(&proms));
    o.push('}');
    RECORDS.lock().unwrap().push(o);
}

fn my_borrowck<'tcx>(
    tcx: TyCtxt<'tcx>,
    root: LocalDefId,
) -> rustc_middle::queries::mir_borrowck::ProvidedValue<'tcx> {
    dump_body(tcx, root);
    for nested in tcx.nested_bodies_within(root).iter() {
        dump_body(tcx, nested);
    }
    (rustc_interface::DEFAULT_QUERY_PROVIDERS.queries.mir_borrowck)(tcx, root)
}

fn dump_items<'tcx>(tcx: TyCtxt<'tcx>) {
    // ADT definitions (fields by name and type) for role / tag-table rules
    for ld in tcx.hir_crate_items(()).definitions() {
        let did = ld.to_def_id();
        match tcx.def_kind(did) {
            DefKind::Struct | DefKind::Enum => {
                let def = tcx.adt_def(did);
                let mut vars: Vec<String> = Vec::new();
                for v in def.variants().iter() {
                    let fields: Vec<String> = v
                        .fields
                        .iter()
                        .map(|f| {
                            let ft = tcx.type_of(f.did).instantiate_identity().skip_norm_wip();
                            format!("[{},{}]", jstr(&f.name.to_string()), jstr(&ty_str(ft)))
                        })
                        .collect();
                    vars.push(format!(
                        "{{\"name\":{},\"fields\":{}}}",
                        jstr(&v.name.to_string()),
                        jlist(&fields)
                    ));
                }
                let has_dtor = def.has_dtor(tcx);
                RECORDS.lock().unwrap().push(format!(
                    "{{\"kind\":\"adt\",\"path\":{},\"is_enum\":{},\"has_dtor\":{},\"variants\":{}}}",
                    jstr(&dpath(tcx, did)),
                    def.is_enum(),
                    has_dtor,
                    jlist(&vars)
                ));
            }
            DefKind::Fn | DefKind::AssocFn => {
                // signature (also for bodies, to have param types / unsafety)
                let sig = tcx.fn_sig(did).instantiate_identity().skip_norm_wip();
                let sig = sig.skip_binder();
                let ins: Vec<String> = sig.inputs().iter().map(|t| jstr(&ty_str(*t))).collect();
                let hdr = format!("{:?}", sig.safety());
                let exported = tcx.effective_visibilities(()).is_reachable(ld);
                RECORDS.lock().unwrap().push(format!(
                    "{{\"kind\":\"fnsig\",\"path\":{},\"inputs\":{},\"output\":{},\"safety\":{},\"exported\":{}}}",
                    jstr(&dpath(tcx, did)),
                    jlist(&ins),
                    jstr(&ty_str(sig.output())),
                    jstr(&hdr),
                    exported
                ));
            }
            _ => {}
        }
    }
}

struct Analyse;

impl rustc_driver::Callbacks for Analyse {
    fn config(&mut self, c: &mut interface::Config) {
        c.override_queries = Some(|_s, p| {
            p.queries.mir_borrowck = my_borrowck;
        });
    }

    fn after_analysis<'tcx>(&mut self, _: &interface::Compiler, tcx: TyCtxt<'tcx>) -> Compilation {
        // force borrowck (and therefore our capture) of every body owner
        for def in tcx.hir_body_owners() {
            if matches!(tcx.def_kind(def), DefKind::Fn | DefKind::AssocFn) {
                let _ = tcx.ensure_ok().mir_borrowck(def);
            }
        }
        dump_items(tcx);
        let out_dir = match std::env::var("BCFACTS_OUT") {
            Ok(d) => d,
            Err(_) => return Compilation::Continue,
        };
        let crate_name = tcx.crate_name(rustc_span::def_id::LOCAL_CRATE).to_string();
        let crate_types = format!("{:?}", tcx.crate_types());
        let is_test = tcx.sess.opts.test;
        let recs = std::mem::take(&mut *RECORDS.lock().unwrap());
        let nbodies = recs.iter().filter(|r| r.starts_with("{\"kind\":\"body\"")).count();
        let mut out = String::new();
        let _ = writeln!(
            out,
            "{{\"kind\":\"header\",\"driver\":{},\"crate\":{},\"crate_types\":{},\"test_harness\":{},\"bodies\":{},\"rustc\":{}}}",
            jstr(DRIVER_VERSION),
            jstr(&crate_name),
            jstr(&crate_types),
            is_test,
            nbodies,
            jstr(&rustc_session::config::host_tuple().to_string())
        );
        for r in recs {
            out.push_str(&r);
            out.push('\n');
        }
        let tag = std::env::var("BCFACTS_TAG").unwrap_or_default();
        let fname = format!(
            "{}/{}{}{}-{}.jsonl",
            out_dir,
            crate_name,
            if is_test { "-test" } else { "" },
            tag,
            std::process::id()
        );
        if let Err(e) = std::fs::write(&fname, out) {
            eprintln!("bcfacts: cannot write {}: {}", fname, e);
            std::process::exit(101);
        }
        Compilation::Continue
    }
}

struct PassThrough;
impl rustc_driver::Callbacks for PassThrough {}

fn main() {
    let mut args: Vec<String> = std::env::args().collect();
    // RUSTC_WRAPPER convention: argv[1] is the real rustc path
    if args.len() > 1 {
        args.remove(1);
    }
    // strip `--cfg feature="stdsimd"` (ahash 0.7.6 build script vs. current nightly)
    let mut cleaned: Vec<String> = Vec::with_capacity(args.len());
    let mut i = 0;
    while i < args.len() {
        if args[i] == "--cfg" && i + 1 < args.len() && args[i + 1] == "feature=\"stdsimd\"" {
            i += 2;
            continue;
        }
        cleaned.push(args[i].clone());
        i += 1;
    }
    let primary = std::env::var("CARGO_PRIMARY_PACKAGE").is_ok();
    let want = std::env::var("BCFACTS_OUT").is_ok();
    // build scripts of the primary package also have CARGO_PRIMARY_PACKAGE; skip them
    let is_build_script = cleaned.iter().any(|a| a == "build_script_build");
    if primary && want && !is_build_script {
        rustc_driver::run_compiler(&cleaned, &mut Analyse);
    } else {
        rustc_driver::run_compiler(&cleaned, &mut PassThrough);
    }
}

// D5, D6, D7 (C07, C10): parser totality.
use super::*;
use std::io::Cursor;

fn both(input: &[u8]) -> (Result<(), Error>, Result<Frame, Error>) {
    let mut c = Cursor::new(input);
    let a = Frame::check(&mut c);
    let mut c = Cursor::new(input);
    let b = Frame::parse(&mut c);
    (a, b)
}

#[test]
fn d5_sign_at_end_of_buffer() {
    for inp in [&b":-"[..], b":+", b"$-", b"*-", b":-\r", b":+\r\n"] {
        let _ = both(inp); // must not panic
    }
    assert_eq!(Err(Error::Incomplete), both(b":-").0);
}

#[test]
fn d6_out_of_range_number_beyond_offset_18() {
    let inp = b"*2\r\n$20\r\n01234567890123456789\r\n:99999999999999999999\r\n";
    let (a, b) = both(inp);
    assert!(matches!(a, Err(Error::NotInteger(_))), "{:?}", a);
    assert!(matches!(b, Err(Error::NotInteger(_))), "{:?}", b);
    // and a number at a late offset keeps its value
    let inp = b"*2\r\n$20\r\n01234567890123456789\r\n:-9223372036854775808\r\n";
    let (a, b) = both(inp);
    assert_eq!(Ok(()), a);
    match b {
        Ok(Frame::Array(v)) => assert_eq!(Frame::Integer(i64::MIN), v[1]),
        other => panic!("{:?}", other),
    }
}

#[test]
fn d7_huge_array_header_does_not_panic_in_parse() {
    let inp = b"*9223372036854775807\r\n";
    let mut c = Cursor::new(&inp[..]);
    let r = Frame::parse(&mut c);
    assert!(r.is_err());
}

#[test]
fn d7_deep_nesting_is_rejected_not_a_stack_overflow() {
    let mut inp = Vec::new();
    for _ in 0..200_000 {
        inp.extend_from_slice(b"*1\r\n");
    }
    inp.extend_from_slice(b":1\r\n");
    // run on a thread with the default 2 MiB stack, like a tokio worker
    let t = std::thread::spawn(move || {
        let (a, b) = both(&inp);
        (a.is_err(), b.is_err())
    });
    assert_eq!((true, true), t.join().unwrap());
}

// D2 (C04): a reader whose mapping ends in the middle of an entry (it mapped the file between
// the two write calls of a large append) must re-map, not slice out of range.
use super::*;

#[test]
fn d2_reader_remaps_when_entry_end_is_beyond_mapping() {
    let dir = tempfile::tempdir().unwrap();
    let fpath = dir.as_ref().join("test");
    let entry: Vec<u8> = (0..20000u32).map(|x| x as u8).collect();
    let bytes = bincode::serialize(&entry).unwrap();
    let mut f = create(&fpath).unwrap();
    use std::io::Write;
    f.write_all(&bytes[..8192]).unwrap(); // first write call of the append
    let mut reader = LogReader::new(open(&fpath).unwrap()).unwrap(); // maps 8192 bytes
    f.write_all(&bytes[8192..]).unwrap(); // second write call; append returns, index published
    let got = unsafe { reader.at::<Vec<u8>>(bytes.len() as u64, 0) };
    assert_eq!(entry, got.unwrap());
}

#[test]
fn d2_reader_reports_error_when_entry_is_beyond_file() {
    let dir = tempfile::tempdir().unwrap();
    let fpath = dir.as_ref().join("test");
    let mut writer = LogWriter::new(create(&fpath).unwrap()).unwrap();
    let idx = writer.append(&vec![1u8, 2, 3]).unwrap();
    let mut reader = LogReader::new(open(&fpath).unwrap()).unwrap();
    let got = unsafe { reader.at::<Vec<u8>>(idx.len + 100, idx.pos) };
    assert!(got.is_err());
    let mut sink = Vec::new();
    let got = unsafe { reader.copy_raw(idx.len + 100, idx.pos, &mut sink) };
    assert!(got.is_err());
}

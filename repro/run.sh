#!/bin/sh
# usage: run.sh <scratch copy of the repository> [test filter]
# Appends the reproduction modules to the scratch copy (never to /repo) and runs them.
set -e
W="$1"; shift
case "$W" in /repo|/repo/*|/verif|/verif/*) echo "refusing to touch $W"; exit 2;; esac
H=$(cd "$(dirname "$0")" && pwd)
grep -q verif_repro "$W/src/storage/bitcask.rs" || printf '\n#[cfg(test)]\nmod verif_repro {\n    include!("%s/storage_repro.rs");\n}\n' "$H" >> "$W/src/storage/bitcask.rs"
grep -q verif_repro "$W/src/storage/bitcask/log.rs" || printf '\n#[cfg(test)]\nmod verif_repro {\n    include!("%s/log_repro.rs");\n}\n' "$H" >> "$W/src/storage/bitcask/log.rs"
grep -q verif_repro "$W/src/net/frame.rs" || printf '\n#[cfg(test)]\nmod verif_repro {\n    include!("%s/frame_repro.rs");\n}\n' "$H" >> "$W/src/net/frame.rs"
cd "$W" && CARGO_NET_OFFLINE=true cargo test --offline --lib -- verif_repro "$@"

// Reproductions of the storage defects D1, D3, D4(+D2 chain), D8b, D9, D10 against the real code.
// Included into src/storage/bitcask.rs of a scratch copy as `mod verif_repro` (see run.sh).
use super::*;
use std::sync::atomic::{AtomicBool, Ordering};

fn conf_at(dir: &std::path::Path) -> Config {
    Config::default()
        .concurrency(1)
        .merge_policy(MergePolicy::Never)
        .path(dir)
        .to_owned()
}

fn b(s: &str) -> Bytes {
    Bytes::from(s.to_string())
}

/// D1 (C02, C19): a tombstone must delete the key on rebuild.
#[test]
fn d1_deleted_key_stays_deleted_after_reopen() {
    let dir = tempfile::tempdir().unwrap();
    let conf = conf_at(dir.path());
    {
        let kv = conf.clone().open().unwrap();
        let h = kv.get_handle();
        h.put(b("k"), b("v")).unwrap();
        assert!(h.delete(b("k")).unwrap());
        assert_eq!(None, h.get(b("k")).unwrap());
    }
    let kv = conf.open().unwrap();
    let h = kv.get_handle();
    assert_eq!(None, h.get(b("k")).unwrap(), "deleted key came back after reopen");
    // accounting: file 0 holds one overwritten value and one tombstone, nothing live
    let st = h.ctx.stats.get(&0).unwrap();
    assert_eq!((0, 2), (st.live_keys, st.dead_keys));
}

/// D3 (C04): a panic inside `get` must not lose the pooled reader. The panic is provoked by
/// truncating the data file behind the store's back (on the pinned tree `LogReader::at`
/// slices out of range, D2).
#[test]
fn d3_reader_returns_to_pool_after_panic() {
    let dir = tempfile::tempdir().unwrap();
    let conf = conf_at(dir.path());
    let kv = conf.open().unwrap();
    let h = kv.get_handle();
    h.put(b("k"), b("v")).unwrap();
    std::fs::OpenOptions::new()
        .write(true)
        .open(utils::datafile_name(dir.path(), 0))
        .unwrap()
        .set_len(0)
        .unwrap();
    let h2 = h.clone();
    let _ = std::thread::spawn(move || {
        let _ = h2.get(b("k"));
    })
    .join();
    // the pool has one reader; if it was lost the next get spins forever
    let done = std::sync::Arc::new(AtomicBool::new(false));
    let d2 = done.clone();
    let h3 = h.clone();
    std::thread::spawn(move || {
        let _ = std::panic::catch_unwind(std::panic::AssertUnwindSafe(|| h3.get(b("k"))));
        d2.store(true, Ordering::SeqCst);
    });
    for _ in 0..100 {
        if done.load(Ordering::SeqCst) {
            return;
        }
        std::thread::sleep(std::time::Duration::from_millis(50));
    }
    panic!("get hangs: the reader was not returned to the pool");
}

/// D4 (+D2) (C04): while a merge runs, concurrent gets must keep succeeding. On the pinned
/// tree the index is re-pointed to bytes still sitting in the merge BufWriter.
#[test]
fn d4_gets_succeed_while_merge_runs() {
    let dir = tempfile::tempdir().unwrap();
    let conf = Config::default()
        .concurrency(2)
        .merge_policy(MergePolicy::Never)
        .path(dir.path())
        .to_owned();
    let kv = conf.open().unwrap();
    let h = kv.get_handle();
    let n = 20000;
    for i in 0..n {
        h.put(b(&format!("key{}", i)), b(&format!("value{}", i))).unwrap();
    }
    let stop = std::sync::Arc::new(AtomicBool::new(false));
    let failed = std::sync::Arc::new(AtomicBool::new(false));
    let started = std::sync::Arc::new(AtomicBool::new(false));
    let (s2, f2, h2, st2) = (stop.clone(), failed.clone(), h.clone(), started.clone());
    let t = std::thread::spawn(move || {
        let mut i = 0;
        while !s2.load(Ordering::SeqCst) {
            if i > 7000 {
                st2.store(true, Ordering::SeqCst);
            }
            let key = format!("key{}", i % n);
            let r = std::panic::catch_unwind(std::panic::AssertUnwindSafe(|| h2.get(b(&key))));
            match r {
                Ok(Ok(Some(v))) if v == b(&format!("value{}", i % n)) => {}
                other => {
                    eprintln!("get({}) during merge -> {:?}", key, other.map(|r| r.map_err(|e| e.to_string())));
                    f2.store(true, Ordering::SeqCst);
                    break;
                }
            }
            i += 7;
        }
    });
    while !started.load(Ordering::SeqCst) && !failed.load(Ordering::SeqCst) {
        std::thread::yield_now();
    }
    h.merge().unwrap();
    stop.store(true, Ordering::SeqCst);
    t.join().unwrap();
    assert!(!failed.load(Ordering::SeqCst), "a get failed while the merge was running");
}

fn copy_dir(from: &std::path::Path, to: &std::path::Path) {
    for e in std::fs::read_dir(from).unwrap() {
        let e = e.unwrap();
        std::fs::copy(e.path(), to.join(e.file_name())).unwrap();
    }
}

/// D4/D8b (C03, C09): the directory a kill (or power loss) leaves right after a merge appended
/// (and flushed) the hint record of an entry whose data bytes are still in the merge
/// `BufWriter` (std's `io::copy` into a `BufWriter` flushes the *previous* content first, so the
/// last copied entry is always unflushed until the next copy or the scope end): sources intact,
/// complete hint file, merge data file lacking its last entry. It must open and read every key.
#[test]
fn d8b_hint_ahead_of_data_is_not_trusted() {
    let dir = tempfile::tempdir().unwrap();
    let before = tempfile::tempdir().unwrap();
    let crash = tempfile::tempdir().unwrap();
    let merge_id = 1;
    let last_pos;
    {
        let kv = conf_at(dir.path()).open().unwrap();
        let h = kv.get_handle();
        for i in 0..5 {
            h.put(b(&format!("k{}", i)), b(&format!("v{}", i))).unwrap();
        }
        copy_dir(dir.path(), before.path());
        h.merge().unwrap();
        last_pos = h.ctx.keydir.iter().filter(|e| e.fileid == merge_id).map(|e| e.pos).max().unwrap();
    }
    // crash state = sources + the merge's hint file + merge data file without its last entry
    copy_dir(before.path(), crash.path());
    std::fs::copy(
        utils::hintfile_name(dir.path(), merge_id),
        utils::hintfile_name(crash.path(), merge_id),
    )
    .unwrap();
    std::fs::copy(
        utils::datafile_name(dir.path(), merge_id),
        utils::datafile_name(crash.path(), merge_id),
    )
    .unwrap();
    std::fs::OpenOptions::new()
        .write(true)
        .open(utils::datafile_name(crash.path(), merge_id))
        .unwrap()
        .set_len(last_pos)
        .unwrap();
    let kv = conf_at(crash.path()).open().unwrap();
    let h = kv.get_handle();
    for i in 0..5 {
        let r = std::panic::catch_unwind(std::panic::AssertUnwindSafe(|| h.get(b(&format!("k{}", i)))));
        match r {
            Ok(Ok(Some(v))) => assert_eq!(b(&format!("v{}", i)), v),
            other => panic!("k{} unreadable after crash mid-merge: {:?}", i, other.map(|r| r.map_err(|e| e.to_string()))),
        }
    }
}

/// D9 (C05) — known finding, reproduced on the D1-fixed tree: the value lives in an older file
/// the merge does not select, its tombstone in a later file the merge does select.
#[test]
fn d9_partial_merge_drops_tombstone() {
    let dir = tempfile::tempdir().unwrap();
    let conf = Config::default()
        .concurrency(1)
        .merge_policy(MergePolicy::Never)
        .max_file_size(1000)
        .merge_threshold_small_file(500)
        .path(dir.path())
        .to_owned();
    {
        let kv = conf.clone().open().unwrap();
        let h = kv.get_handle();
        h.put(b("k"), b("old")).unwrap();
        // filler: file 0 grows past 1000 bytes and rolls over; it is large and has 1 dead of many
        for i in 0..25 {
            h.put(b(&format!("fill{}", i)), b("xxxxxxxxxxxxxxxx")).unwrap();
        }
        assert!(h.delete(b("k")).unwrap()); // tombstone lands in a small later file
        h.merge().unwrap();
        assert_eq!(None, h.get(b("k")).unwrap());
    }
    let kv = conf.open().unwrap();
    assert_eq!(None, kv.get_handle().get(b("k")).unwrap(), "deleted key resurrected by merge + reopen");
}

/// D10 (C20): a rollover whose file creation fails must not leave the writer indexing under
/// an id whose file does not hold the bytes.
#[test]
fn d10_failed_rollover_keeps_writer_consistent() {
    let dir = tempfile::tempdir().unwrap();
    let conf = Config::default()
        .concurrency(1)
        .merge_policy(MergePolicy::Never)
        .max_file_size(64)
        .path(dir.path())
        .to_owned();
    let kv = conf.open().unwrap();
    let h = kv.get_handle();
    // the next rollover wants to create file 1: make that fail
    std::fs::File::create(utils::datafile_name(dir.path(), 1)).unwrap();
    let r = h.put(b("k1"), b(&"x".repeat(100)));
    assert!(r.is_err(), "rollover into an existing file must be reported");
    // transient fault is gone
    std::fs::remove_file(utils::datafile_name(dir.path(), 1)).unwrap();
    h.put(b("k2"), b("v2")).unwrap(); // acknowledged
    let r = std::panic::catch_unwind(std::panic::AssertUnwindSafe(|| h.get(b("k2"))));
    match r {
        Ok(Ok(Some(v))) => assert_eq!(b("v2"), v),
        other => panic!("acknowledged k2 unreadable after failed rollover: {:?}", other.map(|r| r.map_err(|e| e.to_string()))),
    }
}

/// D11 (C20) — known finding, reproduced on the current tree: a merge that fails after it has
/// re-pointed keys to its first output returns without rotating the active file above that
/// output. A later acknowledged overwrite goes to the old active file (lower id); recovery
/// replays it BEFORE the merge output's hint file and the overwrite is lost.
#[test]
fn d11_failed_merge_then_overwrite_reverts_on_reopen() {
    let dir = tempfile::tempdir().unwrap();
    let conf = Config::default()
        .concurrency(1)
        .merge_policy(MergePolicy::Never)
        .max_file_size(512)
        .path(dir.path())
        .to_owned();
    let mut failed = false;
    let mut acked: Vec<String> = Vec::new();
    {
        let kv = conf.clone().open().unwrap();
        let h = kv.get_handle();
        for i in 0..60 {
            h.put(b(&format!("key-{:03}", i)), b(&format!("value-{:03}", i))).unwrap();
        }
        // the merge will create outputs active+1, active+2, ...: make the SECOND output's hint
        // file impossible to create (the fault), so merge() fails after re-pointing some keys
        let active = utils::sorted_fileids(dir.path()).unwrap().last().unwrap();
        std::fs::create_dir(utils::hintfile_name(dir.path(), active + 2)).unwrap();
        if h.merge().is_err() {
            failed = true;
        }
        // overwrite every key; only overwrites that were ACKNOWLEDGED (Ok) count — once the active
        // file is full the rollover itself fails (the id above it is taken by the merge output)
        for i in 0..60 {
            let k = format!("key-{:03}", i);
            if h.put(b(&k), b("NEW")).is_ok() {
                assert_eq!(Some(b("NEW")), h.get(b(&k)).unwrap());
                acked.push(k);
            }
        }
        std::fs::remove_dir(utils::hintfile_name(dir.path(), active + 2)).unwrap();
    }
    assert!(failed, "the planted fault did not make the merge fail");
    assert!(!acked.is_empty(), "no overwrite was acknowledged");
    let kv = conf.open().unwrap();
    let h = kv.get_handle();
    for k in acked {
        assert_eq!(Some(b("NEW")), h.get(b(&k)).unwrap(), "acknowledged overwrite of {} reverted after reopen", k);
    }
}

"""Views of async constructs in pre-transform MIR: awaits (`Future::poll` loops) and `tokio::select!`
(a tuple of branch futures captured by a `poll_fn` closure, whose output enum `_0/_1/..` is
matched afterwards)."""
from common import *


def poll_sites(body):
    """(bb, term, future origin) for every Future::poll call"""
    out = []
    for bb, t in body.calls():
        if bb in body.live_blocks() and is_call_to(t, "std::future::Future::poll"):
            out.append((bb, t, peel(arg_origin(body, t, 0))))
    return out


def awaited(o):
    """if o is the value produced by `.await` (Ready payload of a poll), return the future's origin"""
    o = peel_var(o)
    hops = 0
    while hops < 4:
        if o[0] == "try":
            o = peel_var(o[1])
        elif o[0] == "field" and o[1][0] == "variant" and o[1][2] in ("Continue", "Ok", "Some") and peel_var(o[1][1])[0] in ("try", "var", "call", "field"):
            # payload of `x?` / Ok(x): look at x
            inner = peel_var(o[1][1])
            if o[1][2] == "Continue" and inner[0] == "try":
                o = peel_var(inner[1])
            elif o[1][2] in ("Ok", "Some"):
                o = inner
            else:
                break
        else:
            break
        hops += 1
    if o[0] == "field" and o[1][0] == "variant" and o[1][2] == "Ready":
        c = peel_var(o[1][1])
        if c[0] == "call" and c[1] == "std::future::Future::poll":
            return peel(c[2][0])
    return None


def ready_edges(body, fut_pred):
    """edges that mean `<future satisfying fut_pred>.await` completed"""
    out = set()
    polls = {}
    for bb, t, fo in poll_sites(body):
        if fut_pred(fo):
            polls[(body.path, bb)] = fo
    for bb in body.live_blocks():
        info = body.switch_info(bb)
        if info and info["kind"] == "variant":
            o = peel_var(info["on"])
            if o[0] == "call" and o[3] in polls:
                for e in body.succ[bb]:
                    if info["arms"].get(e.dst) == ["Ready"]:
                        out.add((e.src, e.dst))
    return out


def is_call_origin(o, *suffixes):
    return o is not None and o[0] == "call" and o[1] is not None and any(o[1] == s or o[1].endswith("::" + s) for s in suffixes)


def selects(body):
    """tokio::select! instances in a body: dict(futs=[future origins by branch index], tuple_bb,
    out_bb (switch on the output enum), arms={index: dst block}, disabled_dst)"""
    res = []
    tuples = {}
    for bb in sorted(body.live_blocks()):
        for st in body.blocks[bb]["stmts"]:
            if st["k"] == "assign" and st["rv"]["k"] == "agg" and st["rv"]["ak"] == "tuple" and "macro:$crate::select" in st.get("exp", "") and not st["pl"]["p"]:
                o = body.origin_rvalue(st["rv"])
                if o[4] and all(peel(v)[0] in ("call", "field", "arg", "upvar", "var", "agg") for v in o[4].values()):
                    tuples[st["pl"]["l"]] = (bb, [peel(o[4][str(i)]) for i in range(len(o[4]))])
    for bb in sorted(body.live_blocks()):
        info = body.switch_info(bb)
        if not info or info["kind"] != "variant":
            continue
        labs = sum(info["arms"].values(), [])
        if "_0" not in labs:
            continue
        # which tuple does this output come from?
        on = info["on"]
        cands = []

        def f(x):
            if x[0] == "agg" and x[1] == "tuple":
                cands.append(x)

        walk_origin(on, f)
        futs = None
        tbb = None
        for l, (tb, fs) in tuples.items():
            for c in cands:
                if [peel(c[4][str(i)]) for i in range(len(c[4]))] == fs:
                    futs, tbb = fs, tb
        if futs is None and len(tuples) == 1:
            # fall back: the only select in the body
            l, (tbb, futs) = list(tuples.items())[0]
        if futs is None:
            continue
        arms = {}
        dis = None
        for e in body.succ[bb]:
            for lab in info["arms"].get(e.dst, []):
                if lab.startswith("_") and lab[1:].isdigit():
                    arms[int(lab[1:])] = e.dst
                elif lab == "Disabled":
                    dis = e.dst
        res.append({"futs": futs, "tuple_bb": tbb, "out_bb": bb, "arms": arms, "disabled": dis})
    return res

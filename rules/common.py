"""Shared helpers for the rules: context object, reachability with edge filters, return-value
classification, call search within function families, MAY/MUST summaries."""
from collections import deque, defaultdict

from mir import (
    AnchorError,
    Program,
    access_path,
    callee_names,
    const_int,
    is_call_to,
    origin_mentions,
    origin_str,
    peel,
    peel_var,
    short_span,
    strip_generics,
    walk_origin,
)


class Ctx:
    def __init__(self, prog, targets, extra=None):
        self.prog = prog
        self.targets = targets
        self.extra = extra or {}  # other Programs (bins, tests, release-semantics) in the thorough tier
        self.n_calls = 0
        self.n_local_calls = 0
        self.n_unresolved = 0
        for b in prog.bodies.values():
            for bi, t in b.calls():
                self.n_calls += 1
                if prog.callee_body(t) is not None:
                    self.n_local_calls += 1
                elif t.get("resolved") is None:
                    self.n_unresolved += 1
        self.tree_hash = getattr(prog, "tree_hash", None)

    def all_programs(self):
        yield "lib", self.prog
        for k, p in self.extra.items():
            yield k, p


def shipped_bodies(prog):
    """bodies that ship (not inside #[cfg(test)] modules)"""
    return [b for b in prog.bodies.values() if not b.test]


def where(body, bb):
    t = body.term(bb)
    return short_span(t.get("span")) if t else short_span(body.span)


def fam_name(body):
    """function family name for keys: the root fn, generics stripped, crate-relative"""
    return strip_generics(body.root)


def calls_in(bodies, *names, live_only=True):
    """(body, bb, term) for calls to any of names in the given bodies"""
    out = []
    for b in bodies:
        live = b.live_blocks() if live_only else None
        for bi, t in b.calls():
            if live is not None and bi not in live:
                continue
            if is_call_to(t, *names):
                out.append((b, bi, t))
    return out


def arg_origin(body, t, i):
    if i >= len(t["args"]):
        return ("unknown", "noarg")
    return body.origin_operand(t["args"][i])


def arg_path(body, t, i):
    return access_path(arg_origin(body, t, i))


def reach(body, starts, blocked_edges=lambda e: False, blocked_blocks=()):
    """blocks reachable from starts following edges not blocked"""
    seen = set()
    dq = deque()
    for s in starts:
        if s not in blocked_blocks:
            seen.add(s)
            dq.append(s)
    while dq:
        b = dq.popleft()
        for e in body.succ[b]:
            if blocked_edges(e) or e.dst in blocked_blocks:
                continue
            if e.dst not in seen:
                seen.add(e.dst)
                dq.append(e.dst)
    return seen


def path_to(body, starts, goal_pred, blocked_edges=lambda e: False, blocked_blocks=()):
    """shortest block path from any start to a block satisfying goal_pred, or None"""
    parent = {}
    dq = deque()
    for s in starts:
        if s in blocked_blocks:
            continue
        parent[s] = None
        dq.append(s)
    while dq:
        b = dq.popleft()
        if goal_pred(b):
            path = []
            while b is not None:
                path.append(b)
                b = parent[b]
            return list(reversed(path))
        for e in body.succ[b]:
            if blocked_edges(e) or e.dst in blocked_blocks:
                continue
            if e.dst not in parent:
                parent[e.dst] = b
                dq.append(e.dst)
    return None


def describe_path(body, path, interesting=None):
    """witness lines for a block path: the calls / switches / returns on it"""
    out = []
    for i, bb in enumerate(path):
        t = body.term(bb)
        if not t:
            continue
        k = t["k"]
        nxt = path[i + 1] if i + 1 < len(path) else None
        if k == "call":
            cn = strip_generics(t.get("callee")) or "<indirect>"
            if "macro:" in (t.get("fn_exp") or "") and not (interesting and interesting(bb)):
                continue
            edge = ""
            if nxt is not None and isinstance(t.get("unwind"), int) and nxt == t["unwind"] and nxt != t.get("t"):
                edge = "  ⇒ unwinds (panic inside the callee)"
            out.append("%s: call %s%s" % (where(body, bb), cn, edge))
        elif k == "switch" and nxt is not None:
            info = body.switch_info(bb)
            if info and info["kind"] != "int":
                labs = info["arms"].get(nxt, [])
                out.append("%s: branch on %s → %s" % (where(body, bb), origin_str(info["on"]), "/".join(str(x) for x in labs) or "otherwise"))
        elif k == "return":
            out.append("%s: return" % where(body, bb))
        elif k == "resume":
            out.append("%s: resume unwinding (the function exits by panic)" % where(body, bb))
        elif k == "drop" and interesting and interesting(bb):
            out.append("%s: drop %s" % (where(body, bb), t.get("ty")))
        elif k == "yield" and nxt is not None and nxt == t.get("drop"):
            out.append("%s: await cancelled (future dropped at this suspension point)" % where(body, bb))
    return out


def edge_has_fact(body, e, kind, origin_pred, value_pred):
    for f in body.edge_facts(e):
        if f[0] == kind and origin_pred(f[1]) and value_pred(f[2]):
            return True
    return False


def try_edges(body, call_bb):
    """For a call whose result is consumed by `?` (or a match on Ok/Err / Some/None): the edges that
    mean success and failure. Returns (ok_edges, err_edges, switch_bb) or (None, None, None)."""
    site = (body.path, call_bb)
    for bb in body.live_blocks():
        info = body.switch_info(bb)
        if not info or info["kind"] != "variant":
            continue
        on = info["on"]
        o = peel_var(on)
        via_try = False
        if o[0] == "try":
            via_try = True
            o = peel_var(o[1])
        # allow map_err(...) etc. wrappers: a call whose first arg is our call
        seen = 0
        while o[0] == "call" and o[3] != site and o[2] and seen < 4:
            nm = o[1] or ""
            if nm.split("::")[-1] in ("map_err", "map", "into", "from", "and_then", "or_else"):
                o = peel_var(o[2][0])
                if o[0] == "try":
                    o = peel_var(o[1])
                seen += 1
            else:
                break
        if o[0] == "call" and o[3] == site:
            ok_e, err_e = [], []
            for e in body.succ[bb]:
                labs = info["arms"].get(e.dst, [])
                if any(l in ("Continue", "Ok", "Some") for l in labs):
                    ok_e.append(e)
                elif any(l in ("Break", "Err", "None") for l in labs):
                    err_e.append(e)
            if ok_e or err_e:
                return ok_e, err_e, bb
    return None, None, None


def ret_classes(body, start_bb, blocked_edges=lambda e: False):
    """Walk every path from start_bb to a Return; classify what `_0` holds there by its last
    whole assignment on that path. Returns set of (class, detail_origin, ret_bb) with class in
    ok | err | pass | other | unset. Also follows into `resume` as class 'unwind'."""
    out = set()
    seen = set()
    dq = deque([(start_bb, None)])
    while dq:
        bb, last = dq.popleft()
        if (bb, last) in seen:
            continue
        seen.add((bb, last))
        blk = body.blocks[bb]
        cur = last
        for si, st in enumerate(blk["stmts"]):
            if st["k"] == "assign" and st["pl"]["l"] == 0 and not st["pl"]["p"]:
                cur = (bb, si)
        t = blk["term"]
        if t is None:
            continue
        if t["k"] == "call" and t["dest"]["l"] == 0 and not t["dest"]["p"]:
            cur_after_call = (bb, "T")
        else:
            cur_after_call = cur
        if t["k"] == "return":
            out.add((classify_ret(body, cur), cur, bb))
            continue
        if t["k"] == "resume":
            out.add(("unwind", None, bb))
            continue
        for e in body.succ[bb]:
            if blocked_edges(e):
                continue
            nxt = cur_after_call if e.kind == "ret" else cur
            dq.append((e.dst, nxt))
    return out


def classify_ret(body, d):
    if d is None:
        return "unset"
    bb, si = d
    if si == "T":
        t = body.term(bb)
        if is_call_to(t, "std::ops::FromResidual::from_residual"):
            return "err"
        return "pass"
    st = body.blocks[bb]["stmts"][si]
    o = body.origin_rvalue(st["rv"])
    return classify_result_origin(o)


def classify_result_origin(o):
    o = peel_var(o)
    if o[0] == "agg" and o[1] == "adt":
        if o[2] in ("std::result::Result", "core::result::Result"):
            return "ok" if o[3] == "Ok" else "err"
        if o[2] in ("std::option::Option", "core::option::Option"):
            return "some" if o[3] == "Some" else "none"
        return "other"
    if o[0] == "call":
        return "pass"
    if o[0] == "const":
        return "const"
    return "other"


def ret_origin(body, d):
    if d is None:
        return None
    bb, si = d
    if si == "T":
        return body.origin_call(bb)
    return body.origin_rvalue(body.blocks[bb]["stmts"][si]["rv"])


# ---------------------------------------------------------------------------------------------
# transitive call enumeration


def transitive_calls(prog, root_bodies):
    """every call site in the bodies reachable (crate-local call graph, closures attached to their
    creators) from the given bodies: yields (body, bb, term)"""
    paths = prog.reachable_bodies([b.path for b in root_bodies])
    for p in sorted(paths):
        b = prog.bodies[p]
        for bi, t in b.calls():
            if bi in b.live_blocks():
                yield b, bi, t


def must_call_on_ok_paths(prog, body, pred, depth=0, memo=None):
    """True iff every path from entry to a Return whose value is not an error passes through a call
    satisfying pred (directly, or through a crate-local callee for which the same holds)."""
    memo = memo if memo is not None else {}
    if body.path in memo:
        return memo[body.path]
    memo[body.path] = False  # recursion guard
    hit = set()
    for bi, t in body.calls():
        if bi not in body.live_blocks():
            continue
        if pred(t):
            hit.add(bi)
        else:
            cb = prog.callee_body(t)
            if cb is not None and depth < 8 and must_call_on_ok_paths(prog, cb, pred, depth + 1, memo):
                hit.add(bi)
    # a hit counts when the call returns normally; remove hits and see whether a non-error return is reachable

    def blocked(e):
        return e.kind == "unwind"

    ok = True
    # walk paths avoiding hit blocks' normal-return edge
    seen = set()
    dq = deque([0])
    seen.add(0)
    rets = []
    while dq:
        bb = dq.popleft()
        t = body.term(bb)
        if t and t["k"] == "return":
            rets.append(bb)
            continue
        for e in body.succ[bb]:
            if e.kind == "unwind":
                continue
            if bb in hit and e.kind == "ret":
                continue
            if e.dst not in seen:
                seen.add(e.dst)
                dq.append(e.dst)
    if rets:
        # are those returns all error returns? classify along the restricted graph
        def blocked2(e):
            return e.kind == "unwind" or (e.src in hit and e.kind == "ret")

        classes = ret_classes(body, 0, blocked2)
        for c, d, rb in classes:
            if c in ("err", "unwind"):
                continue
            ok = False
    memo[body.path] = ok
    return ok


def creation_sites(prog, body):
    """(parent body, bb) where the closure / coroutine `body` is created"""
    out = []
    for pb in prog.families.get(body.root, []):
        for pbi, blk in enumerate(pb.blocks):
            if pbi not in pb.live_blocks():
                continue
            for st in blk["stmts"]:
                if st["k"] == "assign" and st["rv"]["k"] == "agg" and st["rv"]["ak"] in ("closure", "coroutine", "coroutine_closure") and st["rv"].get("def") == body.path:
                    out.append((pb, pbi))
    return out

"""Shared helpers for the rules: context object, reachability with edge filters, return-value
classification, call search within function families, MAY/MUST summaries."""
from collections import deque, defaultdict

from mir import (
    AnchorError,
    Program,
    access_path,
    callee_names,
    const_int,
    const_bytes,
    is_call_to,
    origin_mentions,
    origin_str,
    peel,
    peel_var,
    short_span,
    strip_generics,
    walk_origin,
)


class Ctx:
    def __init__(self, prog, targets, extra=None):
        self.prog = prog
        self.targets = targets
        self.extra = extra or {}  # other Programs (bins, tests, release-semantics) in the thorough tier
        self.n_calls = 0
        self.n_local_calls = 0
        self.n_unresolved = 0
        for b in prog.bodies.values():
            for bi, t in b.calls():
                self.n_calls += 1
                if prog.callee_body(t) is not None:
                    self.n_local_calls += 1
                elif t.get("resolved") is None:
                    self.n_unresolved += 1
        self.tree_hash = getattr(prog, "tree_hash", None)

    def all_programs(self):
        yield "lib", self.prog
        for k, p in self.extra.items():
            if isinstance(k, str) and k.startswith("bin:"):
                yield k, p


def shipped_bodies(prog):
    """bodies that ship (not inside #[cfg(test)] modules)"""
    return [b for b in prog.bodies.values() if not b.test and not getattr(b, "spliced", False)]


def where(body, bb):
    t = body.term(bb)
    return short_span(t.get("span")) if t else short_span(body.span)


def fam_name(body):
    """function family name for keys: the root fn, generics stripped, crate-relative"""
    return strip_generics(body.root)


def calls_in(bodies, *names, live_only=True):
    """(body, bb, term) for calls to any of names in the given bodies"""
    out = []
    for b in bodies:
        live = b.live_blocks() if live_only else None
        for bi, t in b.calls():
            if live is not None and bi not in live:
                continue
            if is_call_to(t, *names):
                out.append((b, bi, t))
    return out


def arg_origin(body, t, i):
    if i >= len(t["args"]):
        return ("unknown", "noarg")
    return body.origin_operand(t["args"][i])


def arg_path(body, t, i):
    return access_path(arg_origin(body, t, i))


def reach(body, starts, blocked_edges=lambda e: False, blocked_blocks=()):
    """blocks reachable from starts following edges not blocked"""
    seen = set()
    dq = deque()
    for s in starts:
        if s not in blocked_blocks:
            seen.add(s)
            dq.append(s)
    while dq:
        b = dq.popleft()
        for e in body.succ[b]:
            if blocked_edges(e) or e.dst in blocked_blocks:
                continue
            if e.dst not in seen:
                seen.add(e.dst)
                dq.append(e.dst)
    return seen


def path_to(body, starts, goal_pred, blocked_edges=lambda e: False, blocked_blocks=()):
    """shortest block path from any start to a block satisfying goal_pred, or None"""
    parent = {}
    dq = deque()
    for s in starts:
        if s in blocked_blocks:
            continue
        parent[s] = None
        dq.append(s)
    while dq:
        b = dq.popleft()
        if goal_pred(b):
            path = []
            while b is not None:
                path.append(b)
                b = parent[b]
            return list(reversed(path))
        for e in body.succ[b]:
            if blocked_edges(e) or e.dst in blocked_blocks:
                continue
            if e.dst not in parent:
                parent[e.dst] = b
                dq.append(e.dst)
    return None


def describe_path(body, path, interesting=None):
    """witness lines for a block path: the calls / switches / returns on it"""
    out = []
    for i, bb in enumerate(path):
        t = body.term(bb)
        if not t:
            continue
        k = t["k"]
        nxt = path[i + 1] if i + 1 < len(path) else None
        if k == "call":
            cn = strip_generics(t.get("callee")) or "<indirect>"
            if "macro:" in (t.get("fn_exp") or "") and not (interesting and interesting(bb)):
                continue
            edge = ""
            if nxt is not None and isinstance(t.get("unwind"), int) and nxt == t["unwind"] and nxt != t.get("t"):
                edge = "  ⇒ unwinds (panic inside the callee)"
            out.append("%s: call %s%s" % (where(body, bb), cn, edge))
        elif k == "switch" and nxt is not None:
            info = body.switch_info(bb)
            if info and info["kind"] != "int":
                labs = info["arms"].get(nxt, [])
                out.append("%s: branch on %s → %s" % (where(body, bb), origin_str(info["on"]), "/".join(str(x) for x in labs) or "otherwise"))
        elif k == "return":
            out.append("%s: return" % where(body, bb))
        elif k == "resume":
            out.append("%s: resume unwinding (the function exits by panic)" % where(body, bb))
        elif k == "drop" and interesting and interesting(bb):
            out.append("%s: drop %s" % (where(body, bb), t.get("ty")))
        elif k == "yield" and nxt is not None and nxt == t.get("drop"):
            out.append("%s: await cancelled (future dropped at this suspension point)" % where(body, bb))
    return out


def edge_has_fact(body, e, kind, origin_pred, value_pred):
    for f in body.edge_facts(e):
        if f[0] == kind and origin_pred(f[1]) and value_pred(f[2]):
            return True
    return False


def try_edges(body, call_bb):
    """For a call whose result is consumed by `?` (or a match on Ok/Err / Some/None): the edges that
    mean success and failure. Returns (ok_edges, err_edges, switch_bb) or (None, None, None)."""
    site = (body.path, call_bb)
    for bb in body.live_blocks():
        info = body.switch_info(bb)
        if not info or info["kind"] != "variant":
            continue
        on = info["on"]
        o = peel_var(on)
        via_try = False
        if o[0] == "try":
            via_try = True
            o = peel_var(o[1])
        # allow map_err(...) etc. wrappers: a call whose first arg is our call
        seen = 0
        while o[0] == "call" and o[3] != site and o[2] and seen < 4:
            nm = o[1] or ""
            if nm.split("::")[-1] in ("map_err", "map", "into", "from", "and_then", "or_else"):
                o = peel_var(o[2][0])
                if o[0] == "try":
                    o = peel_var(o[1])
                seen += 1
            else:
                break
        if o[0] == "call" and o[3] == site:
            ok_e, err_e = [], []
            for e in body.succ[bb]:
                labs = info["arms"].get(e.dst, [])
                if any(l in ("Continue", "Ok", "Some") for l in labs):
                    ok_e.append(e)
                elif any(l in ("Break", "Err", "None") for l in labs):
                    err_e.append(e)
            if ok_e or err_e:
                return ok_e, err_e, bb
    return None, None, None


def ret_classes(body, start_bb, blocked_edges=lambda e: False):
    """Walk every path from start_bb to a Return; classify what `_0` holds there by its last
    whole assignment on that path. Returns set of (class, detail_origin, ret_bb) with class in
    ok | err | pass | other | unset. Also follows into `resume` as class 'unwind'."""
    out = set()
    seen = set()
    # locals whose value reaches the return place by plain moves (`_0 = move d; d = move r`): in a
    # body rewritten by rules/inline.py the result of a copied-in helper travels that way, and what
    # it *is* on a path was decided where the first of them was assigned
    A = {0}
    if body.rec.get("transformed"):
        grew = True
        while grew:
            grew = False
            for blk0 in body.blocks:
                for st in blk0["stmts"]:
                    if st["k"] == "assign" and st["pl"]["l"] in A and not st["pl"]["p"] and st["rv"]["k"] == "use" and st["rv"]["op"].get("k") in ("move", "copy") and not st["rv"]["op"]["pl"]["p"]:
                        x = st["rv"]["op"]["pl"]["l"]
                        if x not in A and not (1 <= x <= body.arg_count):
                            A.add(x)
                            grew = True
    dq = deque([(start_bb, None)])
    while dq:
        bb, last = dq.popleft()
        if (bb, last) in seen:
            continue
        seen.add((bb, last))
        blk = body.blocks[bb]
        cur = last
        for si, st in enumerate(blk["stmts"]):
            if st["k"] == "assign" and st["pl"]["l"] in A and not st["pl"]["p"]:
                rv = st["rv"]
                if len(A) > 1 and rv["k"] == "use" and rv["op"].get("k") in ("move", "copy") and not rv["op"]["pl"]["p"] and rv["op"]["pl"]["l"] in A:
                    continue  # a plain hand-over inside the chain
                cur = (bb, si)
        t = blk["term"]
        if t is None:
            continue
        if t["k"] == "call" and t["dest"]["l"] in A and not t["dest"]["p"]:
            cur_after_call = (bb, "T")
        else:
            cur_after_call = cur
        if t["k"] == "return":
            out.add((classify_ret(body, cur), cur, bb))
            continue
        if t["k"] == "resume":
            out.add(("unwind", None, bb))
            continue
        for e in body.succ[bb]:
            if blocked_edges(e):
                continue
            nxt = cur_after_call if e.kind == "ret" else cur
            dq.append((e.dst, nxt))
    return out


def classify_ret(body, d):
    if d is None:
        return "unset"
    bb, si = d
    if si == "T":
        t = body.term(bb)
        if is_call_to(t, "std::ops::FromResidual::from_residual"):
            return "err"
        return "pass"
    st = body.blocks[bb]["stmts"][si]
    o = body.origin_rvalue(st["rv"])
    return classify_result_origin(o)


def classify_result_origin(o):
    o = peel_var(o)
    if o[0] == "agg" and o[1] == "adt":
        if o[2] in ("std::result::Result", "core::result::Result"):
            return "ok" if o[3] == "Ok" else "err"
        if o[2] in ("std::option::Option", "core::option::Option"):
            return "some" if o[3] == "Some" else "none"
        return "other"
    if o[0] == "call":
        return "pass"
    if o[0] == "const":
        return "const"
    return "other"


def ret_origin(body, d):
    if d is None:
        return None
    bb, si = d
    if si == "T":
        return body.origin_call(bb)
    return body.origin_rvalue(body.blocks[bb]["stmts"][si]["rv"])


# ---------------------------------------------------------------------------------------------
# transitive call enumeration


def transitive_calls(prog, root_bodies):
    """every call site in the bodies reachable (crate-local call graph, closures attached to their
    creators) from the given bodies: yields (body, bb, term)"""
    paths = prog.reachable_bodies([b.path for b in root_bodies])
    for p in sorted(paths):
        b = prog.bodies[p]
        for bi, t in b.calls():
            if bi in b.live_blocks():
                yield b, bi, t


def must_call_on_ok_paths(prog, body, pred, depth=0, memo=None):
    """True iff every path from entry to a Return whose value is not an error passes through a call
    satisfying pred (directly, or through a crate-local callee for which the same holds)."""
    memo = memo if memo is not None else {}
    if body.path in memo:
        return memo[body.path]
    memo[body.path] = False  # recursion guard
    hit = set()
    for bi, t in body.calls():
        if bi not in body.live_blocks():
            continue
        if pred(t):
            hit.add(bi)
        else:
            cb = prog.callee_body(t)
            if cb is not None and depth < 8 and must_call_on_ok_paths(prog, cb, pred, depth + 1, memo):
                hit.add(bi)
    # a hit counts when the call returns normally; remove hits and see whether a non-error return is reachable

    def blocked(e):
        return e.kind == "unwind"

    ok = True
    # walk paths avoiding hit blocks' normal-return edge
    seen = set()
    dq = deque([0])
    seen.add(0)
    rets = []
    while dq:
        bb = dq.popleft()
        t = body.term(bb)
        if t and t["k"] == "return":
            rets.append(bb)
            continue
        for e in body.succ[bb]:
            if e.kind == "unwind":
                continue
            if bb in hit and e.kind == "ret":
                continue
            if e.dst not in seen:
                seen.add(e.dst)
                dq.append(e.dst)
    if rets:
        # are those returns all error returns? classify along the restricted graph
        def blocked2(e):
            return e.kind == "unwind" or (e.src in hit and e.kind == "ret")

        classes = ret_classes(body, 0, blocked2)
        for c, d, rb in classes:
            if c in ("err", "unwind"):
                continue
            ok = False
    memo[body.path] = ok
    return ok


def creation_sites(prog, body):
    """(parent body, bb) where the closure / coroutine `body` is created"""
    out = []
    for pb in prog.families.get(body.root, []):
        for pbi, blk in enumerate(pb.blocks):
            if pbi not in pb.live_blocks():
                continue
            for st in blk["stmts"]:
                if st["k"] == "assign" and st["rv"]["k"] == "agg" and st["rv"]["ak"] in ("closure", "coroutine", "coroutine_closure") and st["rv"].get("def") == body.path:
                    out.append((pb, pbi))
    return out


def phi_mentions(body, o, pred, depth=2, _seen=None):
    """origin_mentions that also looks into every definition of a multiply-assigned local (a value
    that is `a` on one path and `b` on another mentions what a or b mention): needed when a helper
    with several returns was inlined, or a `let x; if … { x = a } else { x = b }` was written"""
    found = list(origin_mentions(o, pred))
    if depth <= 0:
        return found
    seen = _seen if _seen is not None else set()
    roots = origin_mentions(o, lambda x: x[0] == "var" and x[3] is None)
    for rv in roots:
        l = rv[1]
        if l in seen:
            continue
        seen.add(l)
        for bi, si, whole in body.defs.get(l, []):
            if not whole or bi not in body.live_blocks():
                continue
            d = body.origin_call(bi) if si == "T" else body.origin_rvalue(body.blocks[bi]["stmts"][si]["rv"])
            found += phi_mentions(body, d, pred, depth - 1, seen)
    return found


def returns_closed_error(body, o):
    """the returned error is Error::Closed — literally, or through the `?` of an (inlined) helper
    whose only error is Closed"""
    if o is None:
        return False
    if "Closed" in origin_str(o):
        return True
    # the residual of a `?`: look at the operand itself (o[2] of a try node), not at its success view
    raws = [x[2] for x in origin_mentions(o, lambda x: x[0] == "try" and len(x) > 2)]
    found = []
    for cand in [o] + raws:
        found += phi_mentions(body, cand, lambda x: x[0] == "agg" and x[1] == "adt" and x[2] in ("std::result::Result", "core::result::Result") and x[3] == "Err", depth=3)
    return bool(found) and all("Closed" in origin_str(x) for x in found)


def bool_switch_comparison(body, bb):
    """For a bool switch: (comparison origin, negated) such that `operand != negated` implies the
    comparison holds. Sees through `!`, through `let ok = a <= b; if ok`, and through a flag that is
    the comparison on one path and the constant `false` on all others
    (`x.map_or(false, |v| v <= limit)` written out, a `match` with a guard assigned to a flag)."""
    info = body.switch_info(bb)
    if not info or info["kind"] != "bool":
        return None, False
    o = peel_var(info["on"])
    neg = False
    while o[0] == "un" and o[1] == "Not":
        o, neg = peel_var(o[2]), not neg
    if o[0] == "bin" and o[1] in ("Le", "Lt", "Ge", "Gt", "Eq", "Ne"):
        return o, neg
    if o[0] == "var" and o[3] is None:
        cmps, consts, other = [], [], 0
        ds = body.defs.get(o[1], [])
        if body.rec.get("transformed"):
            ds = body._dedupe_defs(o[1], ds)
        for bi, si, whole in ds:
            if not whole or bi not in body.live_blocks():
                continue
            d = body.origin_call(bi) if si == "T" else body.origin_rvalue(body.blocks[bi]["stmts"][si]["rv"])
            d = peel_var(d)
            if d[0] == "bin" and d[1] in ("Le", "Lt", "Ge", "Gt", "Eq", "Ne"):
                cmps.append(d)
            elif d[0] == "const" and const_int(d) in (0, 1):
                consts.append(const_int(d))
            else:
                other += 1
        if len(cmps) == 1 and other == 0 and all(c == 0 for c in consts):
            return cmps[0], neg
        if len(cmps) == 1 and other == 0 and consts and all(c == 1 for c in consts):
            # the rejecting form, `x.map_or(true, |v| v > limit)`: the flag being false implies the negated comparison
            c0 = cmps[0]
            return ("bin", {"Gt": "Le", "Ge": "Lt", "Lt": "Ge", "Le": "Gt", "Eq": "Ne", "Ne": "Eq"}[c0[1]], c0[2], c0[3]) + tuple(c0[4:]), not neg
    return None, False


def array_writer_region(prog):
    """where an Array frame is written: (coroutine body, entry block, blocks to stop at). Normally
    Connection::write_array; when that helper was inlined into its only caller, the Array arm of
    write_frame's match on the frame"""
    roots = [r for r in prog.families if strip_generics(r) == "net::connection::Connection::write_array"]
    if roots:
        ab = [x for x in prog.families[roots[0]] if x.coroutine]
        if ab:
            return ab[0], 0, set()
    for x in prog.family("net::connection::Connection::write_frame"):
        if not x.coroutine:
            continue
        for bb in sorted(x.live_blocks()):
            info = x.switch_info(bb)
            if info and info["kind"] == "variant" and "Array" in sum(info["arms"].values(), []) and (access_path(info["on"]) or "").endswith("frame"):
                arr = [e.dst for e in x.succ[bb] if info["arms"].get(e.dst) == ["Array"]]
                oth = [e.dst for e in x.succ[bb] if e.dst not in arr]
                if arr:
                    blocked = lambda e: e.kind in ("unwind", "ydrop")
                    mine = reach(x, arr, blocked_edges=blocked)
                    others = reach(x, oth, blocked_edges=blocked) if oth else set()
                    return x, arr[0], others
    return None, None, None


def resolved_access_path(prog, body, o, depth=0):
    """access path of o with closure captures resolved through the creating bodies: inside
    `move || storage.set(key, value)` the path of `key` is whatever the parent moved in (e.g.
    `self.key`, also after `let Set { key, value } = self;`)"""
    p = access_path(o)
    if p is None or depth > 4 or body.def_kind != "Closure":
        return p
    cs = creation_sites(prog, body)
    if len(cs) != 1:
        return p
    pb, pbb = cs[0]
    for st in pb.blocks[pbb]["stmts"]:
        if st["k"] == "assign" and st["rv"]["k"] == "agg" and st["rv"].get("def") == body.path:
            ao = pb.origin_rvalue(st["rv"])
            best = None
            for fld, fo in ao[4].items():
                n = fld.replace("__", ".")
                if p == n or p.startswith(n + ".") or p.startswith(n + "<"):
                    if best is None or len(n) > len(best[0]):
                        best = (n, fo)
            if best is not None:
                pp = resolved_access_path(prog, pb, best[1], depth + 1)
                if pp is not None:
                    return pp + p[len(best[0]):]
    return p


# ---------------------------------------------------------------------------------------------
# Interprocedural origins: see through crate-local helpers by substituting the helper's returned
# origin (when it has a single non-error return shape) for the call, with parameters replaced by
# the caller's arguments. Keeps rules robust against "extract a helper" refactorings.


# Functions the rules name (effects are attached to calls of these): never inlined by expand().
ANCHOR_FN_SUFFIXES = (
    "log::create", "log::open", "utils::datafile_name", "utils::hintfile_name", "utils::timestamp", "utils::sorted_fileids",
    "LogWriter::new", "LogWriter::append", "LogWriter::sync", "LogReader::new", "LogReader::at", "LogReader::copy_raw", "LogReader::segment",
    "LogDir::new", "LogDir::read", "LogDir::copy", "LogIterator::new", "LogIterator::next",
    "LogStatistics::add_live", "LogStatistics::add_dead", "LogStatistics::overwrite", "LogStatistics::fragmentation",
    "Context::fileids_to_merge", "Context::can_merge", "Writer::write", "Writer::put", "Writer::delete", "Writer::merge",
    "Writer::new_active_datafile", "Writer::sync", "Reader::get", "Handle::get", "Handle::put", "Handle::delete", "Handle::merge", "Handle::sync", "Handle::close",
    "bitcask::rebuild_storage", "bitcask::populate_keydir_with_hintfile", "bitcask::populate_keydir_with_datafile",
    "Frame::check", "Frame::parse", "Frame::check_nested", "Frame::parse_nested", "frame::get_line", "frame::get_integer", "frame::get_byte", "frame::peek_byte", "frame::skip",
    "Connection::read_frame", "Connection::write_frame", "Connection::parse_frame", "Connection::new",
    "Shutdown::new", "Shutdown::recv", "Shutdown::is_shutdown", "Command::apply", "Set::apply", "Get::apply", "Del::apply",
)


def is_anchor_fn(name):
    if any(name == s or name.endswith("::" + s) for s in ANCHOR_FN_SUFFIXES):
        return True
    # every function a rule names stays a call (the same set the CFG inliner respects)
    import inline

    return inline._is_named(name)


def _subst_args(o, amap, depth=0):
    if depth > 60:
        return o
    k = o[0]
    if k == "arg":
        return amap.get(o[1], o)
    if k in ("field", "variant"):
        return (k, _subst_args(o[1], amap, depth + 1), o[2])
    if k in ("index", "discr", "clone", "try", "promoted"):
        return (k, _subst_args(o[1], amap, depth + 1))
    if k == "cast":
        return ("cast", _subst_args(o[1], amap, depth + 1), o[2] if len(o) > 2 else None)
    if k == "var":
        if o[3] is not None:
            return ("var", o[1], o[2], _subst_args(o[3], amap, depth + 1))
        return o
    if k == "call":
        return ("call", o[1], [_subst_args(a, amap, depth + 1) for a in o[2]], o[3])
    if k == "agg":
        return ("agg", o[1], o[2], o[3], {f: _subst_args(v, amap, depth + 1) for f, v in o[4].items()})
    if k == "bin":
        return ("bin", o[1], _subst_args(o[2], amap, depth + 1), _subst_args(o[3], amap, depth + 1))
    if k == "un":
        return ("un", o[1], _subst_args(o[2], amap, depth + 1))
    return o


def helper_return_origin(prog, cb, memo):
    """origin of the value a crate-local helper returns on success, if all its non-error returns
    share one defining statement; the Result/Option wrapper is kept (an ('agg', .., 'Ok', {0: x}))."""
    if cb.path in memo:
        return memo[cb.path]
    memo[cb.path] = None
    if cb.coroutine or cb.def_kind == "Closure":
        return None
    rets = [(c, d) for c, d, rb in ret_classes(cb, 0, lambda e: e.kind == "unwind") if c not in ("err", "unwind")]
    defs = {d for c, d in rets}
    if len(defs) != 1 or None in defs:
        return None
    o = ret_origin(cb, list(defs)[0])
    memo[cb.path] = o
    return o


def expand(prog, o, memo=None, depth=0):
    """rebuild origin o with crate-local helper calls replaced by what they return"""
    memo = memo if memo is not None else {}
    if depth > 12:
        return o
    k = o[0]
    if k == "call":
        args = [expand(prog, a, memo, depth + 1) for a in o[2]]
        site = o[3]
        sb = prog.bodies.get(site[0]) if site else None
        if sb is not None:
            t = sb.term(site[1])
            cb = prog.callee_body(t) if t and t["k"] == "call" else None
            if cb is not None and cb.path != site[0] and not is_anchor_fn(cb.name):
                ro = helper_return_origin(prog, cb, memo.setdefault("__ret__", {}))
                if ro is not None and cb.params:
                    amap = {}
                    for i, pn in enumerate(cb.params):
                        if pn is not None and i < len(args):
                            amap[pn] = args[i]
                    return expand(prog, _subst_args(ro, amap), memo, depth + 1)
        return ("call", o[1], args, o[3])
    if k == "try":
        inner = expand(prog, o[1], memo, depth + 1)
        return ("try", inner)
    if k == "variant":
        base = expand(prog, o[1], memo, depth + 1)
        pb = peel_var(base)
        if pb[0] == "try":
            pb2 = peel_var(pb[1])
            if pb2[0] == "agg" and pb2[3] in ("Ok", "Some") and o[2] == "Continue":
                return ("payload", pb2)
        if pb[0] == "agg" and pb[3] == o[2]:
            return ("payload", pb)
        return ("variant", base, o[2])
    if k == "field":
        base = expand(prog, o[1], memo, depth + 1)
        if base[0] == "payload":
            agg = base[1]
            if o[2] in agg[4]:
                return agg[4][o[2]]
        pb = peel_var(base)
        if pb[0] == "agg" and o[2] in pb[4]:
            return pb[4][o[2]]
        return ("field", base, o[2])
    if k == "var":
        if o[3] is not None:
            return ("var", o[1], o[2], expand(prog, o[3], memo, depth + 1))
        return o
    if k in ("index", "discr", "clone", "promoted"):
        return (k, expand(prog, o[1], memo, depth + 1))
    if k == "cast":
        return ("cast", expand(prog, o[1], memo, depth + 1), o[2] if len(o) > 2 else None)
    if k == "agg":
        return ("agg", o[1], o[2], o[3], {f: expand(prog, v, memo, depth + 1) for f, v in o[4].items()})
    if k == "bin":
        return ("bin", o[1], expand(prog, o[2], memo, depth + 1), expand(prog, o[3], memo, depth + 1))
    if k == "un":
        return ("un", o[1], expand(prog, o[2], memo, depth + 1))
    return o


# ---------------------------------------------------------------------------------------------
# who-may-call through helpers: a site in family F counts as being "in" an allowed family when F is
# a crate-local function all of whose callers (transitively, bounded) are allowed families.


def caller_families(prog, root_path):
    out = set()
    fam_bodies = {b.path for b in prog.families.get(root_path, [])}
    for b in prog.bodies.values():
        if b.test:
            continue
        for bi, t in b.calls():
            cb = prog.callee_body(t)
            if cb is not None and cb.path == root_path and b.path not in fam_bodies:
                out.add(strip_generics(b.root))
    # calls that rules/inline.py replaced by the callee's blocks are still calls
    for path, callees in getattr(prog, "inlined", []):
        if root_path in callees:
            b = prog.bodies.get(path)
            if b is not None and not b.test and b.path not in fam_bodies:
                out.add(strip_generics(b.root))
    return out


def in_allowed_family(prog, body, allowed, depth=0, seen=None):
    """allowed: set of generic-stripped family names"""
    f = strip_generics(body.root)
    if f in allowed:
        return True
    if depth >= 3:
        return False
    seen = seen or set()
    if f in seen:
        return False
    seen = seen | {f}
    root = prog.bodies.get(body.root)
    if root is None or root.def_kind not in ("Fn", "AssocFn"):
        return False
    if prog.fnsigs.get(body.root, {}).get("exported", True):
        return False  # reachable from outside the crate: its callers cannot be enumerated
    callers = caller_families(prog, body.root)
    if not callers:
        return False
    for c in callers:
        roots = [r for r in prog.families if strip_generics(r) == c]
        if not roots:
            return False
        cb = prog.bodies.get(roots[0])
        if cb is None or not in_allowed_family(prog, cb, allowed, depth + 1, seen):
            return False
    return True

"""E4 — positive controls: the zero-count rules are run, with the same code, on /verif/controls (a
std-only crate of deliberately wrong functions compiled by the same driver). Each control must be
reported and each negative control must not be; otherwise the property's check fails."""
import os

import facts
import k1
import k5
from common import Ctx
from engine import RuleResult
from mir import Program

_CTL = {}


def _ctx():
    if "ctx" not in _CTL:
        d = os.path.join(facts.VERIF, "controls")
        files, hsh, meta = facts.extract(repo=d, target_set="lib", pkg_name="controls")
        f = [x for x in files if os.path.basename(x).startswith("controls")][0]
        p = Program.load(f)
        p.fact_file, p.tree_hash = f, hsh
        _CTL["ctx"] = Ctx(p, ["controls"], {})
    return _CTL["ctx"]


EXPECT = {
    "W1": (k1.w1_file_mutation_api, ["c_w1_set_len", "c_w1_rename", "c_w1_truncating_open", "c_w1_unlink_elsewhere", "c_w1_seek_on_file"], ["n_w1_read_only"]),
    "W4": (k1.w4_no_abort, ["c_w4_exit", "c_w4_abort"], []),
    "R1": (k5.r1_bounded_recursion, ["c_r1_unbounded", "c_r1_mutual_a", "c_r1_mutual_b"], ["n_r1_bounded"]),
    "E1": (k5.e1_no_dropped_result, ["c_e1_dropped", "c_e1_statement"], ["n_e1_propagated"]),
}


def control(rule_id):
    def run(ctx_unused):
        r = RuleResult("CTL-" + rule_id, "positive controls for %s: the rule, run unchanged on controls/src/lib.rs, reports every deliberately wrong function and none of the negative controls" % rule_id, floor=1)
        fn, pos, neg = EXPECT[rule_id]
        old = os.environ.get("VERIF_REPO")
        os.environ["VERIF_REPO"] = os.path.join(facts.VERIF, "controls")
        try:
            res = fn(_ctx())
        finally:
            if old is None:
                os.environ.pop("VERIF_REPO", None)
            else:
                os.environ["VERIF_REPO"] = old
        bad_funcs = {}
        for i in res.instances:
            if not i.ok:
                bad_funcs.setdefault(i.func.split("::")[-1], []).append(i.construct)
        for c in pos:
            r.add("controls::" + c, "control is reported", c in bad_funcs, "controls/src/lib.rs", "reported as: %s" % bad_funcs.get(c, "NOT REPORTED — the rule has gone blind"))
        for c in neg:
            r.add("controls::" + c, "negative control stays silent", c not in bad_funcs, "controls/src/lib.rs", "" if c not in bad_funcs else "reported: %s" % bad_funcs[c])
        return r

    run.__name__ = "ctl_%s" % rule_id.lower()
    return run

"""Rule results, violation keys, known-findings handling, evidence writer, property runner."""
import json
import os
import sys
import time
import traceback

VERIF = os.path.dirname(os.path.dirname(os.path.abspath(__file__)))


class Instance:
    """One anchored construct a rule examined.
    key: rule/function/construct — no line numbers, stable across unrelated edits.
    """

    def __init__(self, rule, func, construct, ok, where="?", detail="", witness=None, unrecognised=False):
        self.rule = rule
        self.func = func
        self.construct = construct
        self.ok = ok
        self.where = where
        self.detail = detail
        self.witness = witness or []
        self.unrecognised = unrecognised

    @property
    def key(self):
        return "%s/%s/%s" % (self.rule, self.func, self.construct)

    def as_dict(self):
        d = {"rule": self.rule, "function": self.func, "construct": self.construct, "verdict": "holds" if self.ok else ("unrecognised-idiom" if self.unrecognised else "VIOLATED"), "where": self.where}
        if self.detail:
            d["detail"] = self.detail
        if self.witness:
            d["witness"] = self.witness
        return d


class RuleResult:
    def __init__(self, rule, decides, floor=1):
        self.rule = rule
        self.decides = decides
        self.floor = floor
        self.instances = []
        self.notes = []
        self.analysed = []  # function families / bodies looked at

    def add(self, func, construct, ok, where="?", detail="", witness=None, unrecognised=False):
        self.instances.append(Instance(self.rule, func, construct, ok, where, detail, witness, unrecognised))
        return ok

    def ok(self, func, construct, where="?", detail=""):
        return self.add(func, construct, True, where, detail)

    def bad(self, func, construct, where="?", detail="", witness=None):
        return self.add(func, construct, False, where, detail, witness)

    def unrec(self, func, construct, where="?", detail=""):
        return self.add(func, construct, False, where, "unrecognised idiom (the rule cannot decide this construct; fail closed): " + detail, None, True)

    def note(self, s):
        self.notes.append(s)


def load_known():
    p = os.path.join(VERIF, "known_findings.json")
    with open(p) as f:
        return json.load(f)


def run_property(pid, spec, tier, prog_loader):
    """spec: dict(title, level_text, rules=[callables(ctx)->RuleResult or list], assumptions, not_decided)
    returns exit code"""
    t0 = time.time()
    seed = int(os.environ.get("VERIF_SEED", "0") or 0)
    evdir = os.environ.get("VERIF_EVIDENCE_DIR") or os.path.join(VERIF, "evidence")
    ev_path = os.path.join(evdir, pid + ".json")
    os.makedirs(os.path.dirname(ev_path), exist_ok=True)
    if os.path.exists(ev_path):
        os.remove(ev_path)
    results = []
    fatal = None
    ctx = None
    try:
        ctx = prog_loader(tier)
        for rule in spec["rules"]:
            try:
                r = rule(ctx)
            except Exception as e:  # fail closed, but per rule: the other rules still report
                if os.environ.get("VERIF_DEBUG"):
                    traceback.print_exc()
                nm = rule.__name__.split("_")[0].upper()
                r = RuleResult(nm, "(rule could not be evaluated)", floor=0)
                r.unrec("<anchors>", "rule evaluation", "?", "%s: %s — an anchored function or construct of this rule is missing or has an unexpected shape" % (type(e).__name__, e))
            if isinstance(r, RuleResult):
                results.append(r)
            else:
                results.extend(r)
    except Exception as e:  # fail closed
        fatal = "%s: %s" % (type(e).__name__, e)
        if os.environ.get("VERIF_DEBUG"):
            traceback.print_exc()
    known = load_known()
    known_keys = {k["key"]: k for k in known.get("known", []) if k.get("property") == pid or pid in k.get("also", [])}
    violations = []
    known_hits = []
    floor_fail = []
    n_inst = 0
    n_ok = 0
    constructs = set()
    for r in results:
        if len(r.instances) < r.floor and all(i.ok for i in r.instances):
            floor_fail.append("%s: %d instance(s) examined, floor is %d — an anchor moved or was renamed; the rule would pass vacuously" % (r.rule, len(r.instances), r.floor))
        for i in r.instances:
            n_inst += 1
            constructs.add(i.key)
            if i.ok:
                n_ok += 1
            elif i.key in known_keys:
                known_hits.append(i)
            else:
                violations.append(i)
    replay_dir = os.path.join(evdir, "replay")
    os.makedirs(replay_dir, exist_ok=True)
    out_lines = []
    for i in known_hits:
        out_lines.append("KNOWN-FINDING: property=%s %s — %s" % (pid, i.key, known_keys[i.key].get("what", i.detail)))
    rc = 0
    vcount = 0
    if fatal:
        rp = os.path.join(replay_dir, "%s-fatal.json" % pid)
        with open(rp, "w") as f:
            json.dump({"property": pid, "fatal": fatal}, f, indent=1)
        out_lines.append("check could not run (fail closed): %s" % fatal)
        out_lines.append("VIOLATION property=%s replay=%s" % (pid, rp))
        rc = 1
        vcount += 1
    for msg in floor_fail:
        rp = os.path.join(replay_dir, "%s-floor.json" % pid)
        with open(rp, "w") as f:
            json.dump({"property": pid, "floor": floor_fail}, f, indent=1)
        out_lines.append("floor: " + msg)
        out_lines.append("VIOLATION property=%s replay=%s" % (pid, rp))
        rc = 1
        vcount += 1
    for n, i in enumerate(violations):
        rp = os.path.join(replay_dir, "%s-%d.json" % (pid, n))
        with open(rp, "w") as f:
            json.dump({"property": pid, "key": i.key, "instance": i.as_dict(), "tree": getattr(ctx, "tree_hash", None) if ctx else None}, f, indent=1)
        out_lines.append("%s: %s [%s] %s" % (i.where, i.key, "unrecognised idiom" if i.unrecognised else "violated", i.detail))
        for w in i.witness[:40]:
            out_lines.append("    " + w)
        out_lines.append("VIOLATION property=%s replay=%s" % (pid, rp))
        rc = 1
        vcount += 1
    wall = time.time() - t0
    # evidence
    samples = []
    for r in results:
        for i in r.instances[:3]:
            samples.append(i.as_dict())
    for i in violations[:5] + known_hits[:5]:
        d = i.as_dict()
        if d not in samples:
            samples.append(d)
    rules_txt = "; ".join("%s — %s" % (r.rule, r.decides) for r in results)
    cov = {
        "explanation": "Static analysis of rustc's type-checked MIR (mir_promoted: after type checking, before borrowck/drop elaboration/coroutine transform) of /repo's current tree. Decides the structural clauses listed under 'rules' on every path of the anchored functions (unwind, `?` error and await-cancellation edges included); it does NOT decide the behavioural statement as a whole — see not_decided. Rules: " + rules_txt,
        "rules": [
            {
                "rule": r.rule,
                "decides": r.decides,
                "instances": len(r.instances),
                "holding": sum(1 for i in r.instances if i.ok),
                "floor": r.floor,
                "notes": r.notes,
                "analysed": r.analysed,
            }
            for r in results
        ],
        "obligations": n_inst,
        "discharged": n_ok,
        "evaluations": n_inst,
        "distinct_nontrivial": len(constructs),
        "rule": "one evaluation = one anchored construct (call site, switch edge, aggregate, drop, loop) examined by one rule over all CFG paths through it; distinct = distinct rule/function/construct keys",
        "samples": samples[:40],
        "not_decided": spec.get("not_decided", ""),
        "known_findings_reported": [i.key for i in known_hits],
        "exhaustive": bool(spec.get("exhaustive", False)),
        "trusted_base": spec.get("trusted_base", ["rustc nightly front end and MIR construction", "driver/ serialisation", "rules/tables (effect labels and library models, each citing the library source)"]),
        "checker_cmd": "./check %s --tier %s" % (pid, tier),
    }
    if ctx is not None:
        cov["bodies_analysed"] = len(ctx.prog.bodies)
        cov["fact_file"] = os.path.basename(getattr(ctx.prog, "fact_file", "?"))
        cov["tree_hash"] = getattr(ctx.prog, "tree_hash", None)
        cov["targets"] = ctx.targets
        cov["call_sites_total"] = ctx.n_calls
        cov["call_sites_resolved_to_crate_bodies"] = ctx.n_local_calls
        cov["calls_unresolved_trait_or_indirect"] = ctx.n_unresolved
        cov["controls"] = getattr(ctx, "controls_report", {}).get(pid, [])
    ev = {
        "property_id": pid,
        "tier": tier,
        "seed": seed,
        "level": "other",
        "coverage": cov,
        "assumptions": spec.get("assumptions", []),
        "wall_s": round(wall, 3),
        "violations": vcount,
    }
    with open(ev_path, "w") as f:
        json.dump(ev, f, indent=1)
    for l in out_lines:
        print(l)
    print("%s %s: %d rule(s), %d instance(s), %d holding, %d known finding(s), %d violation(s) [%.1fs]" % (pid, tier, len(results), n_inst, n_ok, len(known_hits), vcount, wall))
    return rc

"""Fact extraction: runs the bcfacts driver over a source tree with the tree's own manifest and lock
file, caches the fact files by content hash, fails closed when anything is missing."""
import fcntl
import glob
import hashlib
import json
import os
import shutil
import subprocess
import sys
import time

VERIF = os.path.dirname(os.path.dirname(os.path.abspath(__file__)))
CACHE = os.environ.get("VERIF_CACHE", os.path.join(VERIF, ".cache"))
DRIVER_DIR = os.path.join(VERIF, "driver")
DRIVER_BIN = os.path.join(DRIVER_DIR, "target", "debug", "bcfacts")
REPO = os.environ.get("VERIF_REPO", "/repo")

BODY_FLOOR_LIB = 380  # 404 on the pinned tree, 420 after the fixes; a lib with far fewer bodies was not fully analysed


class FactError(Exception):
    pass


def _sysroot():
    return subprocess.check_output(["rustc", "+nightly", "--print", "sysroot"], text=True).strip()


def tree_hash(repo, extra=""):
    h = hashlib.sha256()
    files = []
    for pat in ("src/**/*.rs", "benches/**/*.rs", "tests/**/*.rs", "Cargo.toml", "Cargo.lock", "build.rs", ".cargo/config.toml", "config.toml"):
        files.extend(glob.glob(os.path.join(repo, pat), recursive=True))
    for f in sorted(set(files)):
        h.update(os.path.relpath(f, repo).encode())
        h.update(b"\0")
        with open(f, "rb") as fh:
            h.update(fh.read())
        h.update(b"\0")
    with open(os.path.join(DRIVER_DIR, "src", "main.rs"), "rb") as fh:
        h.update(fh.read())
    h.update(extra.encode())
    return h.hexdigest()[:24]


def ensure_driver():
    src = os.path.join(DRIVER_DIR, "src", "main.rs")
    if os.path.exists(DRIVER_BIN) and os.path.getmtime(DRIVER_BIN) >= os.path.getmtime(src):
        return
    env = dict(os.environ, CARGO_NET_OFFLINE="true")
    r = subprocess.run(["cargo", "build", "--offline"], cwd=DRIVER_DIR, env=env, stdout=subprocess.PIPE, stderr=subprocess.STDOUT, text=True)
    if r.returncode != 0 or not os.path.exists(DRIVER_BIN):
        raise FactError("driver build failed:\n" + r.stdout[-4000:])


TARGET_SETS = {
    # name -> (cargo args, extra RUSTFLAGS, tag)
    "lib": (["--lib"], "", ""),
    "bins": (["--bins"], "", ""),
    "libtest": (["--lib", "--profile", "test"], "", ""),
    "lib-release-overflow": (["--lib"], " -C overflow-checks=off", "-nooverflow"),
}


def extract(repo=None, target_set="lib", force=False, pkg_name="bitcask", target_dir=None):
    """returns the list of fact files for (tree, target set); extracts when not cached"""
    repo = repo or REPO
    ensure_driver()
    cargo_args, extra_flags, tag = TARGET_SETS[target_set]
    hsh = tree_hash(repo, target_set)
    out_dir = os.path.join(CACHE, "facts", hsh)
    os.makedirs(os.path.join(CACHE, "facts"), exist_ok=True)
    lock_path = os.path.join(CACHE, "lock")
    with open(lock_path, "w") as lk:
        fcntl.flock(lk, fcntl.LOCK_EX)
        done = os.path.join(out_dir, "DONE")
        if os.path.exists(done) and not force and os.environ.get("VERIF_NO_CACHE") != "1":
            files = sorted(glob.glob(os.path.join(out_dir, "*.jsonl")))
            if files:
                return files, hsh, {"cached": True, "wall_s": 0.0}
        if os.path.exists(out_dir):
            shutil.rmtree(out_dir)
        os.makedirs(out_dir)
        tdir = target_dir or os.path.join(CACHE, "target")
        # cargo's freshness cache would skip the primary crate (and the driver with it)
        for sub in ("debug", "release"):
            for fp in glob.glob(os.path.join(tdir, sub, ".fingerprint", pkg_name + "-*")):
                shutil.rmtree(fp, ignore_errors=True)
        env = dict(os.environ)
        env.update(
            {
                "LD_LIBRARY_PATH": os.path.join(_sysroot(), "lib") + ":" + env.get("LD_LIBRARY_PATH", ""),
                "CARGO_INCREMENTAL": "0",
                "CARGO_NET_OFFLINE": "true",
                "RUSTFLAGS": "-Zmir-opt-level=0 -Awarnings" + extra_flags,
                "RUSTC_WRAPPER": DRIVER_BIN,
                "BCFACTS_OUT": out_dir,
                "BCFACTS_TAG": tag,
                "CARGO_TARGET_DIR": tdir,
            }
        )
        env.pop("RUSTC_WORKSPACE_WRAPPER", None)
        t0 = time.time()
        r = subprocess.run(["cargo", "+nightly", "check", "--offline"] + cargo_args, cwd=repo, env=env, stdout=subprocess.PIPE, stderr=subprocess.STDOUT, text=True)
        wall = time.time() - t0
        if r.returncode != 0:
            shutil.rmtree(out_dir, ignore_errors=True)
            raise FactError("cargo check of %s (%s) failed — the tree does not compile:\n%s" % (repo, target_set, r.stdout[-6000:]))
        files = sorted(glob.glob(os.path.join(out_dir, "*.jsonl")))
        if not files:
            shutil.rmtree(out_dir, ignore_errors=True)
            raise FactError("no fact file was written (driver skipped?)\n" + r.stdout[-3000:])
        with open(done, "w") as f:
            f.write(json.dumps({"tree": hsh, "target_set": target_set, "wall_s": wall}))
        _prune_cache(keep=hsh)
        return files, hsh, {"cached": False, "wall_s": wall}


def _prune_cache(keep, max_entries=None):
    # many trees in flight at once (tools/seed_matrix.py, tools/selftest.py) need room for all of them
    max_entries = max_entries or int(os.environ.get("VERIF_CACHE_MAX", "24"))
    root = os.path.join(CACHE, "facts")
    ents = [os.path.join(root, d) for d in os.listdir(root)]
    ents = [e for e in ents if os.path.isdir(e)]
    ents.sort(key=lambda e: os.path.getmtime(e))
    while len(ents) > max_entries:
        e = ents.pop(0)
        if os.path.basename(e) != keep:
            shutil.rmtree(e, ignore_errors=True)


def load_program(repo=None, target_set="lib", crate="bitcask"):
    from mir import Program

    files, hsh, meta = extract(repo, target_set)
    pick = [f for f in files if os.path.basename(f).startswith(crate + "-") or os.path.basename(f).startswith(crate + ".")]
    if not pick:
        raise FactError("no fact file for crate %s among %s" % (crate, files))
    # lib target: the file whose header says Rlib / not test harness
    progs = []
    for f in pick:
        p = Program.load(f)
        progs.append((f, p))
    libs = [(f, p) for f, p in progs if "Rlib" in p.header.get("crate_types", "") or "Lib" in p.header.get("crate_types", "")]
    f, p = (libs or progs)[0]
    if p.header.get("driver") is None:
        raise FactError("fact file without header: %s" % f)
    if target_set == "lib" and crate == "bitcask" and p.header["bodies"] < BODY_FLOOR_LIB:
        raise FactError("only %d bodies extracted for the lib (floor %d): analysis would be partial" % (p.header["bodies"], BODY_FLOOR_LIB))
    p.fact_file = f
    p.tree_hash = hsh
    p.extract_meta = meta
    if crate == "bitcask" and target_set == "lib" and not os.environ.get("VERIF_NO_INLINE"):
        # procedure-like private helpers are inlined into their callers (rules/inline.py)
        import inline

        inline.apply(p)
    return p


if __name__ == "__main__":
    ts = sys.argv[1] if len(sys.argv) > 1 else "lib"
    files, hsh, meta = extract(target_set=ts, force="--force" in sys.argv)
    print(hsh, meta, files)

"""CFG-level inlining of procedure-like private helpers.

"Extract a helper" is the most common behaviour-preserving refactoring, and the path rules (must
pass, ordering, per-iteration) look at one function's CFG. A helper that *returns data* is seen
through by `common.expand` (interprocedural origins). A helper that is called *for its effects*
(`fn remove_merged_files(&self, ids) -> Result<(), Error>`, `fn count(&self, …)`) is inlined here:
its blocks are copied into the caller (locals and blocks renumbered, parameters bound by alias
assignments, `return` turned into an assignment of the result and a jump to the call's target,
`resume` into a jump to the call's unwind target), so every path rule sees the same paths as
before the refactoring.

What is inlined: a crate-local free function or inherent method that is not exported, not async,
returns `()` or `Result<(), _>`, is not named by any rule (functions the rules anchor on must stay
calls), is not recursive and is small. Callers in `net::frame` and the mmap readers are left alone
(the numeric engine has its own interprocedural treatment).
"""
import copy
import glob
import os
import re

from mir import Body, strip_generics

_NAMED = None
_FMT_OWNERS = set()
_QUOTED = set()
MAX_BLOCKS = 400


def named_in_rules():
    """`Type::method` / `module::function` pairs that occur in the rule sources; owners addressed
    with a formatted method name (`"…::Handle::%s" % m`) and every quoted identifier (the `m`s)"""
    global _NAMED
    if _NAMED is None:
        _NAMED = set()
        here = os.path.dirname(os.path.abspath(__file__))
        for f in glob.glob(os.path.join(here, "*.py")):
            if os.path.basename(f) == "inline.py":
                continue
            txt = open(f).read()
            for m in re.finditer(r"(?:[A-Za-z_][A-Za-z0-9_]*::)+[A-Za-z_][A-Za-z0-9_]*", txt):
                parts = m.group(0).split("::")
                _NAMED.add("::".join(parts[-2:]))
            for m in re.finditer(r"([A-Za-z_][A-Za-z0-9_]*)::%s", txt):
                _FMT_OWNERS.add(m.group(1))
            for m in re.finditer(r"[\"']([a-z_][a-z0-9_]*)[\"']", txt):
                _QUOTED.add(m.group(1))
    return _NAMED


def _is_named(name):
    parts = strip_generics(name).split("::")
    named = named_in_rules()
    if "::".join(parts[-2:]) in named:
        return True
    return len(parts) >= 2 and parts[-2] in _FMT_OWNERS and parts[-1] in _QUOTED


def _procedure_like(sig):
    out = (sig or {}).get("output", "")
    return out == "()" or out.startswith("std::result::Result<(), ") or out.startswith("core::result::Result<(), ")


def inlinable(prog, cb):
    if cb is None or cb.def_kind not in ("Fn", "AssocFn") or cb.test or cb.path.startswith("<"):
        return False
    sig = prog.fnsigs.get(cb.path)
    if sig is None or sig.get("exported") or not _procedure_like(sig):
        return False
    if any(x.coroutine for x in prog.families.get(cb.root, [])):
        return False
    if len(cb.blocks) > MAX_BLOCKS or _is_named(cb.name):
        return False
    return True


def _caller_ok(b):
    if b.test:
        return False
    n = b.name
    if n.startswith("net::frame::") or "LogReader::" in n:
        return False
    return True


def _remap(obj, lmap, poff):
    """deep copy of a statement/terminator with locals renumbered and promoted indices shifted"""
    if isinstance(obj, list):
        return [_remap(x, lmap, poff) for x in obj]
    if not isinstance(obj, dict):
        return obj
    if "l" in obj and "p" in obj and isinstance(obj["l"], int) and isinstance(obj["p"], list):
        p2 = []
        for el in obj["p"]:
            if isinstance(el, list) and el and el[0] == "i" and isinstance(el[1], int):
                p2.append(["i", lmap(el[1])])
            else:
                p2.append(copy.deepcopy(el))
        return {"l": lmap(obj["l"]), "p": p2}
    out = {}
    for k, v in obj.items():
        if k == "l" and obj.get("k") in ("live", "dead") and isinstance(v, int):
            out[k] = lmap(v)
        elif k == "promoted" and isinstance(v, int) and obj.get("k") == "const":
            out[k] = v + poff
        else:
            out[k] = _remap(v, lmap, poff)
    return out


def _shift_term(t, boff, unwind_to):
    """block indices of a copied terminator"""
    k = t["k"]
    sh = lambda x: x + boff if isinstance(x, int) else x
    if k == "goto":
        t["t"] = sh(t["t"])
    elif k == "switch":
        t["targets"] = [[v, sh(bb)] for v, bb in t["targets"]]
        t["otherwise"] = sh(t["otherwise"])
    elif k in ("drop", "assert"):
        t["t"] = sh(t["t"])
        t["unwind"] = sh(t["unwind"])
    elif k == "call":
        t["t"] = sh(t["t"]) if t["t"] is not None else None
        t["unwind"] = sh(t["unwind"])
    elif k == "yield":
        t["resume"] = sh(t["resume"])
        t["drop"] = sh(t["drop"]) if t["drop"] is not None else None
    elif k == "falseedge":
        t["real"] = sh(t["real"])
        t["imag"] = sh(t["imag"])
    elif k == "falseunwind":
        t["real"] = sh(t["real"])
        t["unwind"] = sh(t["unwind"])
    return t


def _succ_idx(t, with_unwind=False):
    k = t["k"] if t else None
    out = []
    if k == "goto":
        out = [t["t"]]
    elif k == "switch":
        out = [bb for v, bb in t["targets"]] + [t["otherwise"]]
    elif k in ("drop", "assert"):
        out = [t["t"]]
    elif k == "call":
        out = [t["t"]] if t["t"] is not None else []
    elif k == "yield":
        out = [t["resume"]]
    elif k in ("falseedge", "falseunwind"):
        out = [t["real"]]
    if with_unwind and t and isinstance(t.get("unwind"), int):
        out.append(t["unwind"])
    return out


def _retarget(t, old, new):
    k = t["k"]
    r = lambda x: new if x == old else x
    if k == "goto":
        t["t"] = r(t["t"])
    elif k == "switch":
        t["targets"] = [[v, r(bb)] for v, bb in t["targets"]]
        t["otherwise"] = r(t["otherwise"])
    elif k in ("drop", "assert", "call"):
        t["t"] = r(t["t"])
    elif k == "yield":
        t["resume"] = r(t["resume"])
    elif k in ("falseedge", "falseunwind"):
        t["real"] = r(t["real"])


def _result_kind_of_block(blk):
    """'Ok' / 'Err' / '?' when the block (re)defines the whole return place, else None"""
    kind = None
    for st in blk["stmts"]:
        if st["k"] == "assign" and st["pl"]["l"] == 0 and not st["pl"]["p"]:
            rv = st["rv"]
            if rv["k"] == "agg" and rv.get("ak") == "adt" and rv.get("adt", "").split("<")[0] in ("std::result::Result", "core::result::Result") and rv.get("variant") in ("Ok", "Err"):
                kind = rv["variant"]
                # Ok(None) / Ok(Some(_)): the payload is an Option literal built in this block
                if kind == "Ok" and rv.get("ops") and rv["ops"][0].get("k") in ("move", "copy") and not rv["ops"][0]["pl"]["p"]:
                    x = rv["ops"][0]["pl"]["l"]
                    for st2 in blk["stmts"]:
                        if st2 is st:
                            break
                        if st2["k"] == "assign" and st2["pl"]["l"] == x and not st2["pl"]["p"]:
                            rv2 = st2["rv"]
                            if rv2["k"] == "agg" and rv2.get("ak") == "adt" and rv2.get("adt", "").split("<")[0] in ("std::option::Option", "core::option::Option") and rv2.get("variant") in ("None", "Some"):
                                kind = "Ok:" + rv2["variant"]
            else:
                kind = "?"
    t = blk["term"]
    if t and t["k"] == "call" and t["dest"]["l"] == 0 and not t["dest"]["p"]:
        kind = "Err" if (t.get("callee") or "").endswith("FromResidual::from_residual") else "?"
    return kind


def split_returns(crec):
    """Give every definition site of the return place its own copy of the (drop/goto) chain that
    leads to `return`, and tag the copied return block with the kind of result it returns. Undoes
    the merge of the Ok and the Err exits, so that `helper()?` in the caller can be threaded."""
    blocks = crec["blocks"]
    sites = {}
    for i, blk in enumerate(blocks):
        if blk["cleanup"]:
            continue
        k = _result_kind_of_block(blk)
        if k is not None:
            sites[i] = k
    if len(sites) < 2:
        for i, blk in enumerate(blocks):
            if blk["term"] and blk["term"]["k"] == "return" and len(sites) == 1:
                blk["term"]["ret_kind"] = list(sites.values())[0]
        return crec
    for a, kind in sorted(sites.items()):
        if kind == "?":
            continue
        # region after the site, up to return, not through another site
        region, stack, okr = [], list(_succ_idx(blocks[a]["term"])), True
        seen = set()
        while stack:
            x = stack.pop()
            if x in seen:
                continue
            seen.add(x)
            if x in sites or blocks[x]["cleanup"] or len(seen) > 60:
                okr = False
                break
            region.append(x)
            stack.extend(_succ_idx(blocks[x]["term"]))
        if not okr or not region:
            continue
        cmap = {}
        for x in region:
            cmap[x] = len(blocks)
            blocks.append(copy.deepcopy(blocks[x]))
        for x in region:
            t = blocks[cmap[x]]["term"]
            if t is None:
                continue
            for y in region:
                _retarget(t, y, cmap[y])
            if t["k"] == "return":
                t["ret_kind"] = kind
        for y in region:
            _retarget(blocks[a]["term"], y, cmap[y])
    return crec


def _thread_target(rec, tgt, dest, kind):
    """block to jump to after an inlined return of known kind: a copy of the call's target block
    (and of the `?` test behind it) whose test of the result is already decided; else tgt"""
    blocks = rec["blocks"]
    T = blocks[tgt]
    want = "0" if kind == "Ok" else "1"

    def discr_local_of(blk, of_local):
        for st in blk["stmts"]:
            if st["k"] == "assign" and st["rv"]["k"] == "discr" and st["rv"]["pl"]["l"] == of_local and not st["rv"]["pl"]["p"] and not st["pl"]["p"]:
                return st["pl"]["l"]
        return None

    def decided(blk, of_local):
        t = blk["term"]
        if not t or t["k"] != "switch" or t["op"].get("k") not in ("copy", "move"):
            return None
        dl = discr_local_of(blk, of_local)
        if dl is None or t["op"]["pl"]["l"] != dl or t["op"]["pl"]["p"]:
            return None
        arm = [bb for v, bb in t["targets"] if v == want]
        return arm[0] if arm else t["otherwise"]

    if dest["p"]:
        return tgt
    # case A: the target block tests the discriminant of the result itself
    arm = decided(T, dest["l"])
    if arm is not None:
        nb = copy.deepcopy(T)
        nb["term"] = {"k": "goto", "t": arm, "span": T["term"].get("span"), "exp": T["term"].get("exp", ""), "threaded": kind}
        blocks.append(nb)
        return len(blocks) - 1
    # case B: `?` — Try::branch(result) and a test of the ControlFlow it returns
    t = T["term"]
    if t and t["k"] == "call" and (t.get("callee") or "").endswith("Try::branch") and t["t"] is not None and not t["dest"]["p"] and t["args"] and t["args"][0].get("k") in ("move", "copy") and t["args"][0]["pl"]["l"] == dest["l"] and not t["args"][0]["pl"]["p"]:
        S = blocks[t["t"]]
        arm = decided(S, t["dest"]["l"])
        if arm is not None:
            ns = copy.deepcopy(S)
            ns["term"] = {"k": "goto", "t": arm, "span": S["term"].get("span"), "exp": S["term"].get("exp", ""), "threaded": kind}
            blocks.append(ns)
            nt = copy.deepcopy(T)
            nt["term"]["t"] = len(blocks) - 1
            blocks.append(nt)
            return len(blocks) - 1
    return tgt


def _async_body(prog, cb):
    """the coroutine body of `async fn` cb when cb is an inlinable async helper, else None"""
    if cb is None or cb.def_kind not in ("Fn", "AssocFn") or cb.test or cb.path.startswith("<") or len(cb.blocks) > 12:
        return None
    sig = prog.fnsigs.get(cb.path)
    if sig is None or sig.get("exported") or _is_named(cb.name):
        return None
    k = prog.bodies.get(cb.path + "::{closure#0}")
    if k is None or not k.coroutine or len(k.blocks) > 600:
        return None
    # the outer body does nothing but build the coroutine
    builds = False
    for blk in cb.blocks:
        for st in blk["stmts"]:
            if st["k"] == "assign" and st["rv"]["k"] == "agg" and st["rv"].get("ak") == "coroutine" and st["rv"].get("def") == k.path:
                builds = True
        if blk["term"] and blk["term"]["k"] == "call":
            return None
    return k if builds else None


def _find_await(blocks, bc):
    """the pieces of `call(..).await` that starts at block bc: (into_future block, awaitee local,
    poll block, switch block, ready arm, yield drop target) or None"""
    t = blocks[bc]["term"]
    if t["t"] is None or t["dest"]["p"]:
        return None
    b1 = t["t"]
    t1 = blocks[b1]["term"]
    if not (t1 and t1["k"] == "call" and (t1.get("callee") or "").endswith("IntoFuture::into_future") and t1["args"] and t1["args"][0].get("pl", {}).get("l") == t["dest"]["l"] and t1["t"] is not None):
        return None
    fut1 = t1["dest"]["l"]
    awaitee = None
    for st in blocks[t1["t"]]["stmts"]:
        if st["k"] == "assign" and not st["pl"]["p"] and st["rv"]["k"] == "use" and st["rv"]["op"].get("k") == "move" and st["rv"]["op"]["pl"]["l"] == fut1 and not st["rv"]["op"]["pl"]["p"]:
            awaitee = st["pl"]["l"]
    if awaitee is None:
        return None
    # forward to the poll
    cur, poll = t1["t"], None
    for _ in range(10):
        tt = blocks[cur]["term"]
        if tt is None:
            return None
        if tt["k"] == "call" and (tt.get("callee") or "").endswith("Future::poll"):
            poll = cur
            break
        nx = _succ_idx(tt)
        if len(nx) != 1:
            return None
        cur = nx[0]
    if poll is None or blocks[poll]["term"]["t"] is None or blocks[poll]["term"]["dest"]["p"]:
        return None
    sw = blocks[poll]["term"]["t"]
    ts = blocks[sw]["term"]
    if not ts or ts["k"] != "switch":
        return None
    ready = [bb for v, bb in ts["targets"] if v == "0"]
    pend = [bb for v, bb in ts["targets"] if v == "1"]
    if not ready or not pend:
        return None
    # the yield of this await and its drop target
    cur, ydrop = pend[0], None
    for _ in range(8):
        tt = blocks[cur]["term"]
        if tt is None:
            break
        if tt["k"] == "yield":
            ydrop = tt["drop"]
            break
        nx = _succ_idx(tt)
        if len(nx) != 1:
            break
        cur = nx[0]
    return {"into": b1, "awaitee": awaitee, "poll": poll, "sw": sw, "ready": ready[0], "ydrop": ydrop}


def _thread_chain(rec, start, P, S, kind):
    """Copy the straight-line chain that starts at block `start` and decide, in the copy, the
    switches whose outcome is known: on the discriminant of a Poll held in a local of P (Ready),
    and — when kind is 'Ok'/'Err' — on the Result (or the ControlFlow `?` makes of it) held in a
    local of S. Returns the first copied block."""
    blocks = rec["blocks"]
    P, S, CF, D = set(P), set(S), set(), {}
    S2 = set()
    cur, first, prev = start, None, None
    main, sub = (kind.split(":") + [None])[:2] if kind else (None, None)
    want = None if main not in ("Ok", "Err") else ("0" if main == "Ok" else "1")
    want2 = {"None": "0", "Some": "1"}.get(sub)
    for _step in range(40):
        nb = copy.deepcopy(blocks[cur])
        idx = len(blocks)
        blocks.append(nb)
        if prev is not None:
            _retarget(blocks[prev]["term"], cur, idx)
        else:
            first = idx
        prev = idx
        for st in nb["stmts"]:
            if st["k"] != "assign" or st["pl"]["p"]:
                continue
            rv = st["rv"]
            if rv["k"] == "use" and rv["op"].get("k") in ("move", "copy"):
                src = rv["op"]["pl"]
                if not src["p"] and src["l"] in S:
                    S.add(st["pl"]["l"])
                elif not src["p"] and src["l"] in S2:
                    S2.add(st["pl"]["l"])
                elif src["l"] in P and len(src["p"]) == 2 and src["p"][0][0] == "dc" and src["p"][0][1] == "Ready":
                    S.add(st["pl"]["l"])
                elif want2 is not None and len(src["p"]) == 2 and src["p"][0][0] == "dc" and ((src["l"] in CF and src["p"][0][1] == "Continue") or (src["l"] in S and src["p"][0][1] == "Ok")):
                    S2.add(st["pl"]["l"])
            elif rv["k"] == "discr" and not rv["pl"]["p"]:
                z = rv["pl"]["l"]
                if z in P:
                    D[st["pl"]["l"]] = ("0", False)
                elif want is not None and (z in S or z in CF):
                    D[st["pl"]["l"]] = (want, want2 is None)
                elif want2 is not None and z in S2:
                    D[st["pl"]["l"]] = (want2, True)
        t = nb["term"]
        if t is None:
            break
        k = t["k"]
        if k == "switch" and t["op"].get("k") in ("move", "copy") and not t["op"]["pl"]["p"] and t["op"]["pl"]["l"] in D:
            v, final = D[t["op"]["pl"]["l"]]
            arm = [bb for vv, bb in t["targets"] if vv == v]
            arm = arm[0] if arm else t["otherwise"]
            nb["term"] = {"k": "goto", "t": arm, "span": t.get("span"), "exp": t.get("exp", ""), "threaded": kind or "Ready"}
            if final or want is None:
                break
            cur = arm
            continue
        if k == "call":
            if want is not None and (t.get("callee") or "").endswith("Try::branch") and t["args"] and t["args"][0].get("k") in ("move", "copy") and not t["args"][0]["pl"]["p"] and t["args"][0]["pl"]["l"] in S and not t["dest"]["p"] and t["t"] is not None:
                CF.add(t["dest"]["l"])
                cur = t["t"]
                continue
            break
        nx = _succ_idx(t)
        if k in ("goto", "drop", "falseedge", "falseunwind", "assert") and len(nx) == 1:
            cur = nx[0]
            continue
        break
    return first


def _inline_await(prog, rec, bc, cb, k, done, stack):
    """splice the coroutine body of the async helper called at block bc into rec (a coroutine)"""
    blocks = rec["blocks"]
    t = blocks[bc]["term"]
    aw = _find_await(blocks, bc)
    if aw is None or len(t["args"]) != len(t.get("params") or []):
        return False
    krec = split_returns(copy.deepcopy(get_inlined(prog, k, done, stack | {rec["path"]})))
    loff = len(rec["locals"])
    boff = len(blocks)
    poff = len(rec.get("promoted", []))
    lmap = lambda l, loff=loff: 2 if l == 2 else l + loff
    for i, lo in enumerate(krec["locals"]):
        lo2 = copy.deepcopy(lo)
        if i == 1:
            lo2["alias"] = True
        lo2["inlined_from"] = krec["path"]
        rec["locals"].append(lo2)
    for d in krec.get("debug", []):
        d2 = copy.deepcopy(d)
        d2["pl"] = _remap(d["pl"], lmap, poff)
        d2["arg"] = None
        if d2["pl"]["l"] != 2:
            rec.setdefault("debug", []).append(d2)
    rec.setdefault("promoted", []).extend(copy.deepcopy(krec.get("promoted", [])))
    pt = blocks[aw["poll"]]["term"]
    pr = pt["dest"]
    unwind_to = pt["unwind"]
    pending = []
    for cblk in krec["blocks"]:
        nb = {"cleanup": cblk["cleanup"], "stmts": [_remap(s, lmap, poff) for s in cblk["stmts"]], "term": None}
        ct = cblk["term"]
        if ct is not None:
            ct2 = _shift_term(_remap(ct, lmap, poff), boff, unwind_to)
            if ct2["k"] == "return":
                nb["stmts"].append({"k": "assign", "pl": copy.deepcopy(pr), "rv": {"k": "agg", "ak": "adt", "adt": "std::task::Poll", "variant": "Ready", "fields": ["0"], "ops": [{"k": "move", "pl": {"l": lmap(0), "p": []}}]}, "span": t.get("span"), "exp": t.get("exp", "")})
                kind = ct2.get("ret_kind")
                ct2 = {"k": "goto", "t": None, "span": ct.get("span"), "exp": ct.get("exp", ""), "inlined_return": krec["path"]}
                pending.append((nb, kind))
            elif ct2["k"] == "resume" and isinstance(unwind_to, int):
                ct2 = {"k": "goto", "t": unwind_to, "span": ct.get("span"), "exp": ct.get("exp", ""), "inlined_resume": krec["path"]}
            elif ct2["k"] == "cordrop" and aw["ydrop"] is not None:
                ct2 = {"k": "goto", "t": aw["ydrop"], "span": ct.get("span"), "exp": ct.get("exp", ""), "inlined_cordrop": krec["path"]}
            nb["term"] = ct2
        blocks.append(nb)
    for nb, kind in pending:
        nb["term"]["t"] = _thread_chain(rec, aw["sw"], {pr["l"]}, set(), kind)
    # the call builds the future from its arguments; the poll enters the body
    names = t.get("params") or []
    blocks[bc]["stmts"].append({"k": "assign", "pl": copy.deepcopy(t["dest"]), "rv": {"k": "agg", "ak": "coroutine", "def": k.path, "fields": list(names), "ops": [copy.deepcopy(a) for a in t["args"]]}, "span": t.get("span"), "exp": t.get("exp", "")})
    blocks[bc]["term"] = {"k": "goto", "t": t["t"], "span": t.get("span"), "exp": t.get("exp", ""), "inlined_call": cb.path}
    pb = blocks[aw["poll"]]
    pb["stmts"].append({"k": "assign", "pl": {"l": lmap(1), "p": []}, "rv": {"k": "use", "op": {"k": "copy", "pl": {"l": aw["awaitee"], "p": []}}}, "span": pt.get("span"), "exp": pt.get("exp", "")})
    pb["term"] = {"k": "goto", "t": boff, "span": pt.get("span"), "exp": pt.get("exp", ""), "inlined_poll": krec["path"]}
    rec.setdefault("inlined", []).append(cb.path)
    return True


def _ctor_of(prog, op):
    """(adt path, variant name) when the operand is the constructor function of a tuple variant"""
    if op.get("k") != "const" or "fn" not in op:
        return None
    parts = op["fn"].split("::")
    adt = prog.adts.get("::".join(parts[:-1]))
    if adt is None:
        return None
    for v in adt.get("variants", []):
        if v["name"] == parts[-1] and len(v.get("fields", [])) == 1:
            return "::".join(parts[:-1]), parts[-1]
    return None


def desugar_combinators(prog, rec):
    """`opt.map_or(default, Enum::Variant)` and `opt.map(Enum::Variant)` written out as the match
    they abbreviate (the library source of Option::map / map_or is exactly that match): the rules
    see the same aggregates and edges as for `match opt { Some(v) => Enum::Variant(v), None => … }`"""
    changed = False
    blocks = rec["blocks"]
    for bi in range(len(blocks)):
        t = blocks[bi]["term"]
        if not t or t["k"] != "call" or t["t"] is None:
            continue
        cn = strip_generics(t.get("callee") or "")
        if cn == "std::option::Option::map_or" and len(t["args"]) == 3:
            x, dflt, f = t["args"]
        elif cn == "std::option::Option::map" and len(t["args"]) == 2:
            x, f = t["args"]
            dflt = None
        else:
            continue
        ctor = _ctor_of(prog, f)
        if ctor is None or x.get("k") not in ("move", "copy") or x["pl"]["p"]:
            continue
        adt, var = ctor
        xl = x["pl"]["l"]
        dl = len(rec["locals"])
        rec["locals"].append({"ty": "isize", "ty_def": None, "user": False})
        sp, ex = t.get("span"), t.get("exp", "")
        n_none, n_some = len(blocks), len(blocks) + 1
        if dflt is not None:
            none_rv = {"k": "use", "op": copy.deepcopy(dflt)}
            some_rv = {"k": "agg", "ak": "adt", "adt": adt, "variant": var, "fields": ["0"], "ops": [{"k": "move", "pl": {"l": xl, "p": [["dc", "Some", 1], ["f", 0, "0"]]}}]}
        else:
            none_rv = {"k": "agg", "ak": "adt", "adt": "std::option::Option", "variant": "None", "fields": [], "ops": []}
            il = len(rec["locals"])
            rec["locals"].append({"ty": adt, "ty_def": None, "user": False})
            some_rv = None
        blocks.append({"cleanup": blocks[bi]["cleanup"], "stmts": [{"k": "assign", "pl": copy.deepcopy(t["dest"]), "rv": none_rv, "span": sp, "exp": ex}], "term": {"k": "goto", "t": t["t"], "span": sp, "exp": ex}})
        if some_rv is not None:
            st_some = [{"k": "assign", "pl": copy.deepcopy(t["dest"]), "rv": some_rv, "span": sp, "exp": ex}]
        else:
            st_some = [
                {"k": "assign", "pl": {"l": il, "p": []}, "rv": {"k": "agg", "ak": "adt", "adt": adt, "variant": var, "fields": ["0"], "ops": [{"k": "move", "pl": {"l": xl, "p": [["dc", "Some", 1], ["f", 0, "0"]]}}]}, "span": sp, "exp": ex},
                {"k": "assign", "pl": copy.deepcopy(t["dest"]), "rv": {"k": "agg", "ak": "adt", "adt": "std::option::Option", "variant": "Some", "fields": ["0"], "ops": [{"k": "move", "pl": {"l": il, "p": []}}]}, "span": sp, "exp": ex},
            ]
        blocks.append({"cleanup": blocks[bi]["cleanup"], "stmts": st_some, "term": {"k": "goto", "t": t["t"], "span": sp, "exp": ex}})
        blocks[bi]["stmts"].append({"k": "assign", "pl": {"l": dl, "p": []}, "rv": {"k": "discr", "pl": {"l": xl, "p": []}, "adt": "std::option::Option", "variants": [["0", "None"], ["1", "Some"]]}, "span": sp, "exp": ex})
        blocks[bi]["term"] = {"k": "switch", "op": {"k": "move", "pl": {"l": dl, "p": []}}, "ty": "isize", "targets": [["0", n_none], ["1", n_some]], "otherwise": n_none, "span": sp, "exp": ex, "desugared": cn}
        changed = True
    return changed


def inline_rec(prog, rec, done, stack):
    """rec with every inlinable call replaced by the callee's (already inlined) blocks"""
    rec = copy.deepcopy(rec)
    changed = desugar_combinators(prog, rec)
    bi = 0
    n_inl = 0
    while bi < len(rec["blocks"]):
        blk = rec["blocks"][bi]
        t = blk["term"]
        bi += 1
        if not t or t["k"] != "call" or n_inl > 40:
            continue
        cb = prog.callee_body(t)
        if cb is not None and rec.get("coroutine") and cb.path not in stack and cb.path != rec["path"]:
            kb = _async_body(prog, cb)
            if kb is not None and kb.path not in stack and kb.path != rec["path"]:
                if _inline_await(prog, rec, bi - 1, cb, kb, done, stack):
                    changed = True
                    n_inl += 1
                continue
        if cb is None or cb.path in stack or cb.path == rec["path"] or not inlinable(prog, cb):
            continue
        crec = split_returns(copy.deepcopy(get_inlined(prog, cb, done, stack | {rec["path"]})))
        if len(t["args"]) != crec["arg_count"]:
            continue
        loff = len(rec["locals"])
        boff = len(rec["blocks"])
        poff = len(rec.get("promoted", []))
        lmap = lambda l, loff=loff: l + loff
        for i, lo in enumerate(crec["locals"]):
            lo2 = copy.deepcopy(lo)
            if 1 <= i <= crec["arg_count"]:
                lo2["alias"] = True
            lo2["inlined_from"] = crec["path"]
            rec["locals"].append(lo2)
        for d in crec.get("debug", []):
            d2 = copy.deepcopy(d)
            d2["pl"] = _remap(d["pl"], lmap, poff)
            d2["arg"] = None
            rec.setdefault("debug", []).append(d2)
        rec.setdefault("promoted", []).extend(copy.deepcopy(crec.get("promoted", [])))
        unwind_to = t["unwind"]
        for cblk in crec["blocks"]:
            nb = {"cleanup": cblk["cleanup"], "stmts": [_remap(s, lmap, poff) for s in cblk["stmts"]], "term": None}
            ct = cblk["term"]
            if ct is not None:
                ct2 = _shift_term(_remap(ct, lmap, poff), boff, unwind_to)
                if ct2["k"] == "return":
                    nb["stmts"].append({"k": "assign", "pl": copy.deepcopy(t["dest"]), "rv": {"k": "use", "op": {"k": "move", "pl": {"l": lmap(0), "p": []}}}, "span": t.get("span"), "exp": t.get("exp", "")})
                    if t["t"] is not None:
                        ct2 = {"k": "goto", "t": ("THREAD", ct2.get("ret_kind")), "span": ct.get("span"), "exp": ct.get("exp", ""), "inlined_return": crec["path"]}
                    else:
                        ct2 = {"k": "unreachable", "span": ct.get("span"), "exp": ct.get("exp", "")}
                elif ct2["k"] == "resume" and isinstance(unwind_to, int):
                    ct2 = {"k": "goto", "t": unwind_to, "span": ct.get("span"), "exp": ct.get("exp", ""), "inlined_resume": crec["path"]}
                nb["term"] = ct2
            rec["blocks"].append(nb)
        # returns of a known kind skip the caller's test of the result (jump threading)
        for nb in rec["blocks"][boff:]:
            tt = nb["term"]
            if tt and tt["k"] == "goto" and isinstance(tt["t"], tuple):
                kind = tt["t"][1]
                if kind in ("Ok", "Err"):
                    tt["t"] = _thread_target(rec, t["t"], t["dest"], kind)
                elif kind and ":" in kind and not t["dest"]["p"]:
                    tt["t"] = _thread_chain(rec, t["t"], set(), {t["dest"]["l"]}, kind)
                else:
                    tt["t"] = t["t"]
        # bind the parameters and jump into the copy
        for i, a in enumerate(t["args"]):
            blk["stmts"].append({"k": "assign", "pl": {"l": lmap(i + 1), "p": []}, "rv": {"k": "use", "op": copy.deepcopy(a)}, "span": t.get("span"), "exp": t.get("exp", "")})
        blk["term"] = {"k": "goto", "t": boff, "span": t.get("span"), "exp": t.get("exp", ""), "inlined_call": crec["path"]}
        rec.setdefault("inlined", []).append(crec["path"])
        changed = True
        n_inl += 1
    return rec if changed else None


def get_inlined(prog, body, done, stack):
    if body.path in done:
        return done[body.path]
    r = inline_rec(prog, body.rec, done, stack) if _caller_ok(body) else None
    done[body.path] = r if r is not None else body.rec
    return done[body.path]


def apply(prog):
    """replace, in place, every body that calls an inlinable helper by its inlined version"""
    orig = dict(prog.bodies)
    done = {}
    replaced = []
    for path, b in orig.items():
        if b.def_kind not in ("Fn", "AssocFn", "Closure"):
            continue
        rec = get_inlined(prog, b, done, frozenset())
        if rec is not b.rec:
            nb = Body(rec, prog)
            prog.bodies[path] = nb
            fam = prog.families[nb.root]
            for i, x in enumerate(fam):
                if x.path == path:
                    fam[i] = nb
            replaced.append((path, rec.get("inlined", [])))
    prog._cg = None
    prog.inlined = replaced
    return replaced

"""CFG-level inlining of procedure-like private helpers.

"Extract a helper" is the most common behaviour-preserving refactoring, and the path rules (must
pass, ordering, per-iteration) look at one function's CFG. A helper that *returns data* is seen
through by `common.expand` (interprocedural origins). A helper that is called *for its effects*
(`fn remove_merged_files(&self, ids) -> Result<(), Error>`, `fn count(&self, …)`) is inlined here:
its blocks are copied into the caller (locals and blocks renumbered, parameters bound by alias
assignments, `return` turned into an assignment of the result and a jump to the call's target,
`resume` into a jump to the call's unwind target), so every path rule sees the same paths as
before the refactoring.

What is inlined: a crate-local free function or inherent method that is not exported, not async,
returns `()` or `Result<(), _>`, is not named by any rule (functions the rules anchor on must stay
calls), is not recursive and is small. Callers in `net::frame` and the mmap readers are left alone
(the numeric engine has its own interprocedural treatment).
"""
import copy
import glob
import os
import re

from mir import Body, strip_generics

_NAMED = None
_FMT_OWNERS = set()
_QUOTED = set()
MAX_BLOCKS = 400


def named_in_rules():
    """`Type::method` / `module::function` pairs that occur in the rule sources; owners addressed
    with a formatted method name (`"…::Handle::%s" % m`) and every quoted identifier (the `m`s)"""
    global _NAMED
    if _NAMED is None:
        _NAMED = set()
        here = os.path.dirname(os.path.abspath(__file__))
        for f in glob.glob(os.path.join(here, "*.py")):
            if os.path.basename(f) == "inline.py":
                continue
            txt = open(f).read()
            for m in re.finditer(r"(?:[A-Za-z_][A-Za-z0-9_]*::)+[A-Za-z_][A-Za-z0-9_]*", txt):
                parts = m.group(0).split("::")
                _NAMED.add("::".join(parts[-2:]))
            for m in re.finditer(r"([A-Za-z_][A-Za-z0-9_]*)::%s", txt):
                _FMT_OWNERS.add(m.group(1))
            for m in re.finditer(r"[\"']([a-z_][a-z0-9_]*)[\"']", txt):
                _QUOTED.add(m.group(1))
    return _NAMED


def _is_named(name):
    parts = strip_generics(name).split("::")
    named = named_in_rules()
    if "::".join(parts[-2:]) in named:
        return True
    return len(parts) >= 2 and parts[-2] in _FMT_OWNERS and parts[-1] in _QUOTED


def _procedure_like(sig):
    out = (sig or {}).get("output", "")
    return out == "()" or out.startswith("std::result::Result<(), ") or out.startswith("core::result::Result<(), ")


def inlinable(prog, cb):
    if cb is None or cb.def_kind not in ("Fn", "AssocFn") or cb.test or cb.path.startswith("<"):
        return False
    sig = prog.fnsigs.get(cb.path)
    if sig is None or sig.get("exported") or not _procedure_like(sig):
        return False
    if any(x.coroutine for x in prog.families.get(cb.root, [])):
        return False
    if len(cb.blocks) > MAX_BLOCKS or _is_named(cb.name):
        return False
    return True


def _caller_ok(b):
    if b.test:
        return False
    n = b.name
    if n.startswith("net::frame::") or "LogReader::" in n:
        return False
    return True


def _remap(obj, lmap, poff):
    """deep copy of a statement/terminator with locals renumbered and promoted indices shifted"""
    if isinstance(obj, list):
        return [_remap(x, lmap, poff) for x in obj]
    if not isinstance(obj, dict):
        return obj
    if "l" in obj and "p" in obj and isinstance(obj["l"], int) and isinstance(obj["p"], list):
        p2 = []
        for el in obj["p"]:
            if isinstance(el, list) and el and el[0] == "i" and isinstance(el[1], int):
                p2.append(["i", lmap(el[1])])
            else:
                p2.append(copy.deepcopy(el))
        return {"l": lmap(obj["l"]), "p": p2}
    out = {}
    for k, v in obj.items():
        if k == "l" and obj.get("k") in ("live", "dead") and isinstance(v, int):
            out[k] = lmap(v)
        elif k == "promoted" and isinstance(v, int) and obj.get("k") == "const":
            out[k] = v + poff
        else:
            out[k] = _remap(v, lmap, poff)
    return out


def _shift_term(t, boff, unwind_to):
    """block indices of a copied terminator"""
    k = t["k"]
    sh = lambda x: x + boff if isinstance(x, int) else x
    if k == "goto":
        t["t"] = sh(t["t"])
    elif k == "switch":
        t["targets"] = [[v, sh(bb)] for v, bb in t["targets"]]
        t["otherwise"] = sh(t["otherwise"])
    elif k in ("drop", "assert"):
        t["t"] = sh(t["t"])
        t["unwind"] = sh(t["unwind"])
    elif k == "call":
        t["t"] = sh(t["t"]) if t["t"] is not None else None
        t["unwind"] = sh(t["unwind"])
    elif k == "yield":
        t["resume"] = sh(t["resume"])
        t["drop"] = sh(t["drop"]) if t["drop"] is not None else None
    elif k == "falseedge":
        t["real"] = sh(t["real"])
        t["imag"] = sh(t["imag"])
    elif k == "falseunwind":
        t["real"] = sh(t["real"])
        t["unwind"] = sh(t["unwind"])
    return t


def _succ_idx(t, with_unwind=False):
    k = t["k"] if t else None
    out = []
    if k == "goto":
        out = [t["t"]]
    elif k == "switch":
        out = [bb for v, bb in t["targets"]] + [t["otherwise"]]
    elif k in ("drop", "assert"):
        out = [t["t"]]
    elif k == "call":
        out = [t["t"]] if t["t"] is not None else []
    elif k == "yield":
        out = [t["resume"]]
    elif k in ("falseedge", "falseunwind"):
        out = [t["real"]]
    if with_unwind and t and isinstance(t.get("unwind"), int):
        out.append(t["unwind"])
    return out


def _retarget(t, old, new):
    k = t["k"]
    r = lambda x: new if x == old else x
    if k == "goto":
        t["t"] = r(t["t"])
    elif k == "switch":
        t["targets"] = [[v, r(bb)] for v, bb in t["targets"]]
        t["otherwise"] = r(t["otherwise"])
    elif k in ("drop", "assert", "call"):
        t["t"] = r(t["t"])
    elif k == "yield":
        t["resume"] = r(t["resume"])
    elif k in ("falseedge", "falseunwind"):
        t["real"] = r(t["real"])


def _result_kind_of_block(blk):
    """'Ok' / 'Err' / '?' when the block (re)defines the whole return place, else None"""
    kind = None
    for st in blk["stmts"]:
        if st["k"] == "assign" and st["pl"]["l"] == 0 and not st["pl"]["p"]:
            rv = st["rv"]
            if rv["k"] == "agg" and rv.get("ak") == "adt" and rv.get("adt", "").split("<")[0] in ("std::result::Result", "core::result::Result") and rv.get("variant") in ("Ok", "Err"):
                kind = rv["variant"]
            else:
                kind = "?"
    t = blk["term"]
    if t and t["k"] == "call" and t["dest"]["l"] == 0 and not t["dest"]["p"]:
        kind = "Err" if (t.get("callee") or "").endswith("FromResidual::from_residual") else "?"
    return kind


def split_returns(crec):
    """Give every definition site of the return place its own copy of the (drop/goto) chain that
    leads to `return`, and tag the copied return block with the kind of result it returns. Undoes
    the merge of the Ok and the Err exits, so that `helper()?` in the caller can be threaded."""
    blocks = crec["blocks"]
    sites = {}
    for i, blk in enumerate(blocks):
        if blk["cleanup"]:
            continue
        k = _result_kind_of_block(blk)
        if k is not None:
            sites[i] = k
    if len(sites) < 2:
        for i, blk in enumerate(blocks):
            if blk["term"] and blk["term"]["k"] == "return" and len(sites) == 1:
                blk["term"]["ret_kind"] = list(sites.values())[0]
        return crec
    for a, kind in sorted(sites.items()):
        if kind == "?":
            continue
        # region after the site, up to return, not through another site
        region, stack, okr = [], list(_succ_idx(blocks[a]["term"])), True
        seen = set()
        while stack:
            x = stack.pop()
            if x in seen:
                continue
            seen.add(x)
            if x in sites or blocks[x]["cleanup"] or len(seen) > 60:
                okr = False
                break
            region.append(x)
            stack.extend(_succ_idx(blocks[x]["term"]))
        if not okr or not region:
            continue
        cmap = {}
        for x in region:
            cmap[x] = len(blocks)
            blocks.append(copy.deepcopy(blocks[x]))
        for x in region:
            t = blocks[cmap[x]]["term"]
            if t is None:
                continue
            for y in region:
                _retarget(t, y, cmap[y])
            if t["k"] == "return":
                t["ret_kind"] = kind
        for y in region:
            _retarget(blocks[a]["term"], y, cmap[y])
    return crec


def _thread_target(rec, tgt, dest, kind):
    """block to jump to after an inlined return of known kind: a copy of the call's target block
    (and of the `?` test behind it) whose test of the result is already decided; else tgt"""
    blocks = rec["blocks"]
    T = blocks[tgt]
    want = "0" if kind == "Ok" else "1"

    def discr_local_of(blk, of_local):
        for st in blk["stmts"]:
            if st["k"] == "assign" and st["rv"]["k"] == "discr" and st["rv"]["pl"]["l"] == of_local and not st["rv"]["pl"]["p"] and not st["pl"]["p"]:
                return st["pl"]["l"]
        return None

    def decided(blk, of_local):
        t = blk["term"]
        if not t or t["k"] != "switch" or t["op"].get("k") not in ("copy", "move"):
            return None
        dl = discr_local_of(blk, of_local)
        if dl is None or t["op"]["pl"]["l"] != dl or t["op"]["pl"]["p"]:
            return None
        arm = [bb for v, bb in t["targets"] if v == want]
        return arm[0] if arm else t["otherwise"]

    if dest["p"]:
        return tgt
    # case A: the target block tests the discriminant of the result itself
    arm = decided(T, dest["l"])
    if arm is not None:
        nb = copy.deepcopy(T)
        nb["term"] = {"k": "goto", "t": arm, "span": T["term"].get("span"), "exp": T["term"].get("exp", ""), "threaded": kind}
        blocks.append(nb)
        return len(blocks) - 1
    # case B: `?` — Try::branch(result) and a test of the ControlFlow it returns
    t = T["term"]
    if t and t["k"] == "call" and (t.get("callee") or "").endswith("Try::branch") and t["t"] is not None and not t["dest"]["p"] and t["args"] and t["args"][0].get("k") in ("move", "copy") and t["args"][0]["pl"]["l"] == dest["l"] and not t["args"][0]["pl"]["p"]:
        S = blocks[t["t"]]
        arm = decided(S, t["dest"]["l"])
        if arm is not None:
            ns = copy.deepcopy(S)
            ns["term"] = {"k": "goto", "t": arm, "span": S["term"].get("span"), "exp": S["term"].get("exp", ""), "threaded": kind}
            blocks.append(ns)
            nt = copy.deepcopy(T)
            nt["term"]["t"] = len(blocks) - 1
            blocks.append(nt)
            return len(blocks) - 1
    return tgt


def inline_rec(prog, rec, done, stack):
    """rec with every inlinable call replaced by the callee's (already inlined) blocks"""
    rec = copy.deepcopy(rec)
    changed = False
    bi = 0
    n_inl = 0
    while bi < len(rec["blocks"]):
        blk = rec["blocks"][bi]
        t = blk["term"]
        bi += 1
        if not t or t["k"] != "call" or n_inl > 40:
            continue
        cb = prog.callee_body(t)
        if cb is None or cb.path in stack or cb.path == rec["path"] or not inlinable(prog, cb):
            continue
        crec = split_returns(copy.deepcopy(get_inlined(prog, cb, done, stack | {rec["path"]})))
        if len(t["args"]) != crec["arg_count"]:
            continue
        loff = len(rec["locals"])
        boff = len(rec["blocks"])
        poff = len(rec.get("promoted", []))
        lmap = lambda l, loff=loff: l + loff
        for i, lo in enumerate(crec["locals"]):
            lo2 = copy.deepcopy(lo)
            if 1 <= i <= crec["arg_count"]:
                lo2["alias"] = True
            lo2["inlined_from"] = crec["path"]
            rec["locals"].append(lo2)
        for d in crec.get("debug", []):
            d2 = copy.deepcopy(d)
            d2["pl"] = _remap(d["pl"], lmap, poff)
            d2["arg"] = None
            rec.setdefault("debug", []).append(d2)
        rec.setdefault("promoted", []).extend(copy.deepcopy(crec.get("promoted", [])))
        unwind_to = t["unwind"]
        for cblk in crec["blocks"]:
            nb = {"cleanup": cblk["cleanup"], "stmts": [_remap(s, lmap, poff) for s in cblk["stmts"]], "term": None}
            ct = cblk["term"]
            if ct is not None:
                ct2 = _shift_term(_remap(ct, lmap, poff), boff, unwind_to)
                if ct2["k"] == "return":
                    nb["stmts"].append({"k": "assign", "pl": copy.deepcopy(t["dest"]), "rv": {"k": "use", "op": {"k": "move", "pl": {"l": lmap(0), "p": []}}}, "span": t.get("span"), "exp": t.get("exp", "")})
                    if t["t"] is not None:
                        ct2 = {"k": "goto", "t": ("THREAD", ct2.get("ret_kind")), "span": ct.get("span"), "exp": ct.get("exp", ""), "inlined_return": crec["path"]}
                    else:
                        ct2 = {"k": "unreachable", "span": ct.get("span"), "exp": ct.get("exp", "")}
                elif ct2["k"] == "resume" and isinstance(unwind_to, int):
                    ct2 = {"k": "goto", "t": unwind_to, "span": ct.get("span"), "exp": ct.get("exp", ""), "inlined_resume": crec["path"]}
                nb["term"] = ct2
            rec["blocks"].append(nb)
        # returns of a known kind skip the caller's test of the result (jump threading)
        for nb in rec["blocks"][boff:]:
            tt = nb["term"]
            if tt and tt["k"] == "goto" and isinstance(tt["t"], tuple):
                kind = tt["t"][1]
                tt["t"] = _thread_target(rec, t["t"], t["dest"], kind) if kind in ("Ok", "Err") else t["t"]
        # bind the parameters and jump into the copy
        for i, a in enumerate(t["args"]):
            blk["stmts"].append({"k": "assign", "pl": {"l": lmap(i + 1), "p": []}, "rv": {"k": "use", "op": copy.deepcopy(a)}, "span": t.get("span"), "exp": t.get("exp", "")})
        blk["term"] = {"k": "goto", "t": boff, "span": t.get("span"), "exp": t.get("exp", ""), "inlined_call": crec["path"]}
        rec.setdefault("inlined", []).append(crec["path"])
        changed = True
        n_inl += 1
    return rec if changed else None


def get_inlined(prog, body, done, stack):
    if body.path in done:
        return done[body.path]
    r = inline_rec(prog, body.rec, done, stack) if _caller_ok(body) else None
    done[body.path] = r if r is not None else body.rec
    return done[body.path]


def apply(prog):
    """replace, in place, every body that calls an inlinable helper by its inlined version"""
    orig = dict(prog.bodies)
    done = {}
    replaced = []
    for path, b in orig.items():
        if b.def_kind not in ("Fn", "AssocFn", "Closure"):
            continue
        rec = get_inlined(prog, b, done, frozenset())
        if rec is not b.rec:
            nb = Body(rec, prog)
            prog.bodies[path] = nb
            fam = prog.families[nb.root]
            for i, x in enumerate(fam):
                if x.path == path:
                    fam[i] = nb
            replaced.append((path, rec.get("inlined", [])))
    prog._cg = None
    prog.inlined = replaced
    return replaced

"""CFG-level inlining of procedure-like private helpers.

"Extract a helper" is the most common behaviour-preserving refactoring, and the path rules (must
pass, ordering, per-iteration) look at one function's CFG. A helper that *returns data* is seen
through by `common.expand` (interprocedural origins). A helper that is called *for its effects*
(`fn remove_merged_files(&self, ids) -> Result<(), Error>`, `fn count(&self, …)`) is inlined here:
its blocks are copied into the caller (locals and blocks renumbered, parameters bound by alias
assignments, `return` turned into an assignment of the result and a jump to the call's target,
`resume` into a jump to the call's unwind target), so every path rule sees the same paths as
before the refactoring.

What is inlined: a crate-local free function or inherent method that is not exported, not async,
returns `()` or `Result<(), _>`, is not named by any rule (functions the rules anchor on must stay
calls), is not recursive and is small. Callers in `net::frame` and the mmap readers are left alone
(the numeric engine has its own interprocedural treatment).
"""
import copy
import glob
import os
import re

from mir import Body, strip_generics

_NAMED = None
_FMT_OWNERS = set()
_QUOTED = set()
MAX_BLOCKS = 400


def named_in_rules():
    """`Type::method` / `module::function` pairs that occur in the rule sources; owners addressed
    with a formatted method name (`"…::Handle::%s" % m`) and every quoted identifier (the `m`s)"""
    global _NAMED
    if _NAMED is None:
        _NAMED = set()
        here = os.path.dirname(os.path.abspath(__file__))
        for f in glob.glob(os.path.join(here, "*.py")):
            if os.path.basename(f) == "inline.py":
                continue
            txt = open(f).read()
            for m in re.finditer(r"(?:[A-Za-z_][A-Za-z0-9_]*::)+[A-Za-z_][A-Za-z0-9_]*", txt):
                parts = m.group(0).split("::")
                _NAMED.add("::".join(parts[-2:]))
            for m in re.finditer(r"([A-Za-z_][A-Za-z0-9_]*)::%s", txt):
                _FMT_OWNERS.add(m.group(1))
            for m in re.finditer(r"[\"']([a-z_][a-z0-9_]*)[\"']", txt):
                _QUOTED.add(m.group(1))
    return _NAMED


_FORCE = set()


def expanded_view(prog, body, force):
    """`body` with the private helpers named in `force` ('Type::method') written out in place too — for a rule
    whose subject may have been split over sibling helpers that it otherwise treats as units of their own"""
    global _FORCE
    from mir import Body
    old = _FORCE
    _FORCE = set(force)
    try:
        rec = inline_rec(prog, body.rec, {}, frozenset())
    finally:
        _FORCE = old
    return Body(rec, prog) if rec is not None else body


def _is_named(name):
    parts = strip_generics(name).split("::")
    if "::".join(parts[-2:]) in _FORCE:
        return False
    named = named_in_rules()
    if "::".join(parts[-2:]) in named:
        return True
    return len(parts) >= 2 and parts[-2] in _FMT_OWNERS and parts[-1] in _QUOTED


def _procedure_like(sig):
    out = (sig or {}).get("output", "")
    return out == "()" or out.startswith("std::result::Result<(), ") or out.startswith("core::result::Result<(), ")


def inlinable(prog, cb):
    if cb is None or cb.def_kind not in ("Fn", "AssocFn") or cb.test or cb.path.startswith("<"):
        return False
    sig = prog.fnsigs.get(cb.path)
    if sig is None or sig.get("exported"):
        return False
    out = sig.get("output", "")
    if out.startswith("impl ") or "dyn " in out:
        return False
    if cb.coroutine:
        return False
    if len(cb.blocks) > MAX_BLOCKS or _is_named(cb.name):
        return False
    return True


def _caller_ok(b):
    return True


def _remap(obj, lmap, poff):
    """deep copy of a statement/terminator with locals renumbered and promoted indices shifted"""
    if isinstance(obj, list):
        return [_remap(x, lmap, poff) for x in obj]
    if not isinstance(obj, dict):
        return obj
    if "l" in obj and "p" in obj and isinstance(obj["l"], int) and isinstance(obj["p"], list):
        p2 = []
        for el in obj["p"]:
            if isinstance(el, list) and el and el[0] == "i" and isinstance(el[1], int):
                p2.append(["i", lmap(el[1])])
            else:
                p2.append(copy.deepcopy(el))
        return {"l": lmap(obj["l"]), "p": p2}
    out = {}
    for k, v in obj.items():
        if k == "l" and obj.get("k") in ("live", "dead") and isinstance(v, int):
            out[k] = lmap(v)
        elif k == "promoted" and isinstance(v, int) and obj.get("k") == "const":
            out[k] = v + poff
        else:
            out[k] = _remap(v, lmap, poff)
    return out


def _shift_term(t, boff, unwind_to):
    """block indices of a copied terminator"""
    k = t["k"]
    sh = lambda x: x + boff if isinstance(x, int) else x
    if k == "goto":
        t["t"] = sh(t["t"])
    elif k == "switch":
        t["targets"] = [[v, sh(bb)] for v, bb in t["targets"]]
        t["otherwise"] = sh(t["otherwise"])
    elif k in ("drop", "assert"):
        t["t"] = sh(t["t"])
        t["unwind"] = sh(t["unwind"])
    elif k == "call":
        t["t"] = sh(t["t"]) if t["t"] is not None else None
        t["unwind"] = sh(t["unwind"])
    elif k == "yield":
        t["resume"] = sh(t["resume"])
        t["drop"] = sh(t["drop"]) if t["drop"] is not None else None
    elif k == "falseedge":
        t["real"] = sh(t["real"])
        t["imag"] = sh(t["imag"])
    elif k == "falseunwind":
        t["real"] = sh(t["real"])
        t["unwind"] = sh(t["unwind"])
    return t


def _succ_idx(t, with_unwind=False):
    k = t["k"] if t else None
    out = []
    if k == "goto":
        out = [t["t"]]
    elif k == "switch":
        out = [bb for v, bb in t["targets"]] + [t["otherwise"]]
    elif k in ("drop", "assert"):
        out = [t["t"]]
    elif k == "call":
        out = [t["t"]] if t["t"] is not None else []
    elif k == "yield":
        out = [t["resume"]]
    elif k in ("falseedge", "falseunwind"):
        out = [t["real"]]
    if with_unwind and t and isinstance(t.get("unwind"), int):
        out.append(t["unwind"])
    return out


def _retarget(t, old, new):
    k = t["k"]
    r = lambda x: new if x == old else x
    if k == "goto":
        t["t"] = r(t["t"])
    elif k == "switch":
        t["targets"] = [[v, r(bb)] for v, bb in t["targets"]]
        t["otherwise"] = r(t["otherwise"])
    elif k in ("drop", "assert", "call"):
        t["t"] = r(t["t"])
    elif k == "yield":
        t["resume"] = r(t["resume"])
    elif k in ("falseedge", "falseunwind"):
        t["real"] = r(t["real"])


def _result_kind_of_block(blk, rec=None):
    """'Ok' / 'Err' / '?' when the block (re)defines the whole return place, else None"""
    kind = None
    for st in blk["stmts"]:
        if st["k"] == "assign" and st["pl"]["l"] == 0 and not st["pl"]["p"]:
            rv = st["rv"]
            if rv["k"] == "agg" and st.get("ret_kind"):
                kind = st["ret_kind"]
            elif rv["k"] == "agg" and rv.get("ak") == "adt" and rv.get("adt", "").split("<")[0] in ("std::result::Result", "core::result::Result") and rv.get("variant") in ("Ok", "Err"):
                kind = rv["variant"]
                # Ok(None) / Ok(Some(_)): the payload is an Option literal built in this block
                if kind == "Ok" and rv.get("ops") and rv["ops"][0].get("k") in ("move", "copy") and not rv["ops"][0]["pl"]["p"]:
                    x = rv["ops"][0]["pl"]["l"]
                    for st2 in blk["stmts"]:
                        if st2 is st:
                            break
                        if st2["k"] == "assign" and st2["pl"]["l"] == x and not st2["pl"]["p"]:
                            rv2 = st2["rv"]
                            if rv2["k"] == "agg" and rv2.get("ak") == "adt" and rv2.get("adt", "").split("<")[0] in ("std::option::Option", "core::option::Option") and rv2.get("variant") in ("None", "Some"):
                                kind = "Ok:" + rv2["variant"]
                    if kind == "Ok" and rec is not None:
                        # … or built once, in an earlier block
                        rv2 = _single_def(rec, x)
                        if rv2 is not None and rv2["k"] == "agg" and rv2.get("ak") == "adt" and rv2.get("adt", "").split("<")[0] in ("std::option::Option", "core::option::Option") and rv2.get("variant") in ("None", "Some"):
                            kind = "Ok:" + rv2["variant"]
            elif rv["k"] == "agg" and rv.get("ak") == "adt" and rv.get("adt", "").split("<")[0] in ("std::option::Option", "core::option::Option") and rv.get("variant") in ("None", "Some"):
                kind = "Opt:" + rv["variant"]
            elif rv["k"] == "use" and st.get("ret_kind"):
                # the result of a helper that was written out here, handed on as this function's own result
                kind = st["ret_kind"]
            else:
                kind = "?"
    t = blk["term"]
    if t and t["k"] == "call" and t["dest"]["l"] == 0 and not t["dest"]["p"]:
        kind = "Err" if (t.get("callee") or "").endswith("FromResidual::from_residual") else "?"
    return kind


def split_returns(crec):
    """Give every definition site of the return place its own copy of the (drop/goto) chain that
    leads to `return`, and tag the copied return block with the kind of result it returns. Undoes
    the merge of the Ok and the Err exits, so that `helper()?` in the caller can be threaded."""
    blocks = crec["blocks"]
    sites = {}
    for i, blk in enumerate(blocks):
        if blk["cleanup"]:
            continue
        k = _result_kind_of_block(blk, crec)
        if k is not None:
            sites[i] = k
    if len(sites) < 2:
        for i, blk in enumerate(blocks):
            if blk["term"] and blk["term"]["k"] == "return" and len(sites) == 1:
                blk["term"]["ret_kind"] = list(sites.values())[0]
        return crec
    for a, kind in sorted(sites.items()):
        if kind == "?":
            continue
        # region after the site, up to return, not through another site
        region, stack, okr = [], list(_succ_idx(blocks[a]["term"])), True
        seen = set()
        while stack:
            x = stack.pop()
            if x in seen:
                continue
            seen.add(x)
            if x in sites or blocks[x]["cleanup"] or len(seen) > 60:
                okr = False
                break
            region.append(x)
            stack.extend(_succ_idx(blocks[x]["term"]))
        if not okr or not region:
            continue
        cmap = {}
        for x in region:
            cmap[x] = len(blocks)
            blocks.append(copy.deepcopy(blocks[x]))
        for x in region:
            t = blocks[cmap[x]]["term"]
            if t is None:
                continue
            for y in region:
                _retarget(t, y, cmap[y])
            if t["k"] == "return":
                t["ret_kind"] = kind
        for y in region:
            _retarget(blocks[a]["term"], y, cmap[y])
    return crec


def _thread_target(rec, tgt, dest, kind):
    """block to jump to after an inlined return of known kind: a copy of the call's target block
    (and of the `?` test behind it) whose test of the result is already decided; else tgt"""
    blocks = rec["blocks"]
    T = blocks[tgt]
    want = "0" if kind == "Ok" else "1"

    def discr_local_of(blk, of_local):
        for st in blk["stmts"]:
            if st["k"] == "assign" and st["rv"]["k"] == "discr" and st["rv"]["pl"]["l"] == of_local and not st["rv"]["pl"]["p"] and not st["pl"]["p"]:
                return st["pl"]["l"]
        return None

    def decided(blk, of_local):
        t = blk["term"]
        if not t or t["k"] != "switch" or t["op"].get("k") not in ("copy", "move"):
            return None
        dl = discr_local_of(blk, of_local)
        if dl is None or t["op"]["pl"]["l"] != dl or t["op"]["pl"]["p"]:
            return None
        arm = [bb for v, bb in t["targets"] if v == want]
        return arm[0] if arm else t["otherwise"]

    if dest["p"]:
        return tgt
    # case A: the target block tests the discriminant of the result itself
    arm = decided(T, dest["l"])
    if arm is not None:
        nb = copy.deepcopy(T)
        nb["term"] = {"k": "goto", "t": arm, "span": T["term"].get("span"), "exp": T["term"].get("exp", ""), "threaded": kind}
        blocks.append(nb)
        return len(blocks) - 1
    # case B: `?` — Try::branch(result) and a test of the ControlFlow it returns
    t = T["term"]
    if t and t["k"] == "call" and (t.get("callee") or "").endswith("Try::branch") and t["t"] is not None and not t["dest"]["p"] and t["args"] and t["args"][0].get("k") in ("move", "copy") and t["args"][0]["pl"]["l"] == dest["l"] and not t["args"][0]["pl"]["p"]:
        S = blocks[t["t"]]
        arm = decided(S, t["dest"]["l"])
        if arm is not None:
            ns = copy.deepcopy(S)
            ns["term"] = {"k": "goto", "t": arm, "span": S["term"].get("span"), "exp": S["term"].get("exp", ""), "threaded": kind}
            blocks.append(ns)
            nt = copy.deepcopy(T)
            nt["term"]["t"] = len(blocks) - 1
            blocks.append(nt)
            return len(blocks) - 1
    return tgt


def _async_body(prog, cb):
    """the coroutine body of `async fn` cb when cb is an inlinable async helper, else None"""
    if cb is None or cb.def_kind not in ("Fn", "AssocFn") or cb.test or cb.path.startswith("<") or len(cb.blocks) > 12:
        return None
    sig = prog.fnsigs.get(cb.path)
    if sig is None or sig.get("exported") or _is_named(cb.name):
        return None
    k = prog.bodies.get(cb.path + "::{closure#0}")
    if k is None or not k.coroutine or len(k.blocks) > 600:
        return None
    # the outer body does nothing but build the coroutine
    builds = False
    for blk in cb.blocks:
        for st in blk["stmts"]:
            if st["k"] == "assign" and st["rv"]["k"] == "agg" and st["rv"].get("ak") == "coroutine" and st["rv"].get("def") == k.path:
                builds = True
        if blk["term"] and blk["term"]["k"] == "call":
            return None
    return k if builds else None


def _find_await(blocks, bc):
    """the pieces of `call(..).await` that starts at block bc: (into_future block, awaitee local,
    poll block, switch block, ready arm, yield drop target) or None"""
    t = blocks[bc]["term"]
    if t["t"] is None or t["dest"]["p"]:
        return None
    b1 = t["t"]
    t1 = blocks[b1]["term"]
    if not (t1 and t1["k"] == "call" and (t1.get("callee") or "").endswith("IntoFuture::into_future") and t1["args"] and t1["args"][0].get("pl", {}).get("l") == t["dest"]["l"] and t1["t"] is not None):
        return None
    fut1 = t1["dest"]["l"]
    awaitee = None
    for st in blocks[t1["t"]]["stmts"]:
        if st["k"] == "assign" and not st["pl"]["p"] and st["rv"]["k"] == "use" and st["rv"]["op"].get("k") == "move" and st["rv"]["op"]["pl"]["l"] == fut1 and not st["rv"]["op"]["pl"]["p"]:
            awaitee = st["pl"]["l"]
    if awaitee is None:
        return None
    # forward to the poll
    cur, poll = t1["t"], None
    for _ in range(10):
        tt = blocks[cur]["term"]
        if tt is None:
            return None
        if tt["k"] == "call" and (tt.get("callee") or "").endswith("Future::poll"):
            poll = cur
            break
        nx = _succ_idx(tt)
        if len(nx) != 1:
            return None
        cur = nx[0]
    if poll is None or blocks[poll]["term"]["t"] is None or blocks[poll]["term"]["dest"]["p"]:
        return None
    sw = blocks[poll]["term"]["t"]
    ts = blocks[sw]["term"]
    if not ts or ts["k"] != "switch":
        return None
    ready = [bb for v, bb in ts["targets"] if v == "0"]
    pend = [bb for v, bb in ts["targets"] if v == "1"]
    if not ready or not pend:
        return None
    # the yield of this await and its drop target
    cur, ydrop = pend[0], None
    for _ in range(8):
        tt = blocks[cur]["term"]
        if tt is None:
            break
        if tt["k"] == "yield":
            ydrop = tt["drop"]
            break
        nx = _succ_idx(tt)
        if len(nx) != 1:
            break
        cur = nx[0]
    return {"into": b1, "awaitee": awaitee, "poll": poll, "sw": sw, "ready": ready[0], "ydrop": ydrop}


def _thread_chain(rec, start, P, S, kind, known=None, max_steps=40, no_calls=False):
    """Copy the straight-line chain that starts at block `start` and decide, in the copy, the
    switches whose outcome is known: on the discriminant of a Poll held in a local of P (Ready),
    and — when kind is 'Ok'/'Err' — on the Result (or the ControlFlow `?` makes of it) held in a
    local of S. Returns the first copied block."""
    blocks = rec["blocks"]
    P, S, CF, D = set(P), set(S), set(), {}
    S2 = set()
    B = dict(known or {})  # local -> "0"/"1": a bool whose value is known on this path
    PB = {}  # local holding Poll::Ready(<known bool>) -> value
    cur, first, prev = start, None, None
    main, sub = (kind.split(":") + [None])[:2] if kind else (None, None)
    want = None if main not in ("Ok", "Err") else ("0" if main == "Ok" else "1")
    want2 = {"None": "0", "Some": "1"}.get(sub)
    if main == "Opt":
        # the helper returned an Option literal: the local itself is the decided Option
        S2, S = set(S), set()
    decided_any = False
    for _step in range(max_steps):
        nb = copy.deepcopy(blocks[cur])
        idx = len(blocks)
        blocks.append(nb)
        if prev is not None:
            _retarget(blocks[prev]["term"], cur, idx)
        else:
            first = idx
        prev = idx
        for st in nb["stmts"]:
            if st["k"] != "assign" or st["pl"]["p"]:
                continue
            rv = st["rv"]
            tl = st["pl"]["l"]
            if rv["k"] == "use" and rv["op"].get("k") in ("move", "copy") and not rv["op"]["pl"]["p"] and rv["op"]["pl"]["l"] in B:
                B[tl] = B[rv["op"]["pl"]["l"]]
                continue
            if rv["k"] == "un" and rv.get("op") == "Not" and rv["a"].get("k") in ("move", "copy") and not rv["a"]["pl"]["p"] and rv["a"]["pl"]["l"] in B:
                B[tl] = "1" if B[rv["a"]["pl"]["l"]] == "0" else "0"
                continue
            if rv["k"] == "use" and rv["op"].get("k") == "const" and rv["op"].get("ty") == "bool" and rv["op"].get("int") in ("0", "1"):
                B[tl] = rv["op"]["int"]
                continue
            if rv["k"] == "agg" and rv.get("ak") == "adt" and rv.get("adt", "").split("<")[0] == "std::task::Poll" and rv.get("variant") == "Ready" and rv.get("ops") and rv["ops"][0].get("k") in ("move", "copy") and not rv["ops"][0]["pl"]["p"] and rv["ops"][0]["pl"]["l"] in B:
                PB[tl] = B[rv["ops"][0]["pl"]["l"]]
                continue
            if rv["k"] == "use" and rv["op"].get("k") in ("move", "copy") and rv["op"]["pl"]["l"] in PB and len(rv["op"]["pl"]["p"]) == 2 and rv["op"]["pl"]["p"][0][0] == "dc" and rv["op"]["pl"]["p"][0][1] == "Ready":
                B[tl] = PB[rv["op"]["pl"]["l"]]
                continue
            B.pop(tl, None)
            PB.pop(tl, None)
            if want == "0" and want2 is not None and rv["k"] == "agg" and rv.get("ak") == "adt" and rv.get("adt", "").split("<")[0] in ("std::result::Result", "core::result::Result") and rv.get("variant") == "Ok" and len(rv.get("ops") or []) == 1 and rv["ops"][0].get("k") in ("move", "copy") and not rv["ops"][0]["pl"]["p"] and rv["ops"][0]["pl"]["l"] in S2:
                # the known Option wrapped again (`Ok(cmd)`): the same kind of result in a new place
                S.add(tl)
                if tl == 0:
                    st["ret_kind"] = kind
                continue
            if rv["k"] == "use" and rv["op"].get("k") in ("move", "copy"):
                src = rv["op"]["pl"]
                if not src["p"] and src["l"] in S:
                    S.add(st["pl"]["l"])
                    if st["pl"]["l"] == 0 and kind and main != "Opt":
                        st["ret_kind"] = kind
                elif not src["p"] and src["l"] in S2:
                    S2.add(st["pl"]["l"])
                elif src["l"] in P and len(src["p"]) == 2 and src["p"][0][0] == "dc" and src["p"][0][1] == "Ready":
                    S.add(st["pl"]["l"])
                    if st["pl"]["l"] == 0 and kind:
                        # the awaited helper's result is this function's own result
                        st["ret_kind"] = kind
                elif want2 is not None and len(src["p"]) == 2 and src["p"][0][0] == "dc" and ((src["l"] in CF and src["p"][0][1] == "Continue") or (src["l"] in S and src["p"][0][1] == "Ok")):
                    S2.add(st["pl"]["l"])
            elif rv["k"] == "discr" and not rv["pl"]["p"]:
                z = rv["pl"]["l"]
                if z in PB:
                    D[st["pl"]["l"]] = ("0", False)
                elif z in P:
                    D[st["pl"]["l"]] = ("0", False)
                elif want is not None and (z in S or z in CF):
                    D[st["pl"]["l"]] = (want, want2 is None)
                elif want2 is not None and z in S2:
                    D[st["pl"]["l"]] = (want2, True)
        t = nb["term"]
        if t is None:
            break
        k = t["k"]
        if k == "switch" and t["op"].get("k") in ("move", "copy") and not t["op"]["pl"]["p"] and t["op"]["pl"]["l"] in B and t.get("ty") == "bool":
            v = B[t["op"]["pl"]["l"]]
            arm = [bb for vv, bb in t["targets"] if vv == v]
            arm = arm[0] if arm else t["otherwise"]
            nb["term"] = {"k": "goto", "t": arm, "span": t.get("span"), "exp": t.get("exp", ""), "threaded": "flag"}
            decided_any = True
            if kind is None:
                break
            cur = arm
            continue
        if k == "switch" and t["op"].get("k") in ("move", "copy") and not t["op"]["pl"]["p"] and t["op"]["pl"]["l"] in D:
            v, final = D[t["op"]["pl"]["l"]]
            arm = [bb for vv, bb in t["targets"] if vv == v]
            arm = arm[0] if arm else t["otherwise"]
            nb["term"] = {"k": "goto", "t": arm, "span": t.get("span"), "exp": t.get("exp", ""), "threaded": kind or "Ready"}
            decided_any = True
            if want is None:
                break
            if final:
                # an Err keeps travelling: `?` re-wraps it and the caller tests it again
                if want == "1" and _step < 30:
                    cur = arm
                    continue
                break
            cur = arm
            continue
        if k == "call" and want is not None and t["t"] is not None and not t["dest"]["p"] and t["args"] and t["args"][0].get("k") in ("move", "copy") and not t["args"][0]["pl"]["p"]:
            cal = t.get("callee") or ""
            a0 = t["args"][0]["pl"]["l"]
            # the residual of a decided `?` re-wrapped (`from_residual`), or the output re-wrapped: still that kind
            if (cal.endswith("FromResidual::from_residual") and want == "1") or (cal.endswith("Try::from_output") and want == "0" and a0 in S2 | S):
                S.add(t["dest"]["l"])
                cur = t["t"]
                continue
        if k == "call" and no_calls and not (want is not None and (t.get("callee") or "").endswith("Try::branch")):
            break
        if k == "call":
            if want is not None and (t.get("callee") or "").endswith("Try::branch") and t["args"] and t["args"][0].get("k") in ("move", "copy") and not t["args"][0]["pl"]["p"] and t["args"][0]["pl"]["l"] in S and not t["dest"]["p"] and t["t"] is not None:
                CF.add(t["dest"]["l"])
                cur = t["t"]
                continue
            break
        nx = _succ_idx(t)
        if k in ("goto", "drop", "falseedge", "falseunwind", "assert") and len(nx) == 1:
            cur = nx[0]
            continue
        break
    if known is not None and not decided_any:
        # nothing was decided: drop the useless copies
        del blocks[first:]
        return None
    return first


def thread_const_flags(rec):
    """Classic jump threading for boolean flags: a block that assigns a constant to a bool local
    (`matches!(…)`, the short-circuit arms of `a && b` / `a || b`, `let found = false`) and then
    runs, through a few straight-line blocks without calls, into a switch on that flag jumps to the
    decided arm through its own copy of those blocks. Path rules then see `if matches!(e, Io(x) if
    x.kind() == Eof)` as the nested match it abbreviates."""
    blocks = rec["blocks"]
    changed = False
    n0 = len(blocks)
    for bi in range(n0):
        blk = blocks[bi]
        t = blk["term"]
        if not t or t["k"] not in ("goto", "falseedge") or blk["cleanup"]:
            continue
        known = {}
        for st in blk["stmts"]:
            if st["k"] == "assign" and not st["pl"]["p"]:
                rv = st["rv"]
                if rv["k"] == "use" and rv["op"].get("k") == "const" and rv["op"].get("ty") == "bool" and rv["op"].get("int") in ("0", "1"):
                    known[st["pl"]["l"]] = rv["op"]["int"]
                else:
                    known.pop(st["pl"]["l"], None)
        if not known:
            continue
        nxt = _succ_idx(t)
        if len(nxt) != 1 or nxt[0] >= n0:
            continue
        first = _thread_chain(rec, nxt[0], set(), set(), None, known=known, max_steps=24, no_calls=True)
        if first is not None:
            _retarget(t, nxt[0], first)
            changed = True
    return changed


def thread_known_variants(rec):
    """a block that builds `Some(..)` / `None` / `Ok(..)` / `Err(..)` into a local and runs, through a few
    straight-line blocks without calls, into the test of that local's variant (what a written-out `opt.map(f)`
    followed by a written-out `.transpose()` looks like) jumps to the decided arm through its own copy"""
    blocks = rec["blocks"]
    changed = False
    n0 = len(blocks)
    for bi in range(n0):
        blk = blocks[bi]
        t = blk["term"]
        if not t or t["k"] != "goto" or blk["cleanup"] or not isinstance(t["t"], int) or t["t"] >= n0:
            continue
        last = None
        optlit = {}
        for st in blk["stmts"]:
            if st["k"] != "assign":
                continue
            if not st["pl"]["p"]:
                rv = st["rv"]
                head = rv.get("adt", "").split("<")[0] if rv["k"] == "agg" and rv.get("ak") == "adt" else None
                if head in ("std::option::Option", "core::option::Option") and rv.get("variant") in ("Some", "None"):
                    last = (st["pl"]["l"], "Opt:" + rv["variant"])
                elif head in ("std::result::Result", "core::result::Result") and rv.get("variant") in ("Ok", "Err"):
                    kind_ = rv["variant"]
                    if kind_ == "Ok" and rv.get("ops") and rv["ops"][0].get("k") in ("move", "copy") and not rv["ops"][0]["pl"]["p"] and optlit.get(rv["ops"][0]["pl"]["l"]):
                        kind_ = "Ok:" + optlit[rv["ops"][0]["pl"]["l"]]
                    last = (st["pl"]["l"], kind_)
                elif last and st["pl"]["l"] == last[0]:
                    last = None
                if head in ("std::option::Option", "core::option::Option") and rv.get("variant") in ("Some", "None"):
                    optlit[st["pl"]["l"]] = rv["variant"]
                else:
                    optlit.pop(st["pl"]["l"], None)
            elif last and st["pl"]["l"] == last[0]:
                last = None
        if not last or last[0] == 0:
            continue
        first = _thread_chain(rec, t["t"], set(), {last[0]}, last[1], known={}, max_steps=24, no_calls=True)
        if first is not None:
            _retarget(t, t["t"], first)
            changed = True
    return changed


def _inline_await(prog, rec, bc, cb, k, done, stack):
    """splice the coroutine body of the async helper called at block bc into rec (a coroutine)"""
    blocks = rec["blocks"]
    t = blocks[bc]["term"]
    aw = _find_await(blocks, bc)
    if aw is None or len(t["args"]) != len(t.get("params") or []):
        return False
    krec = split_returns(copy.deepcopy(get_inlined(prog, k, done, stack | {rec["path"]})))
    loff = len(rec["locals"])
    boff = len(blocks)
    poff = len(rec.get("promoted", []))
    lmap = lambda l, loff=loff: 2 if l == 2 else l + loff
    for i, lo in enumerate(krec["locals"]):
        lo2 = copy.deepcopy(lo)
        if i == 1:
            lo2["alias"] = True
        lo2["inlined_from"] = krec["path"]
        rec["locals"].append(lo2)
    for d in krec.get("debug", []):
        d2 = copy.deepcopy(d)
        d2["pl"] = _remap(d["pl"], lmap, poff)
        d2["arg"] = None
        if d2["pl"]["l"] != 2:
            rec.setdefault("debug", []).append(d2)
    rec.setdefault("promoted", []).extend(copy.deepcopy(krec.get("promoted", [])))
    pt = blocks[aw["poll"]]["term"]
    pr = pt["dest"]
    unwind_to = pt["unwind"]
    pending = []
    for cblk in krec["blocks"]:
        nb = {"cleanup": cblk["cleanup"], "stmts": [_remap(s, lmap, poff) for s in cblk["stmts"]], "term": None}
        ct = cblk["term"]
        if ct is not None:
            ct2 = _shift_term(_remap(ct, lmap, poff), boff, unwind_to)
            if ct2["k"] == "return":
                nb["stmts"].append({"k": "assign", "pl": copy.deepcopy(pr), "rv": {"k": "agg", "ak": "adt", "adt": "std::task::Poll", "variant": "Ready", "fields": ["0"], "ops": [{"k": "move", "pl": {"l": lmap(0), "p": []}}]}, "span": t.get("span"), "exp": t.get("exp", "")})
                kind = ct2.get("ret_kind")
                ct2 = {"k": "goto", "t": None, "span": ct.get("span"), "exp": ct.get("exp", ""), "inlined_return": krec["path"]}
                pending.append((nb, kind))
            elif ct2["k"] == "resume" and isinstance(unwind_to, int):
                ct2 = {"k": "goto", "t": unwind_to, "span": ct.get("span"), "exp": ct.get("exp", ""), "inlined_resume": krec["path"]}
            elif ct2["k"] == "cordrop" and aw["ydrop"] is not None:
                ct2 = {"k": "goto", "t": aw["ydrop"], "span": ct.get("span"), "exp": ct.get("exp", ""), "inlined_cordrop": krec["path"]}
            nb["term"] = ct2
        blocks.append(nb)
    for nb, kind in pending:
        nb["term"]["t"] = _thread_chain(rec, aw["sw"], {pr["l"]}, set(), kind)
    # the call builds the future from its arguments; the poll enters the body
    names = t.get("params") or []
    blocks[bc]["stmts"].append({"k": "assign", "pl": copy.deepcopy(t["dest"]), "rv": {"k": "agg", "ak": "coroutine", "def": k.path, "fields": list(names), "ops": [copy.deepcopy(a) for a in t["args"]]}, "span": t.get("span"), "exp": t.get("exp", "")})
    blocks[bc]["term"] = {"k": "goto", "t": t["t"], "span": t.get("span"), "exp": t.get("exp", ""), "inlined_call": cb.path}
    pb = blocks[aw["poll"]]
    pb["stmts"].append({"k": "assign", "pl": {"l": lmap(1), "p": []}, "rv": {"k": "use", "op": {"k": "copy", "pl": {"l": aw["awaitee"], "p": []}}}, "span": pt.get("span"), "exp": pt.get("exp", "")})
    pb["term"] = {"k": "goto", "t": boff, "span": pt.get("span"), "exp": pt.get("exp", ""), "inlined_poll": krec["path"]}
    rec.setdefault("inlined", []).append(cb.path)
    return True


def _ctor_of(prog, op):
    """(adt path, variant name) when the operand is the constructor function of a tuple variant"""
    if op.get("k") != "const" or "fn" not in op:
        return None
    parts = op["fn"].split("::")
    adt = prog.adts.get("::".join(parts[:-1]))
    if adt is None:
        return None
    for v in adt.get("variants", []):
        if v["name"] == parts[-1] and len(v.get("fields", [])) == 1:
            return "::".join(parts[:-1]), parts[-1]
    return None


def _single_def(rec, l):
    found, n = None, 0
    for blk in rec["blocks"]:
        for st in blk["stmts"]:
            if st["k"] == "assign" and st["pl"]["l"] == l and not st["pl"]["p"]:
                n += 1
                found = st["rv"]
        t = blk["term"]
        if t and t["k"] == "call" and t["dest"]["l"] == l and not t["dest"]["p"]:
            n += 1
            found = None
    return found if n == 1 else None


def _closure_def_of(rec, op, hops=0):
    """path of the closure body when the operand is (a copy / a reference / a parameter alias of) a
    local assigned once, from a closure literal"""
    if hops > 8 or op.get("k") not in ("move", "copy"):
        return None
    if op["pl"]["p"] and op["pl"]["p"] != [["d"]]:
        return None
    rv = _single_def(rec, op["pl"]["l"])
    if rv is None:
        return None
    if rv["k"] == "agg" and rv.get("ak") == "closure":
        return rv.get("def")
    if rv["k"] == "use":
        return _closure_def_of(rec, rv["op"], hops + 1)
    if rv["k"] == "ref" and not rv["pl"]["p"]:
        return _closure_def_of(rec, {"k": "copy", "pl": rv["pl"]}, hops + 1)
    return None


def devirtualise_closure_calls(prog, rec):
    """`op(reader)` where `op` is a closure parameter of a helper that was copied into the function
    that wrote the closure literal: the call is the closure's body, copied in place"""
    changed = False
    blocks = rec["blocks"]
    for bi in range(len(blocks)):
        t = blocks[bi]["term"]
        if not t or t["k"] != "call" or t["t"] is None or len(t["args"]) != 2:
            continue
        cn = strip_generics(t.get("callee") or "")
        if cn not in ("std::ops::FnOnce::call_once", "std::ops::FnMut::call_mut", "std::ops::Fn::call"):
            continue
        kdef = _closure_def_of(rec, t["args"][0])
        kb = prog.bodies.get(kdef) if kdef else None
        if kb is None or kb.coroutine or len(kb.blocks) > 300 or kb.path == rec["path"]:
            continue
        tup = t["args"][1]
        if tup.get("k") not in ("move", "copy") or tup["pl"]["p"]:
            continue
        trv = _single_def(rec, tup["pl"]["l"])
        if trv is None or trv["k"] != "agg" or trv.get("ak") != "tuple" or len(trv["ops"]) != kb.arg_count - 1:
            continue
        sp, ex, cl = t.get("span"), t.get("exp", ""), blocks[bi]["cleanup"]
        dest = copy.deepcopy(t["dest"])
        on_ret = lambda l0, dest=dest: [{"k": "assign", "pl": copy.deepcopy(dest), "rv": {"k": "use", "op": {"k": "move", "pl": {"l": l0, "p": []}}}, "span": sp, "exp": ex}]
        entry = _splice_closure(prog, rec, _closure_rec(prog, kb), t["args"][0], [copy.deepcopy(o) for o in trv["ops"]], t["t"], t["unwind"], cl, sp, ex, on_ret)
        blocks[bi]["term"] = {"k": "goto", "t": entry, "span": sp, "exp": ex, "devirtualised": kdef}
        changed = True
    return changed


def _closure_rec(prog, kb, _depth=[0]):
    """the closure's own body with its combinators written out as well (nested closures)"""
    if _depth[0] > 3:
        return copy.deepcopy(kb.rec)
    _depth[0] += 1
    try:
        r = desugar_only(prog, kb.rec)
    finally:
        _depth[0] -= 1
    return r if r is not None else copy.deepcopy(kb.rec)


def _splice_closure(prog, rec, krec, env_op, arg_ops, ret_to, unwind_to, cleanup, span, exp, on_return, thread=None):
    """copy the body of a (non-capturing-by-move-sensitive) closure into rec; returns the entry block.
    env_op: operand holding the closure; arg_ops: operands bound to its parameters; on_return(l0)
    gives the statements to run with the closure's result local before jumping to ret_to"""
    blocks = rec["blocks"]
    krec = split_returns(krec)
    loff = len(rec["locals"])
    poff = len(rec.get("promoted", []))
    lmap = lambda l, loff=loff: l + loff
    for i, lo in enumerate(krec["locals"]):
        lo2 = copy.deepcopy(lo)
        if 1 <= i <= krec["arg_count"]:
            lo2["alias"] = True
        lo2["inlined_from"] = krec["path"]
        rec["locals"].append(lo2)
    for d in krec.get("debug", []):
        d2 = copy.deepcopy(d)
        d2["pl"] = _remap(d["pl"], lmap, poff)
        d2["arg"] = None
        rec.setdefault("debug", []).append(d2)
    rec.setdefault("promoted", []).extend(copy.deepcopy(krec.get("promoted", [])))
    pending = []
    # entry: bind env and parameters
    entry = len(blocks)
    binds = [{"k": "assign", "pl": {"l": lmap(1), "p": []}, "rv": {"k": "use", "op": copy.deepcopy(env_op) if env_op.get("k") != "move" else dict(copy.deepcopy(env_op), k="copy")}, "span": span, "exp": exp}]
    for i, a in enumerate(arg_ops):
        binds.append({"k": "assign", "pl": {"l": lmap(i + 2), "p": []}, "rv": {"k": "use", "op": copy.deepcopy(a)}, "span": span, "exp": exp})
    blocks.append({"cleanup": cleanup, "stmts": binds, "term": {"k": "goto", "t": entry + 1, "span": span, "exp": exp}})
    boff = len(blocks)
    for cblk in krec["blocks"]:
        nb = {"cleanup": cblk["cleanup"] or cleanup, "stmts": [_remap(s2, lmap, poff) for s2 in cblk["stmts"]], "term": None}
        ct = cblk["term"]
        if ct is not None:
            ct2 = _shift_term(_remap(ct, lmap, poff), boff, unwind_to)
            if ct2["k"] == "return":
                nb["stmts"].extend(on_return(lmap(0)))
                kind = ct2.get("ret_kind")
                ct2 = {"k": "goto", "t": ret_to, "span": ct.get("span"), "exp": ct.get("exp", ""), "inlined_return": krec["path"]}
                if thread is not None and kind and kind.split(":")[0] in ("Ok", "Err"):
                    pending.append((nb, kind))
            elif ct2["k"] == "resume" and isinstance(unwind_to, int):
                ct2 = {"k": "goto", "t": unwind_to, "span": ct.get("span"), "exp": ct.get("exp", ""), "inlined_resume": krec["path"]}
            nb["term"] = ct2
        blocks.append(nb)
    for nb, kind in pending:
        nb["term"]["t"] = _thread_chain(rec, ret_to, set(), {thread}, kind)
    rec.setdefault("inlined_closures", []).append(krec["path"])
    return entry


def desugar_combinators(prog, rec):
    """`opt.map_or(default, f)` and `opt.map(f)` written out as the match they abbreviate (the library
    source of Option::map / map_or is exactly that match), for f an enum constructor
    (`Frame::BulkString`) or a closure literal whose body is copied in place: the rules see the same
    aggregates, comparisons and edges as for `match opt { Some(v) => f(v), None => default }`"""
    changed = False
    blocks = rec["blocks"]
    for bi in range(len(blocks)):
        t = blocks[bi]["term"]
        if not t or t["k"] != "call" or t["t"] is None:
            continue
        cn = strip_generics(t.get("callee") or "")
        if cn in ("core::bool::then", "std::bool::then", "core::bool::then_some", "std::bool::then_some") and len(t["args"]) == 2:
            cond, f = t["args"]
            sp, ex, cl = t.get("span"), t.get("exp", ""), blocks[bi]["cleanup"]
            if cond.get("k") not in ("move", "copy"):
                continue
            kb = None
            if cn.endswith("::then"):
                kdef = _closure_def_of(rec, f)
                kb = prog.bodies.get(kdef) if kdef else None
                if kb is None or kb.coroutine or kb.arg_count != 1 or len(kb.blocks) > 200 or kb.path == rec["path"]:
                    continue
            dest = copy.deepcopy(t["dest"])
            n_none = len(blocks)
            blocks.append({"cleanup": cl, "stmts": [{"k": "assign", "pl": copy.deepcopy(dest), "rv": {"k": "agg", "ak": "adt", "adt": "std::option::Option", "variant": "None", "fields": [], "ops": []}, "span": sp, "exp": ex}], "term": {"k": "goto", "t": t["t"], "span": sp, "exp": ex}})
            some_of = lambda op: [{"k": "assign", "pl": copy.deepcopy(dest), "rv": {"k": "agg", "ak": "adt", "adt": "std::option::Option", "variant": "Some", "fields": ["0"], "ops": [op]}, "span": sp, "exp": ex}]
            if kb is None:
                n_some = len(blocks)
                blocks.append({"cleanup": cl, "stmts": some_of(copy.deepcopy(f)), "term": {"k": "goto", "t": t["t"], "span": sp, "exp": ex}})
            else:
                n_some = _splice_closure(prog, rec, _closure_rec(prog, kb), f, [], t["t"], t["unwind"], cl, sp, ex, lambda l0: some_of({"k": "move", "pl": {"l": l0, "p": []}}))
            blocks[bi]["term"] = {"k": "switch", "op": dict(copy.deepcopy(cond), k="copy"), "ty": "bool", "targets": [["0", n_none]], "otherwise": n_some, "span": sp, "exp": ex, "desugared": cn}
            changed = True
            continue
        if cn in ("std::option::Option::ok_or", "std::option::Option::ok_or_else") and len(t["args"]) == 2 and t["args"][0].get("k") in ("move", "copy") and not t["args"][0]["pl"]["p"]:
            # Some(v) => Ok(v), None => Err(e) / Err(f()) (library source of Option::ok_or / ok_or_else)
            x, f = t["args"]
            kb = None
            if cn.endswith("ok_or_else"):
                kdef = _closure_def_of(rec, f)
                kb = prog.bodies.get(kdef) if kdef else None
                if kb is None or kb.coroutine or kb.arg_count != 1 or len(kb.blocks) > 200 or kb.path == rec["path"]:
                    continue
            xl = x["pl"]["l"]
            sp, ex, cl = t.get("span"), t.get("exp", ""), blocks[bi]["cleanup"]
            dest = copy.deepcopy(t["dest"])
            dl = len(rec["locals"])
            rec["locals"].append({"ty": "isize", "ty_def": None, "user": False})
            res_ = lambda var, op: [{"k": "assign", "pl": copy.deepcopy(dest), "rv": {"k": "agg", "ak": "adt", "adt": "std::result::Result", "variant": var, "fields": ["0"], "ops": [op]}, "span": sp, "exp": ex}]
            n_some = len(blocks)
            blocks.append({"cleanup": cl, "stmts": res_("Ok", {"k": "move", "pl": {"l": xl, "p": [["dc", "Some", 1], ["f", 0, "0"]]}}), "term": {"k": "goto", "t": t["t"], "span": sp, "exp": ex}})
            if kb is None:
                n_none = len(blocks)
                blocks.append({"cleanup": cl, "stmts": res_("Err", copy.deepcopy(f)), "term": {"k": "goto", "t": t["t"], "span": sp, "exp": ex}})
            else:
                n_none = _splice_closure(prog, rec, _closure_rec(prog, kb), f, [], t["t"], t["unwind"], cl, sp, ex, lambda l0: res_("Err", {"k": "move", "pl": {"l": l0, "p": []}}))
            blocks[bi]["stmts"].append({"k": "assign", "pl": {"l": dl, "p": []}, "rv": {"k": "discr", "pl": {"l": xl, "p": []}, "adt": "std::option::Option", "variants": [["0", "None"], ["1", "Some"]]}, "span": sp, "exp": ex})
            blocks[bi]["term"] = {"k": "switch", "op": {"k": "move", "pl": {"l": dl, "p": []}}, "ty": "isize", "targets": [["0", n_none], ["1", n_some]], "otherwise": n_none, "span": sp, "exp": ex, "desugared": cn}
            changed = True
            continue
        if cn == "std::option::Option::transpose" and len(t["args"]) == 1 and t["args"][0].get("k") in ("move", "copy") and not t["args"][0]["pl"]["p"]:
            # None => Ok(None), Some(Ok(v)) => Ok(Some(v)), Some(Err(e)) => Err(e) (library source of Option::transpose)
            xl = t["args"][0]["pl"]["l"]
            sp, ex, cl = t.get("span"), t.get("exp", ""), blocks[bi]["cleanup"]
            dest = copy.deepcopy(t["dest"])
            d1, d2, ol, ol2 = len(rec["locals"]), len(rec["locals"]) + 1, len(rec["locals"]) + 2, len(rec["locals"]) + 3
            rec["locals"].extend([{"ty": "isize", "ty_def": None, "user": False}, {"ty": "isize", "ty_def": None, "user": False}, {"ty": "std::option::Option<_>", "ty_def": None, "user": False}, {"ty": "std::option::Option<_>", "ty_def": None, "user": False}])
            inner = [["dc", "Some", 1], ["f", 0, "0"]]
            mk = lambda stmts: {"cleanup": cl, "stmts": stmts, "term": {"k": "goto", "t": t["t"], "span": sp, "exp": ex}}
            asg = lambda pl, rv: {"k": "assign", "pl": pl, "rv": rv, "span": sp, "exp": ex}
            opt = lambda var, ops: {"k": "agg", "ak": "adt", "adt": "std::option::Option", "variant": var, "fields": ["0"] if ops else [], "ops": ops}
            res = lambda var, op: {"k": "agg", "ak": "adt", "adt": "std::result::Result", "variant": var, "fields": ["0"], "ops": [op]}
            n_none = len(blocks)
            blocks.append(mk([asg({"l": ol, "p": []}, opt("None", [])), asg(copy.deepcopy(dest), res("Ok", {"k": "move", "pl": {"l": ol, "p": []}}))]))
            n_ok = len(blocks)
            blocks.append(mk([asg({"l": ol2, "p": []}, opt("Some", [{"k": "move", "pl": {"l": xl, "p": inner + [["dc", "Ok", 0], ["f", 0, "0"]]}}])), asg(copy.deepcopy(dest), res("Ok", {"k": "move", "pl": {"l": ol2, "p": []}}))]))
            n_err = len(blocks)
            blocks.append(mk([asg(copy.deepcopy(dest), res("Err", {"k": "move", "pl": {"l": xl, "p": inner + [["dc", "Err", 1], ["f", 0, "0"]]}}))]))
            n_some = len(blocks)
            blocks.append({"cleanup": cl, "stmts": [asg({"l": d2, "p": []}, {"k": "discr", "pl": {"l": xl, "p": copy.deepcopy(inner)}, "adt": "std::result::Result", "variants": [["0", "Ok"], ["1", "Err"]]})],
                           "term": {"k": "switch", "op": {"k": "move", "pl": {"l": d2, "p": []}}, "ty": "isize", "targets": [["0", n_ok], ["1", n_err]], "otherwise": n_err, "span": sp, "exp": ex, "desugared": cn}})
            blocks[bi]["stmts"].append(asg({"l": d1, "p": []}, {"k": "discr", "pl": {"l": xl, "p": []}, "adt": "std::option::Option", "variants": [["0", "None"], ["1", "Some"]]}))
            blocks[bi]["term"] = {"k": "switch", "op": {"k": "move", "pl": {"l": d1, "p": []}}, "ty": "isize", "targets": [["0", n_none], ["1", n_some]], "otherwise": n_none, "span": sp, "exp": ex, "desugared": cn}
            changed = True
            continue
        if cn in ("std::result::Result::or_else", "std::result::Result::and_then") and len(t["args"]) == 2 and t["args"][0].get("k") in ("move", "copy") and not t["args"][0]["pl"]["p"]:
            # or_else: Ok(v) => Ok(v), Err(e) => f(e); and_then: Ok(v) => f(v), Err(e) => Err(e) (library source)
            x, f = t["args"]
            kdef = _closure_def_of(rec, f)
            kb = prog.bodies.get(kdef) if kdef else None
            if kb is None or kb.coroutine or kb.arg_count != 2 or len(kb.blocks) > 300 or kb.path == rec["path"]:
                continue
            xl = x["pl"]["l"]
            sp, ex, cl = t.get("span"), t.get("exp", ""), blocks[bi]["cleanup"]
            dest = copy.deepcopy(t["dest"])
            dl = len(rec["locals"])
            rec["locals"].append({"ty": "isize", "ty_def": None, "user": False})
            keep_v, call_v, idx = ("Ok", "Err", 1) if cn.endswith("or_else") else ("Err", "Ok", 0)
            kidx = 0 if keep_v == "Ok" else 1
            n_keep = len(blocks)
            blocks.append({"cleanup": cl, "stmts": [{"k": "assign", "pl": copy.deepcopy(dest), "rv": {"k": "agg", "ak": "adt", "adt": "std::result::Result", "variant": keep_v, "fields": ["0"], "ops": [{"k": "move", "pl": {"l": xl, "p": [["dc", keep_v, kidx], ["f", 0, "0"]]}}]}, "span": sp, "exp": ex}], "term": {"k": "goto", "t": t["t"], "span": sp, "exp": ex}})
            n_call = _splice_closure(prog, rec, _closure_rec(prog, kb), f, [{"k": "move", "pl": {"l": xl, "p": [["dc", call_v, idx], ["f", 0, "0"]]}}], t["t"], t["unwind"], cl, sp, ex, lambda l0, dest=dest: [{"k": "assign", "pl": copy.deepcopy(dest), "rv": {"k": "use", "op": {"k": "move", "pl": {"l": l0, "p": []}}}, "span": sp, "exp": ex}])
            n_ok, n_err = (n_keep, n_call) if keep_v == "Ok" else (n_call, n_keep)
            blocks[bi]["stmts"].append({"k": "assign", "pl": {"l": dl, "p": []}, "rv": {"k": "discr", "pl": {"l": xl, "p": []}, "adt": "std::result::Result", "variants": [["0", "Ok"], ["1", "Err"]]}, "span": sp, "exp": ex})
            blocks[bi]["term"] = {"k": "switch", "op": {"k": "move", "pl": {"l": dl, "p": []}}, "ty": "isize", "targets": [["0", n_ok], ["1", n_err]], "otherwise": n_err, "span": sp, "exp": ex, "desugared": cn}
            changed = True
            continue
        if cn == "std::result::Result::map" and len(t["args"]) == 2:
            # Ok(v) => Ok(f(v)), Err(e) => Err(e) (library source of Result::map), f a closure literal
            x, f = t["args"]
            ctor_r = _ctor_of(prog, f)
            kdef = None if ctor_r else _closure_def_of(rec, f)
            kb = prog.bodies.get(kdef) if kdef else None
            if x.get("k") not in ("move", "copy") or x["pl"]["p"]:
                continue
            if ctor_r is None and (kb is None or kb.coroutine or kb.arg_count != 2 or len(kb.blocks) > 200 or kb.path == rec["path"]):
                continue
            xl = x["pl"]["l"]
            sp, ex, cl = t.get("span"), t.get("exp", ""), blocks[bi]["cleanup"]
            dl = len(rec["locals"])
            rec["locals"].append({"ty": "isize", "ty_def": None, "user": False})
            dest = copy.deepcopy(t["dest"])
            n_err = len(blocks)
            blocks.append({"cleanup": cl, "stmts": [{"k": "assign", "pl": copy.deepcopy(dest), "rv": {"k": "agg", "ak": "adt", "adt": "std::result::Result", "variant": "Err", "fields": ["0"], "ops": [{"k": "move", "pl": {"l": xl, "p": [["dc", "Err", 1], ["f", 0, "0"]]}}]}, "span": sp, "exp": ex}], "term": {"k": "goto", "t": t["t"], "span": sp, "exp": ex}})
            on_ret = lambda l0, dest=dest: [{"k": "assign", "pl": copy.deepcopy(dest), "rv": {"k": "agg", "ak": "adt", "adt": "std::result::Result", "variant": "Ok", "fields": ["0"], "ops": [{"k": "move", "pl": {"l": l0, "p": []}}]}, "span": sp, "exp": ex}]
            if ctor_r is not None:
                il = len(rec["locals"])
                rec["locals"].append({"ty": ctor_r[0], "ty_def": None, "user": False})
                n_ok = len(blocks)
                blocks.append({"cleanup": cl, "stmts": [
                    {"k": "assign", "pl": {"l": il, "p": []}, "rv": {"k": "agg", "ak": "adt", "adt": ctor_r[0], "variant": ctor_r[1], "fields": ["0"], "ops": [{"k": "move", "pl": {"l": xl, "p": [["dc", "Ok", 0], ["f", 0, "0"]]}}]}, "span": sp, "exp": ex},
                ] + on_ret(il), "term": {"k": "goto", "t": t["t"], "span": sp, "exp": ex}})
            else:
                n_ok = _splice_closure(prog, rec, _closure_rec(prog, kb), f, [{"k": "move", "pl": {"l": xl, "p": [["dc", "Ok", 0], ["f", 0, "0"]]}}], t["t"], t["unwind"], cl, sp, ex, on_ret)
            blocks[bi]["stmts"].append({"k": "assign", "pl": {"l": dl, "p": []}, "rv": {"k": "discr", "pl": {"l": xl, "p": []}, "adt": "std::result::Result", "variants": [["0", "Ok"], ["1", "Err"]]}, "span": sp, "exp": ex})
            blocks[bi]["term"] = {"k": "switch", "op": {"k": "move", "pl": {"l": dl, "p": []}}, "ty": "isize", "targets": [["0", n_ok], ["1", n_err]], "otherwise": n_err, "span": sp, "exp": ex, "desugared": cn}
            changed = True
            continue
        if cn == "std::option::Option::map_or" and len(t["args"]) == 3:
            x, dflt, f = t["args"]
        elif cn == "std::option::Option::map" and len(t["args"]) == 2:
            x, f = t["args"]
            dflt = None
        else:
            continue
        if x.get("k") not in ("move", "copy") or x["pl"]["p"]:
            continue
        ctor = _ctor_of(prog, f)
        fnitem = f if (ctor is None and f.get("k") == "const" and f.get("fn") and dflt is None) else None
        kdef = None if (ctor or fnitem) else _closure_def_of(rec, f)
        kb = prog.bodies.get(kdef) if kdef else None
        if ctor is None and fnitem is None and (kb is None or kb.coroutine or kb.arg_count != 2 or len(kb.blocks) > 200 or kb.path == rec["path"]):
            continue
        xl = x["pl"]["l"]
        dl = len(rec["locals"])
        rec["locals"].append({"ty": "isize", "ty_def": None, "user": False})
        sp, ex = t.get("span"), t.get("exp", "")
        cl = blocks[bi]["cleanup"]
        payload = {"k": "move", "pl": {"l": xl, "p": [["dc", "Some", 1], ["f", 0, "0"]]}}
        # None side
        n_none = len(blocks)
        none_rv = {"k": "use", "op": copy.deepcopy(dflt)} if dflt is not None else {"k": "agg", "ak": "adt", "adt": "std::option::Option", "variant": "None", "fields": [], "ops": []}
        blocks.append({"cleanup": cl, "stmts": [{"k": "assign", "pl": copy.deepcopy(t["dest"]), "rv": none_rv, "span": sp, "exp": ex}], "term": {"k": "goto", "t": t["t"], "span": sp, "exp": ex}})
        # Some side
        if ctor is not None:
            adt, var = ctor
            built = {"k": "agg", "ak": "adt", "adt": adt, "variant": var, "fields": ["0"], "ops": [payload]}
            if dflt is not None:
                st_some = [{"k": "assign", "pl": copy.deepcopy(t["dest"]), "rv": built, "span": sp, "exp": ex}]
            else:
                il = len(rec["locals"])
                rec["locals"].append({"ty": adt, "ty_def": None, "user": False})
                st_some = [
                    {"k": "assign", "pl": {"l": il, "p": []}, "rv": built, "span": sp, "exp": ex},
                    {"k": "assign", "pl": copy.deepcopy(t["dest"]), "rv": {"k": "agg", "ak": "adt", "adt": "std::option::Option", "variant": "Some", "fields": ["0"], "ops": [{"k": "move", "pl": {"l": il, "p": []}}]}, "span": sp, "exp": ex},
                ]
            n_some = len(blocks)
            blocks.append({"cleanup": cl, "stmts": st_some, "term": {"k": "goto", "t": t["t"], "span": sp, "exp": ex}})
        elif fnitem is not None:
            # Some(v) => Some(function(v)): an ordinary call of the named function
            il = len(rec["locals"])
            rty = (t.get("callee_args") or ["", ""])[1] if len(t.get("callee_args") or []) > 1 else ""
            rec["locals"].append({"ty": rty, "ty_def": None, "user": False})
            n_wrap = len(blocks)
            blocks.append({"cleanup": cl, "stmts": [{"k": "assign", "pl": copy.deepcopy(t["dest"]), "rv": {"k": "agg", "ak": "adt", "adt": "std::option::Option", "variant": "Some", "fields": ["0"], "ops": [{"k": "move", "pl": {"l": il, "p": []}}]}, "span": sp, "exp": ex}], "term": {"k": "goto", "t": t["t"], "span": sp, "exp": ex}})
            ct = _call_term(fnitem["fn"], [payload], {"l": il, "p": []}, n_wrap, t["unwind"], sp, ex, dest_ty=rty)
            ct["resolved"] = fnitem.get("v")
            ct["callee_args"] = list(fnitem.get("fn_args") or [])
            n_some = len(blocks)
            blocks.append({"cleanup": cl, "stmts": [], "term": ct})
        else:
            dest = copy.deepcopy(t["dest"])
            if dflt is not None:
                on_ret = lambda l0, dest=dest: [{"k": "assign", "pl": copy.deepcopy(dest), "rv": {"k": "use", "op": {"k": "move", "pl": {"l": l0, "p": []}}}, "span": sp, "exp": ex}]
            else:
                on_ret = lambda l0, dest=dest: [{"k": "assign", "pl": copy.deepcopy(dest), "rv": {"k": "agg", "ak": "adt", "adt": "std::option::Option", "variant": "Some", "fields": ["0"], "ops": [{"k": "move", "pl": {"l": l0, "p": []}}]}, "span": sp, "exp": ex}]
            n_some = _splice_closure(prog, rec, _closure_rec(prog, kb), f, [payload], t["t"], t["unwind"], cl, sp, ex, on_ret)
        blocks[bi]["stmts"].append({"k": "assign", "pl": {"l": dl, "p": []}, "rv": {"k": "discr", "pl": {"l": xl, "p": []}, "adt": "std::option::Option", "variants": [["0", "None"], ["1", "Some"]]}, "span": sp, "exp": ex})
        blocks[bi]["term"] = {"k": "switch", "op": {"k": "move", "pl": {"l": dl, "p": []}}, "ty": "isize", "targets": [["0", n_none], ["1", n_some]], "otherwise": n_none, "span": sp, "exp": ex, "desugared": cn}
        changed = True
    return changed


_BY_REF_ITER = {"try_fold": 3, "try_for_each": 2, "any": 2, "all": 2, "find": 2, "position": 2}
_BY_VAL_ITER = {"for_each": 2, "fold": 3}


def _call_term(callee, args, dest, t, unwind, span, exp, dest_ty=""):
    return {"k": "call", "callee": callee, "callee_args": [], "params": [], "resolved": None, "resolved_args": [], "rkind": None, "args": args, "arg_tys": [], "dest": dest, "dest_ty": dest_ty, "t": t, "unwind": unwind, "fn_span": span, "fn_exp": exp, "span": span, "exp": exp, "synthetic": True}


def desugar_internal_iteration(prog, rec):
    """`iter.try_fold(init, |acc, x| …)`, `try_for_each`, `for_each`, `fold`, `any`, `all` with a
    closure literal, written out as the `while let Some(x) = iter.next()` loop that the library's
    default implementations are (core::iter::Iterator): the closure body becomes the loop body in
    place, so the loop rules (order of visits, per-iteration effects, early exit on the first
    error) apply as they do to a `for` loop."""
    changed = False
    blocks = rec["blocks"]
    for bi in range(len(blocks)):
        t = blocks[bi]["term"]
        if not t or t["k"] != "call" or t["t"] is None:
            continue
        cn = strip_generics(t.get("callee") or "")
        if not cn.startswith("std::iter::Iterator::"):
            continue
        m = cn.split("::")[-1]
        nargs = _BY_REF_ITER.get(m) or _BY_VAL_ITER.get(m)
        if nargs is None or len(t["args"]) != nargs:
            continue
        f = t["args"][-1]
        kdef = _closure_def_of(rec, f)
        kb = prog.bodies.get(kdef) if kdef else None
        want_params = 3 if m in ("try_fold", "fold") else 2
        if kb is None or kb.coroutine or kb.arg_count != want_params or len(kb.blocks) > 400 or kb.path == rec["path"]:
            continue
        it = t["args"][0]
        if it.get("k") not in ("move", "copy"):
            continue
        sp, ex, cl, uw = t.get("span"), t.get("exp", ""), blocks[bi]["cleanup"], t["unwind"]

        def new_local(ty):
            rec["locals"].append({"ty": ty, "ty_def": None, "user": False})
            return len(rec["locals"]) - 1

        pre = []
        if m in _BY_VAL_ITER:
            if it["pl"]["p"]:
                continue
            rl = new_local("&mut iter")
            pre.append({"k": "assign", "pl": {"l": rl, "p": []}, "rv": {"k": "ref", "bk": "mut", "pl": {"l": it["pl"]["l"], "p": []}}, "span": sp, "exp": ex})
            it_ref = {"k": "copy", "pl": {"l": rl, "p": []}}
        else:
            it_ref = dict(copy.deepcopy(it), k="copy")
        acc = None
        if m in ("try_fold", "fold"):
            acc = new_local("acc")
            pre.append({"k": "assign", "pl": {"l": acc, "p": []}, "rv": {"k": "use", "op": copy.deepcopy(t["args"][1])}, "span": sp, "exp": ex})
        nl = new_local("std::option::Option<item>")
        dl = new_local("isize")
        dest = copy.deepcopy(t["dest"])
        T = t["t"]
        # blocks: H (next), S (test), N (exhausted), then the closure copy and its continuation
        H = len(blocks)
        blocks.append({"cleanup": cl, "stmts": [], "term": None})
        S = len(blocks)
        blocks.append({"cleanup": cl, "stmts": [{"k": "assign", "pl": {"l": dl, "p": []}, "rv": {"k": "discr", "pl": {"l": nl, "p": []}, "adt": "std::option::Option", "variants": [["0", "None"], ["1", "Some"]]}, "span": sp, "exp": ex}], "term": None})
        N = len(blocks)
        blocks.append({"cleanup": cl, "stmts": [], "term": None})
        blocks[H]["term"] = _call_term("std::iter::Iterator::next", [it_ref], {"l": nl, "p": []}, S, uw, sp, ex)
        ity = ((t.get("arg_tys") or [""])[0] or "").replace("&mut ", "", 1)
        if ity:
            blocks[H]["term"]["resolved"] = "<%s as std::iter::Iterator>::next" % ity
            blocks[H]["term"]["arg_tys"] = ["&mut " + ity]
        true_c = {"k": "const", "ty": "bool", "v": "true", "int": "1"}
        false_c = {"k": "const", "ty": "bool", "v": "false", "int": "0"}
        unit = {"k": "agg", "ak": "tuple", "ops": []}
        if m in ("try_fold", "try_for_each"):
            if m == "try_for_each":
                ul = new_local("()")
                blocks[N]["stmts"].append({"k": "assign", "pl": {"l": ul, "p": []}, "rv": unit, "span": sp, "exp": ex})
                blocks[N]["term"] = _call_term("std::ops::Try::from_output", [{"k": "move", "pl": {"l": ul, "p": []}}], dest, T, uw, sp, ex)
            else:
                blocks[N]["term"] = _call_term("std::ops::Try::from_output", [{"k": "move", "pl": {"l": acc, "p": []}}], dest, T, uw, sp, ex)
            cf = new_local("std::ops::ControlFlow<r, c>")
            cd = new_local("isize")
            rl2 = new_local("closure result")
            res = new_local("residual")
            B2 = len(blocks)  # after the closure returned: r.branch()
            blocks.append({"cleanup": cl, "stmts": [], "term": None})
            Q = len(blocks)
            blocks.append({"cleanup": cl, "stmts": [{"k": "assign", "pl": {"l": cd, "p": []}, "rv": {"k": "discr", "pl": {"l": cf, "p": []}, "adt": "std::ops::ControlFlow", "variants": [["0", "Continue"], ["1", "Break"]]}, "span": sp, "exp": ex}], "term": None})
            C = len(blocks)
            cst = [{"k": "assign", "pl": {"l": acc, "p": []}, "rv": {"k": "use", "op": {"k": "move", "pl": {"l": cf, "p": [["dc", "Continue", 0], ["f", 0, "0"]]}}}, "span": sp, "exp": ex}] if acc is not None else []
            blocks.append({"cleanup": cl, "stmts": cst, "term": {"k": "goto", "t": H, "span": sp, "exp": ex}})
            K = len(blocks)
            blocks.append({"cleanup": cl, "stmts": [{"k": "assign", "pl": {"l": res, "p": []}, "rv": {"k": "use", "op": {"k": "move", "pl": {"l": cf, "p": [["dc", "Break", 1], ["f", 0, "0"]]}}}, "span": sp, "exp": ex}], "term": _call_term("std::ops::FromResidual::from_residual", [{"k": "move", "pl": {"l": res, "p": []}}], copy.deepcopy(dest), T, uw, sp, ex)})
            blocks[B2]["term"] = _call_term("std::ops::Try::branch", [{"k": "move", "pl": {"l": rl2, "p": []}}], {"l": cf, "p": []}, Q, uw, sp, "desugar:QuestionMark")
            blocks[Q]["term"] = {"k": "switch", "op": {"k": "move", "pl": {"l": cd, "p": []}}, "ty": "isize", "targets": [["0", C], ["1", K]], "otherwise": C, "span": sp, "exp": "desugar:QuestionMark"}
            on_ret = lambda l0: [{"k": "assign", "pl": {"l": rl2, "p": []}, "rv": {"k": "use", "op": {"k": "move", "pl": {"l": l0, "p": []}}}, "span": sp, "exp": ex}]
            after = B2
            thread_local = rl2
            if not dest["p"]:
                blocks[K]["term"]["t"] = _thread_chain(rec, T, set(), {dest["l"]}, "Err")
                blocks[N]["term"]["t"] = _thread_chain(rec, T, set(), {dest["l"]}, "Ok")
        elif m == "for_each":
            blocks[N]["stmts"].append({"k": "assign", "pl": dest, "rv": unit, "span": sp, "exp": ex})
            blocks[N]["term"] = {"k": "goto", "t": T, "span": sp, "exp": ex}
            on_ret = lambda l0: []
            after = H
        elif m == "fold":
            blocks[N]["stmts"].append({"k": "assign", "pl": dest, "rv": {"k": "use", "op": {"k": "move", "pl": {"l": acc, "p": []}}}, "span": sp, "exp": ex})
            blocks[N]["term"] = {"k": "goto", "t": T, "span": sp, "exp": ex}
            on_ret = lambda l0: [{"k": "assign", "pl": {"l": acc, "p": []}, "rv": {"k": "use", "op": {"k": "move", "pl": {"l": l0, "p": []}}}, "span": sp, "exp": ex}]
            after = H
        elif m in ("find", "position"):
            none_rv = {"k": "agg", "ak": "adt", "adt": "std::option::Option", "variant": "None", "fields": [], "ops": []}
            blocks[N]["stmts"].append({"k": "assign", "pl": dest, "rv": none_rv, "span": sp, "exp": ex})
            blocks[N]["term"] = {"k": "goto", "t": T, "span": sp, "exp": ex}
            bl = new_local("bool")
            item = new_local("item")
            if m == "find":
                found_op = {"k": "move", "pl": {"l": item, "p": []}}
                miss_stmts = []
                cnt = None
            else:
                cnt = new_local("usize")
                pre.append({"k": "assign", "pl": {"l": cnt, "p": []}, "rv": {"k": "use", "op": {"k": "const", "ty": "usize", "v": "0_usize", "int": "0"}}, "span": sp, "exp": ex})
                found_op = {"k": "copy", "pl": {"l": cnt, "p": []}}
                miss_stmts = [{"k": "assign", "pl": {"l": cnt, "p": []}, "rv": {"k": "bin", "op": "Add", "a": {"k": "copy", "pl": {"l": cnt, "p": []}}, "b": {"k": "const", "ty": "usize", "v": "1_usize", "int": "1"}}, "span": sp, "exp": ex}]
            X = len(blocks)
            blocks.append({"cleanup": cl, "stmts": [{"k": "assign", "pl": copy.deepcopy(dest), "rv": {"k": "agg", "ak": "adt", "adt": "std::option::Option", "variant": "Some", "fields": ["0"], "ops": [found_op]}, "span": sp, "exp": ex}], "term": {"k": "goto", "t": T, "span": sp, "exp": ex}})
            M = len(blocks)
            blocks.append({"cleanup": cl, "stmts": miss_stmts, "term": {"k": "goto", "t": H, "span": sp, "exp": ex}})
            Y = len(blocks)
            blocks.append({"cleanup": cl, "stmts": [], "term": {"k": "switch", "op": {"k": "copy", "pl": {"l": bl, "p": []}}, "ty": "bool", "targets": [["0", M]], "otherwise": X, "span": sp, "exp": ex}})
            on_ret = lambda l0: [{"k": "assign", "pl": {"l": bl, "p": []}, "rv": {"k": "use", "op": {"k": "move", "pl": {"l": l0, "p": []}}}, "span": sp, "exp": ex}]
            after = Y
        else:  # any / all
            hit, miss = (true_c, false_c) if m == "any" else (false_c, true_c)
            blocks[N]["stmts"].append({"k": "assign", "pl": dest, "rv": {"k": "use", "op": miss}, "span": sp, "exp": ex})
            blocks[N]["term"] = {"k": "goto", "t": T, "span": sp, "exp": ex}
            bl = new_local("bool")
            X = len(blocks)  # the closure said "stop"
            blocks.append({"cleanup": cl, "stmts": [{"k": "assign", "pl": copy.deepcopy(dest), "rv": {"k": "use", "op": hit}, "span": sp, "exp": ex}], "term": {"k": "goto", "t": T, "span": sp, "exp": ex}})
            Y = len(blocks)
            stop_val = "1" if m == "any" else "0"
            blocks.append({"cleanup": cl, "stmts": [], "term": {"k": "switch", "op": {"k": "copy", "pl": {"l": bl, "p": []}}, "ty": "bool", "targets": [[stop_val, X]], "otherwise": H, "span": sp, "exp": ex}})
            on_ret = lambda l0: [{"k": "assign", "pl": {"l": bl, "p": []}, "rv": {"k": "use", "op": {"k": "move", "pl": {"l": l0, "p": []}}}, "span": sp, "exp": ex}]
            after = Y
        payload = {"k": "move", "pl": {"l": nl, "p": [["dc", "Some", 1], ["f", 0, "0"]]}}
        args = ([{"k": "move", "pl": {"l": acc, "p": []}}] if m in ("try_fold", "fold") else []) + [payload]
        bind_pre = []
        if m in ("find", "position"):
            bind_pre.append({"k": "assign", "pl": {"l": item, "p": []}, "rv": {"k": "use", "op": payload}, "span": sp, "exp": ex})
            if m == "find":
                rf = new_local("&item")
                bind_pre.append({"k": "assign", "pl": {"l": rf, "p": []}, "rv": {"k": "ref", "bk": "shared", "pl": {"l": item, "p": []}}, "span": sp, "exp": ex})
                args = [{"k": "move", "pl": {"l": rf, "p": []}}]
            else:
                args = [{"k": "copy", "pl": {"l": item, "p": []}}]
        entry = _splice_closure(prog, rec, _closure_rec(prog, kb), f, args, after, uw, cl, sp, ex, on_ret, thread=thread_local if m in ("try_fold", "try_for_each") else None)
        if bind_pre:
            blocks[entry]["stmts"] = bind_pre + blocks[entry]["stmts"]
        blocks[S]["term"] = {"k": "switch", "op": {"k": "move", "pl": {"l": dl, "p": []}}, "ty": "isize", "targets": [["0", N], ["1", entry]], "otherwise": N, "span": sp, "exp": "desugar:ForLoop"}
        blocks[bi]["stmts"].extend(pre)
        blocks[bi]["term"] = {"k": "goto", "t": H, "span": sp, "exp": ex, "desugared": cn}
        changed = True
    return changed


def inline_rec(prog, rec, done, stack):
    """rec with every inlinable call replaced by the callee's (already inlined) blocks"""
    rec = copy.deepcopy(rec)
    changed = desugar_combinators(prog, rec)
    if changed:
        thread_known_variants(rec)
    changed = desugar_internal_iteration(prog, rec) or changed
    changed = thread_const_flags(rec) or changed
    bi = 0
    n_inl = 0
    while bi < len(rec["blocks"]):
        blk = rec["blocks"][bi]
        t = blk["term"]
        bi += 1
        if not t or t["k"] != "call" or n_inl > 40:
            continue
        cb = prog.callee_body(t)
        if cb is not None and rec.get("coroutine") and cb.path not in stack and cb.path != rec["path"]:
            kb = _async_body(prog, cb)
            if kb is not None and kb.path not in stack and kb.path != rec["path"]:
                if _inline_await(prog, rec, bi - 1, cb, kb, done, stack):
                    changed = True
                    n_inl += 1
                continue
        if cb is None or cb.path in stack or cb.path == rec["path"] or not inlinable(prog, cb):
            continue
        crec = split_returns(copy.deepcopy(get_inlined(prog, cb, done, stack | {rec["path"]})))
        if len(t["args"]) != crec["arg_count"]:
            continue
        loff = len(rec["locals"])
        boff = len(rec["blocks"])
        poff = len(rec.get("promoted", []))
        lmap = lambda l, loff=loff: l + loff
        for i, lo in enumerate(crec["locals"]):
            lo2 = copy.deepcopy(lo)
            if 1 <= i <= crec["arg_count"]:
                lo2["alias"] = True
            lo2["inlined_from"] = crec["path"]
            rec["locals"].append(lo2)
        for d in crec.get("debug", []):
            d2 = copy.deepcopy(d)
            d2["pl"] = _remap(d["pl"], lmap, poff)
            d2["arg"] = None
            rec.setdefault("debug", []).append(d2)
        rec.setdefault("promoted", []).extend(copy.deepcopy(crec.get("promoted", [])))
        unwind_to = t["unwind"]
        for cblk in crec["blocks"]:
            nb = {"cleanup": cblk["cleanup"], "stmts": [_remap(s, lmap, poff) for s in cblk["stmts"]], "term": None}
            ct = cblk["term"]
            if ct is not None:
                ct2 = _shift_term(_remap(ct, lmap, poff), boff, unwind_to)
                if ct2["k"] == "return":
                    nb["stmts"].append({"k": "assign", "pl": copy.deepcopy(t["dest"]), "rv": {"k": "use", "op": {"k": "move", "pl": {"l": lmap(0), "p": []}}}, "span": t.get("span"), "exp": t.get("exp", ""), "ret_kind": ct2.get("ret_kind")})
                    if t["t"] is not None:
                        ct2 = {"k": "goto", "t": ("THREAD", ct2.get("ret_kind")), "span": ct.get("span"), "exp": ct.get("exp", ""), "inlined_return": crec["path"]}
                    else:
                        ct2 = {"k": "unreachable", "span": ct.get("span"), "exp": ct.get("exp", "")}
                elif ct2["k"] == "resume" and isinstance(unwind_to, int):
                    ct2 = {"k": "goto", "t": unwind_to, "span": ct.get("span"), "exp": ct.get("exp", ""), "inlined_resume": crec["path"]}
                nb["term"] = ct2
            rec["blocks"].append(nb)
        # returns of a known kind skip the caller's test of the result (jump threading)
        for nb in rec["blocks"][boff:]:
            tt = nb["term"]
            if tt and tt["k"] == "goto" and isinstance(tt["t"], tuple):
                kind = tt["t"][1]
                if kind in ("Ok", "Err"):
                    tt["t"] = _thread_target(rec, t["t"], t["dest"], kind)
                elif kind and ":" in kind and not t["dest"]["p"]:
                    tt["t"] = _thread_chain(rec, t["t"], set(), {t["dest"]["l"]}, kind)
                else:
                    tt["t"] = t["t"]
        # a parameter bound to `&mut place` / `&place` taken for this call: `(*param).x` in the copy is `place.x` —
        # written out, so that what the helper stores through the reference is a definition of the caller's variable
        unbound = set()
        for i, a in enumerate(t["args"]):
            tgt = _borrowed_place(blk, a, 0, rec)
            if tgt is not None:
                _subst_deref(rec["blocks"][boff:], lmap(i + 1), tgt)
                if not _mentions_local(rec["blocks"][boff:], lmap(i + 1)):
                    # the reference itself is used nowhere else: it does not exist any more
                    unbound.add(i)
                    _drop_borrow(rec, blk, a)
        # bind the parameters and jump into the copy
        for i, a in enumerate(t["args"]):
            if i in unbound:
                continue
            blk["stmts"].append({"k": "assign", "pl": {"l": lmap(i + 1), "p": []}, "rv": {"k": "use", "op": copy.deepcopy(a)}, "span": t.get("span"), "exp": t.get("exp", "")})
        blk["term"] = {"k": "goto", "t": boff, "span": t.get("span"), "exp": t.get("exp", ""), "inlined_call": crec["path"]}
        rec.setdefault("inlined", []).append(crec["path"])
        changed = True
        n_inl += 1
    if n_inl:
        # closures handed to the helpers that were just copied in; constants they return
        devirtualise_closure_calls(prog, rec)
        thread_const_flags(rec)
        scalar_replace(prog, rec)
    if changed:
        rec["transformed"] = True
    return rec if changed else None


def _borrowed_place(blk, op, depth=0, rec=None):
    """the place `p` when the operand is a temporary assigned `&p` / `&mut p` earlier in this block — or, for a
    temporary with that one definition, in an earlier block (the other arguments are computed in between) — and p
    is a plain path from a local (fields only, no pointer followed), else None"""
    if not op or op.get("k") not in ("move", "copy") or op["pl"]["p"] or depth > 3:
        return None
    l = op["pl"]["l"]
    found = None
    for st in blk["stmts"]:
        if st["k"] == "assign" and st["pl"]["l"] == l:
            found = st if not st["pl"]["p"] else None
    if found is None and rec is not None and not rec["locals"][l].get("user"):
        rv1 = _single_def(rec, l)
        if rv1 is not None and rv1["k"] == "ref" and rv1.get("bk") in ("mut", "shared") and all(e[0] == "f" for e in rv1["pl"]["p"]) and not rec["locals"][rv1["pl"]["l"]].get("alias"):
            return copy.deepcopy(rv1["pl"])
        return None
    if found is None:
        return None
    rv = found["rv"]
    if rv["k"] == "use":
        return _borrowed_place(blk, rv["op"], depth + 1, rec)
    if rv["k"] != "ref" or rv.get("bk") not in ("mut", "shared"):
        return None
    pl = rv["pl"]
    if pl["p"] and pl["p"][0][0] == "d" and all(e[0] == "f" for e in pl["p"][1:]):
        # a re-borrow `&mut *q`, `&mut (*q).f` of a reference that was itself taken here
        inner = _borrowed_place(blk, {"k": "copy", "pl": {"l": pl["l"], "p": []}}, depth + 1)
        if inner is None:
            # … or of a reference that exists already (a `&mut self` parameter handed on): the same place, through it
            return copy.deepcopy(pl)
        return {"l": inner["l"], "p": inner["p"] + copy.deepcopy(pl["p"][1:])}
    if all(e[0] == "f" for e in pl["p"]):
        return copy.deepcopy(pl)
    return None


def _mentions_local(blocks, l, limit=1):
    n = [0]

    def walk(obj):
        if n[0] >= limit:
            return
        if isinstance(obj, list):
            for x in obj:
                walk(x)
        elif isinstance(obj, dict):
            if "l" in obj and "p" in obj and isinstance(obj["l"], int) and isinstance(obj["p"], list):
                if obj["l"] == l or any(isinstance(e, list) and e and e[0] == "i" and e[1] == l for e in obj["p"]):
                    n[0] += 1
                return
            for v in obj.values():
                walk(v)
    for b in blocks:
        walk(b["stmts"])
        if b["term"] is not None:
            walk(b["term"])
    return n[0] >= limit


def _drop_borrow(rec, blk, op, depth=0):
    """remove `tmp = &mut place` (and the copies of tmp leading to the operand) when the call was its only use"""
    if not op or op.get("k") not in ("move", "copy") or op["pl"]["p"] or depth > 3:
        return
    l = op["pl"]["l"]
    # uses anywhere: the defining statement counts once, the call argument once
    if _mentions_local(rec["blocks"], l, limit=3):
        return
    for b2 in [blk] + [x for x in rec["blocks"] if x is not blk]:
        for i in range(len(b2["stmts"]) - 1, -1, -1):
            st = b2["stmts"][i]
            if st["k"] == "assign" and st["pl"]["l"] == l and not st["pl"]["p"]:
                rv = st["rv"]
                if rv["k"] == "ref":
                    del b2["stmts"][i]
                    if rv["pl"]["p"] and rv["pl"]["p"][0][0] == "d" and not _mentions_local(rec["blocks"], rv["pl"]["l"], limit=2):
                        # `&mut *tmp` of a `tmp = &mut place` that nothing else uses
                        _drop_borrow_def(rec, rv["pl"]["l"])
                elif rv["k"] == "use":
                    del b2["stmts"][i]
                    _drop_borrow(rec, b2, rv["op"], depth + 1)
                return


def _drop_borrow_def(rec, l):
    for b2 in rec["blocks"]:
        for i in range(len(b2["stmts"]) - 1, -1, -1):
            st = b2["stmts"][i]
            if st["k"] == "assign" and st["pl"]["l"] == l and not st["pl"]["p"] and st["rv"]["k"] == "ref":
                del b2["stmts"][i]
                return


def _subst_deref(blocks, param, tgt):
    def walk(obj):
        if isinstance(obj, list):
            for x in obj:
                walk(x)
        elif isinstance(obj, dict):
            if "l" in obj and "p" in obj and isinstance(obj["l"], int) and isinstance(obj["p"], list):
                if obj["l"] == param and obj["p"] and obj["p"][0][0] == "d":
                    obj["p"] = copy.deepcopy(tgt["p"]) + obj["p"][1:]
                    obj["l"] = tgt["l"]
                return
            for v in obj.values():
                walk(v)
    for b in blocks:
        walk(b["stmts"])
        if b["term"] is not None:
            walk(b["term"])


_NO_DROP_TYS = ("u8", "u16", "u32", "u64", "u128", "usize", "i8", "i16", "i32", "i64", "i128", "isize", "bool", "char", "f32", "f64", "()")


def scalar_replace(prog, rec):
    """A local of a crate-local struct type that is only ever built from a struct literal (or moved in as a whole
    from such a value), read and written field by field, and dropped — what a `struct MergeOutput { fileid, pos,
    datafile, hintfile }` with `&mut self` helpers is once the helpers are written out — is replaced by one
    variable per field, named `<variable>.<field>`. Grouping variables into a struct then changes nothing for
    the rules that follow a variable."""
    blocks = rec["blocks"]
    locs = rec["locals"]
    argc = rec.get("arg_count", 0)
    cands = {}
    for l, lo in enumerate(locs):
        if l <= argc or lo.get("sroa"):
            continue
        head = strip_generics((lo.get("ty") or "").split("<")[0])
        adt = prog.adts.get(head)
        if not adt or adt.get("is_enum") or adt.get("has_dtor") or len(adt.get("variants", [])) != 1:
            continue
        flds = adt["variants"][0]["fields"]
        if len(flds) < 2 or any(not f[0] or f[0][0].isdigit() for f in flds):
            continue
        cands[l] = {"fields": flds, "whole_ok": 0, "whole_all": 0, "ok": True}
    if not cands:
        return False

    moves = []

    def count(obj):
        if isinstance(obj, list):
            for x in obj:
                count(x)
        elif isinstance(obj, dict):
            if "l" in obj and "p" in obj and isinstance(obj["l"], int) and isinstance(obj["p"], list):
                c = cands.get(obj["l"])
                if c is not None and (not obj["p"] or obj["p"][0][0] != "f"):
                    c["whole_all"] += 1
                for e in obj["p"]:
                    if isinstance(e, list) and e and e[0] == "i" and e[1] in cands:
                        cands[e[1]]["ok"] = False
                return
            for v in obj.values():
                count(v)

    for blk in blocks:
        count(blk["stmts"])
        if blk["term"] is not None:
            count(blk["term"])
        for st in blk["stmts"]:
            if st["k"] in ("mention", "fakeread") and not st["pl"]["p"] and st["pl"]["l"] in cands:
                cands[st["pl"]["l"]]["whole_ok"] += 1
            if st["k"] == "assign" and not st["pl"]["p"] and st["pl"]["l"] in cands:
                c = cands[st["pl"]["l"]]
                rv = st["rv"]
                if rv["k"] == "agg" and rv.get("ak") == "adt" and [f for f in rv.get("fields", [])] and set(rv["fields"]) == {f[0] for f in c["fields"]}:
                    c["whole_ok"] += 1
                elif rv["k"] == "use" and rv["op"].get("k") in ("move", "copy"):
                    c["whole_ok"] += 1
                    src = rv["op"]["pl"]
                    if not src["p"] and src["l"] in cands:
                        # one such struct moved into another (a `self` parameter taken by value): fine if both go
                        cands[src["l"]]["whole_ok"] += 1
                        moves.append((src["l"], st["pl"]["l"]))
                else:
                    c["ok"] = False
        t = blk["term"]
        if t and t["k"] == "drop" and not t["pl"]["p"] and t["pl"]["l"] in cands:
            cands[t["pl"]["l"]]["whole_ok"] += 1
        if t and t["k"] == "call" and not t["dest"]["p"] and t["dest"]["l"] in cands:
            cands[t["dest"]["l"]]["ok"] = False
    todo = {l: c for l, c in cands.items() if c["ok"] and c["whole_all"] == c["whole_ok"]}
    # only worth it when the struct is updated in place (a field assigned after construction)
    upd = set()
    for blk in blocks:
        for st in blk["stmts"]:
            if st["k"] == "assign" and st["pl"]["p"] and st["pl"]["l"] in todo and st["pl"]["p"][0][0] == "f":
                upd.add(st["pl"]["l"])
    more = True
    while more:
        more = False
        for a_, d_ in moves:
            if a_ in todo and d_ in todo and ((a_ in upd) != (d_ in upd)):
                upd |= {a_, d_}
                more = True
    todo = {l: c for l, c in todo.items() if l in upd}
    more = True
    while more:
        more = False
        for a_, d_ in moves:
            if a_ in todo and d_ not in todo:
                del todo[a_]
                more = True
    if not todo:
        return False
    names = {}
    for d in rec.get("debug", []):
        if not d["pl"]["p"] and d["pl"]["l"] in todo:
            names[d["pl"]["l"]] = d["name"]
    fmap = {}
    for l, c in todo.items():
        for fname, fty in c["fields"]:
            nl = len(locs)
            locs.append({"ty": fty, "ty_def": None, "user": True, "sroa": True, "inlined_from": locs[l].get("inlined_from")})
            fmap[(l, fname)] = nl
            rec.setdefault("debug", []).append({"name": "%s.%s" % (names.get(l, "_%d" % l), fname), "pl": {"l": nl, "p": []}, "arg": None})

    def rewrite(obj):
        if isinstance(obj, list):
            for x in obj:
                rewrite(x)
        elif isinstance(obj, dict):
            if "l" in obj and "p" in obj and isinstance(obj["l"], int) and isinstance(obj["p"], list):
                if obj["l"] in todo and obj["p"] and obj["p"][0][0] == "f":
                    obj["l"] = fmap[(obj["l"], obj["p"][0][2])]
                    obj["p"] = obj["p"][1:]
                return
            for v in obj.values():
                rewrite(v)

    for bi in range(len(blocks)):
        blk = blocks[bi]
        out = []
        for st in blk["stmts"]:
            if st["k"] in ("mention", "fakeread") and not st["pl"]["p"] and st["pl"]["l"] in todo:
                continue
            if st["k"] in ("live", "dead") and st.get("l") in todo:
                for fname, _ in todo[st["l"]]["fields"]:
                    out.append({"k": st["k"], "l": fmap[(st["l"], fname)]})
                continue
            if st["k"] == "assign" and not st["pl"]["p"] and st["pl"]["l"] in todo:
                l = st["pl"]["l"]
                rv = st["rv"]
                if rv["k"] == "agg":
                    for fname, op in zip(rv["fields"], rv["ops"]):
                        op2 = copy.deepcopy(op)
                        rewrite(op2)
                        out.append({"k": "assign", "pl": {"l": fmap[(l, fname)], "p": []}, "rv": {"k": "use", "op": op2}, "span": st.get("span"), "exp": st.get("exp", "")})
                elif not rv["op"]["pl"]["p"] and rv["op"]["pl"]["l"] in todo:
                    for fname, _ in todo[l]["fields"]:
                        out.append({"k": "assign", "pl": {"l": fmap[(l, fname)], "p": []}, "rv": {"k": "use", "op": {"k": rv["op"]["k"], "pl": {"l": fmap[(rv["op"]["pl"]["l"], fname)], "p": []}}}, "span": st.get("span"), "exp": st.get("exp", "")})
                else:
                    src = rv["op"]
                    for i, (fname, _) in enumerate(todo[l]["fields"]):
                        out.append({"k": "assign", "pl": {"l": fmap[(l, fname)], "p": []}, "rv": {"k": "use", "op": {"k": src["k"], "pl": {"l": src["pl"]["l"], "p": copy.deepcopy(src["pl"]["p"]) + [["f", i, fname]]}}}, "span": st.get("span"), "exp": st.get("exp", "")})
                continue
            rewrite(st)
            out.append(st)
        blk["stmts"] = out
        t = blk["term"]
        if t is None:
            continue
        if t["k"] == "drop" and not t["pl"]["p"] and t["pl"]["l"] in todo:
            l = t["pl"]["l"]
            droppable = [(fname, fty) for fname, fty in todo[l]["fields"] if fty not in _NO_DROP_TYS]
            nxt = t["t"]
            # fields are dropped in declaration order: build the chain from the back
            for fname, fty in reversed(droppable[1:]):
                blocks.append({"cleanup": blk["cleanup"], "stmts": [], "term": dict(copy.deepcopy(t), pl={"l": fmap[(l, fname)], "p": []}, ty=fty, t=nxt)})
                nxt = len(blocks) - 1
            if droppable:
                blk["term"] = dict(copy.deepcopy(t), pl={"l": fmap[(l, droppable[0][0])], "p": []}, ty=droppable[0][1], t=nxt)
            else:
                blk["term"] = {"k": "goto", "t": nxt, "span": t.get("span"), "exp": t.get("exp", "")}
            continue
        rewrite(t)
    rec.setdefault("sroa", []).extend(sorted(names.get(l, "_%d" % l) for l in todo))
    return True


def desugar_only(prog, rec):
    rec = copy.deepcopy(rec)
    changed = desugar_combinators(prog, rec)
    if changed:
        thread_known_variants(rec)
    changed = desugar_internal_iteration(prog, rec) or changed
    changed = thread_const_flags(rec) or changed
    if changed:
        rec["transformed"] = True
    return rec if changed else None


def get_inlined(prog, body, done, stack):
    if body.path in done:
        return done[body.path]
    if body.test:
        r = None
    elif _caller_ok(body):
        r = inline_rec(prog, body.rec, done, stack)
    else:
        r = desugar_only(prog, body.rec)
    done[body.path] = r if r is not None else body.rec
    return done[body.path]


def apply(prog):
    """replace, in place, every body that calls an inlinable helper by its inlined version"""
    orig = dict(prog.bodies)
    done = {}
    replaced = []
    for path, b in orig.items():
        if b.def_kind not in ("Fn", "AssocFn", "Closure"):
            continue
        rec = get_inlined(prog, b, done, frozenset())
        if rec is not b.rec:
            nb = Body(rec, prog)
            prog.bodies[path] = nb
            fam = prog.families[nb.root]
            for i, x in enumerate(fam):
                if x.path == path:
                    fam[i] = nb
            replaced.append((path, rec.get("inlined", [])))
    prog._cg = None
    prog.inlined = replaced
    # a closure literal whose only consumer was written out in place is not separate code any more
    spliced = set()
    for path in [p_ for p_, _ in replaced]:
        spliced |= set(prog.bodies[path].rec.get("inlined_closures") or [])
    more = True
    while more:
        more = False
        for b in prog.bodies.values():
            if b.path not in spliced and b.def_kind == "Closure" and any(b.path.startswith(sp + "::") for sp in spliced):
                spliced.add(b.path)
                more = True
    # a private helper every call of which was replaced by a copy is not separate code either
    inl = set()
    for path, callees in replaced:
        inl |= set(callees)
    if inl:
        still_called = set()
        for b in prog.bodies.values():
            if b.path in spliced:
                continue
            for bi, t in b.calls():
                cb = prog.callee_body(t)
                if cb is not None and cb.path in inl and b.root != cb.root:
                    still_called.add(cb.path)
        users = {}
        for path, callees in replaced:
            for c in callees:
                users.setdefault(c, set()).add(prog.bodies[path].root)
        for c in inl - still_called:
            fam = prog.families.get(c, [])
            roots = users.get(c, set())
            kb = _async_body(prog, prog.bodies[c]) if c in prog.bodies else None
            copied = {c} | ({kb.path} if kb is not None else set())
            for b in fam:
                if b.path in copied or b.path in spliced:
                    spliced.add(b.path)
                elif len(roots) == 1 and (b.coroutine or b.def_kind == "Closure"):
                    # code written inside the helper (a closure, an async block) now belongs to the one function the helper was written out in
                    r_ = next(iter(roots))
                    b.root = r_
                    prog.families.setdefault(r_, []).append(b)
                # used from several functions: stays separate code under the helper's own name
    for sp in spliced:
        if sp in prog.bodies:
            prog.bodies[sp].spliced = True
    prog.spliced = spliced
    return replaced

"""K1 — who-may-call and API allow/deny tables. Enumerative and exhaustive over every call
terminator of every shipped body of the crate."""
import os
import tomllib

from common import *
from engine import RuleResult

# --------------------------------------------------------------------------------------------
# W1: the complete list of APIs that can create, modify, rename or remove a file

FILE_MUTATION_EXACT = {
    "std::fs::OpenOptions::write",
    "std::fs::OpenOptions::append",
    "std::fs::OpenOptions::truncate",
    "std::fs::OpenOptions::create",
    "std::fs::OpenOptions::create_new",
    "std::os::unix::fs::OpenOptionsExt::custom_flags",
    "std::fs::File::create",
    "std::fs::File::create_new",
    "std::fs::File::options",
    "std::fs::File::set_len",
    "std::fs::File::set_permissions",
    "std::fs::File::set_modified",
    "std::fs::File::set_times",
    "std::fs::write",
    "std::fs::copy",
    "std::fs::rename",
    "std::fs::remove_file",
    "std::fs::remove_dir",
    "std::fs::remove_dir_all",
    "std::fs::hard_link",
    "std::fs::soft_link",
    "std::os::unix::fs::symlink",
    "std::fs::set_permissions",
    "std::os::unix::fs::FileExt::write_at",
    "std::os::unix::fs::FileExt::write_all_at",
    "memmap2::MmapOptions::map_mut",
    "memmap2::MmapOptions::map_copy",
    "memmap2::MmapOptions::map_anon",
    "memmap2::MmapOptions::map_raw",
    "memmap2::Mmap::make_mut",
    "memmap2::MmapMut::map_mut",
    "memmap2::MmapMut::map_anon",
}
FILE_MUTATION_PREFIX = ("tokio::fs::", "memmap2::MmapMut::", "std::os::unix::fs::FileExt::write")

CREATE_CALLERS = {"storage::bitcask::Bitcask::open", "storage::bitcask::Writer::merge", "storage::bitcask::Writer::new_active_datafile"}
UNLINK_CALLERS = {"storage::bitcask::Writer::merge"}
SEEK_SITES = {
    # function -> required SeekFrom variant (None = a forwarding wrapper that must itself have no caller on a writer)
    "storage::bitcask::bufio::BufReaderWithPos::new": "Current",
    "storage::bitcask::bufio::BufWriterWithPos::new": "End",
    "<storage::bitcask::bufio::BufReaderWithPos<R> as std::io::Seek>::seek": None,
    "<storage::bitcask::bufio::BufWriterWithPos<W> as std::io::Seek>::seek": None,
}


def _is_mutation(cn):
    if cn is None:
        return False
    return cn in FILE_MUTATION_EXACT or any(cn.startswith(p) for p in FILE_MUTATION_PREFIX)


def w1_file_mutation_api(ctx):
    r = RuleResult("W1", "every call to an API that can create/modify/rename/remove a file is one of the allowed sites: log::create = OpenOptions{append(true), create_new(true)} only; log::open read-only; fs::remove_file only in Writer::merge on datafile_name/hintfile_name paths; read-only Mmap only; Seek only in the position-tracking constructors", floor=9)
    prog = ctx.prog
    bodies = shipped_bodies(prog)
    n_calls = 0
    # binaries (thorough tier): nothing in them may touch files except through the library
    for tname, bp in ctx.all_programs():
        if tname == "lib":
            continue
        for b in shipped_bodies(bp):
            for bi, t in b.calls():
                if bi not in b.live_blocks():
                    continue
                n_calls += 1
                cn, rn = callee_names(t)
                if _is_mutation(cn) or cn == "std::io::Seek::seek" or cn == "memmap2::MmapOptions::map":
                    r.bad("%s:%s" % (tname, fam_name(b)), "call %s" % cn, where(b, bi), "file-mutating API in a binary, outside the storage layer")
    for b in bodies:
        for bi, t in b.calls():
            if bi not in b.live_blocks():
                continue
            n_calls += 1
            cn, rn = callee_names(t)
            f = fam_name(b)
            if _is_mutation(cn):
                short = cn.split("::")[-1]
                if f == "storage::bitcask::log::create" and cn in ("std::fs::OpenOptions::append", "std::fs::OpenOptions::create_new"):
                    v = const_int(arg_origin(b, t, 1))
                    r.add(f, "OpenOptions::%s(%s)" % (short, "true" if v == 1 else "non-constant-or-false"), v == 1, where(b, bi), "" if v == 1 else "the flag must be the constant true")
                elif cn == "std::fs::remove_file" and in_allowed_family(prog, b, UNLINK_CALLERS):
                    o = peel(arg_origin(b, t, 0))
                    good = o[0] == "call" and o[1] and o[1].split("::")[-1] in ("datafile_name", "hintfile_name")
                    r.add(f, "fs::remove_file(%s)" % (o[1].split("::")[-1] if o[0] == "call" else origin_str(o)), good, where(b, bi), "" if good else "unlink of a path not produced by datafile_name/hintfile_name")
                else:
                    r.bad(f, "call %s" % cn, where(b, bi), "file-mutating API outside the allowed sites (files are create-exclusive, append-only, removed whole, only by merge)")
            elif cn == "std::io::Seek::seek":
                name = b.name
                if name in SEEK_SITES:
                    want = SEEK_SITES[name]
                    if want is None:
                        r.ok(f, "Seek::seek forwarding wrapper", where(b, bi))
                    else:
                        o = peel(arg_origin(b, t, 1))
                        got = o[3] if o[0] == "agg" else None
                        off = const_int(list(o[4].values())[0]) if o[0] == "agg" and o[4] else None
                        good = got == want and off == 0
                        r.add(f, "Seek::seek(SeekFrom::%s(%s))" % (got, off), good, where(b, bi), "" if good else "only a position query (offset 0) is allowed here")
                else:
                    r.bad(f, "call std::io::Seek::seek", where(b, bi), "seek outside the position-tracking constructors; a writer must never be repositioned")
            elif cn == "memmap2::MmapOptions::map":
                good = f.startswith("storage::bitcask::log::LogReader::")
                r.add(f, "MmapOptions::map (read-only mapping)", good, where(b, bi), "" if good else "mapping created outside LogReader")
            elif cn == "std::fs::OpenOptions::read" or cn == "std::fs::File::open":
                r.ok(f, "read-only open (%s)" % cn.split("::")[-1], where(b, bi))
    # who may call the Seek wrapper of the writer, and log::create
    for b, bi, t in calls_in(bodies, "<storage::bitcask::bufio::BufWriterWithPos<W> as std::io::Seek>::seek"):
        if b.name not in SEEK_SITES:
            r.bad(fam_name(b), "call BufWriterWithPos::seek", where(b, bi), "the append-only writer is repositioned")
    for b, bi, t in calls_in(bodies, "std::io::Seek::seek", "std::io::Seek::rewind", "std::io::Seek::seek_relative"):
        rt = (t.get("arg_tys") or [""])[0]
        if b.name not in SEEK_SITES and any(x in rt for x in ("BufWriter", "LogWriter", "std::fs::File")):
            r.bad(fam_name(b), "seek on writer type %s" % rt, where(b, bi), "the append-only writer is repositioned")
    for b, bi, t in calls_in(bodies, "storage::bitcask::log::create"):
        f = fam_name(b)
        o = peel(arg_origin(b, t, 0))
        nm = o[1].split("::")[-1] if o[0] == "call" and o[1] else origin_str(o)
        good = in_allowed_family(prog, b, CREATE_CALLERS) and nm in ("datafile_name", "hintfile_name")
        r.add(f, "log::create(%s)" % nm, good, where(b, bi), "" if good else "file created outside open/rollover/merge or not on a store file name")
    r.note("%d live call terminators enumerated in %d shipped bodies" % (n_calls, len(bodies)))
    r.analysed = ["all %d shipped bodies" % len(bodies)]
    return r


# --------------------------------------------------------------------------------------------
# W7: recovery is read-only


def w7_recovery_read_only(ctx):
    r = RuleResult("W7", "nothing reachable from rebuild_storage can create, modify or remove a file; Bitcask::open creates exactly one file (the fresh active file), after rebuild_storage succeeded", floor=3)
    prog = ctx.prog
    fam = prog.family("storage::bitcask::rebuild_storage")
    n = 0
    reached = prog.reachable_bodies([b.path for b in fam])
    for b, bi, t in transitive_calls(prog, fam):
        n += 1
        cn, rn = callee_names(t)
        if _is_mutation(cn) or is_call_to(t, "storage::bitcask::log::create") or (cn == "std::io::Write::write" or cn == "std::io::Write::write_all"):
            r.bad("storage::bitcask::rebuild_storage", "reaches %s in %s" % (cn, b.name), where(b, bi), "recovery must not write: a crash during recovery must leave the directory as it was")
    r.ok("storage::bitcask::rebuild_storage", "transitive closure (%d bodies, %d call sites) free of file mutation" % (len(reached), n), short_span(fam[0].span))
    for need in ("populate_keydir_with_datafile", "populate_keydir_with_hintfile", "sorted_fileids", "log::open"):
        hit = any(strip_generics(p).endswith(need) for p in reached)
        r.add("storage::bitcask::rebuild_storage", "reaches %s" % need, hit, short_span(fam[0].span), "" if hit else "expected recovery helper not reachable: the closure analysed is not the recovery path")
    # Bitcask::open: one create, after rebuild's ok edge
    ofam = prog.family("storage::bitcask::Bitcask::open")
    creates = calls_in(ofam, "storage::bitcask::log::create")
    rb = calls_in(ofam, "storage::bitcask::rebuild_storage")
    if len(rb) != 1:
        r.unrec("storage::bitcask::Bitcask::open", "call rebuild_storage ×%d" % len(rb), short_span(ofam[0].span), "expected exactly one")
        return r
    b, rbb, rt = rb[0]
    ok_e, err_e, sw = try_edges(b, rbb)
    r.add("storage::bitcask::Bitcask::open", "exactly one log::create", len(creates) == 1, where(b, rbb), "found %d" % len(creates))
    for cb, cbb, ct in creates:
        if cb is not b or not ok_e:
            r.unrec("storage::bitcask::Bitcask::open", "log::create placement", where(cb, cbb), "create not in the same body as rebuild_storage, or rebuild's result is not branched")
            continue
        ok_set = {(e.src, e.dst) for e in ok_e}
        reachable_without_ok = cbb in reach(b, [0], blocked_edges=lambda e: (e.src, e.dst) in ok_set)
        r.add("storage::bitcask::Bitcask::open", "log::create only after rebuild_storage returned Ok", not reachable_without_ok, where(cb, cbb))
    return r


# --------------------------------------------------------------------------------------------
# W2: index mutators

DASHMAP_MUT = {"insert", "remove", "remove_if", "remove_if_mut", "entry", "try_entry", "iter_mut", "get_mut", "try_get_mut", "alter", "alter_all", "retain", "clear", "shrink_to_fit", "par_iter_mut", "view", "shards_mut", "get_or_insert", "get_or_insert_with"}
DASHMAP_READ = {"get", "try_get", "iter", "contains_key", "len", "is_empty", "capacity", "new", "default", "with_capacity", "with_hasher", "hasher", "par_iter", "shards", "determine_map", "hash_usize"}
INDEX_MUTATOR_FAMILIES = {
    "storage::bitcask::Writer::put": "&mut Writer (under the writer mutex)",
    "storage::bitcask::Writer::delete": "&mut Writer (under the writer mutex)",
    "storage::bitcask::Writer::write": "&mut Writer (under the writer mutex)",
    "storage::bitcask::Writer::merge": "&mut Writer (under the writer mutex)",
    "storage::bitcask::populate_keydir_with_datafile": "recovery, before the maps are shared",
    "storage::bitcask::populate_keydir_with_hintfile": "recovery, before the maps are shared",
}


def w2_index_mutators(ctx):
    r = RuleResult("W2", "the index (keydir) and the accounting map (stats) are mutated only in &mut Writer methods (hence under the writer mutex) or during recovery before they are shared; Reader/Handle/Context only read", floor=14)
    prog = ctx.prog
    for b in shipped_bodies(prog):
        for bi, t in b.calls():
            if bi not in b.live_blocks():
                continue
            cn, rn = callee_names(t)
            if not cn or not (cn.startswith("dashmap::DashMap::") or cn.startswith("dashmap::")):
                continue
            if not cn.startswith("dashmap::DashMap::"):
                continue
            m = cn.split("::")[-1]
            f = fam_name(b)
            recv = arg_path(b, t, 0) or origin_str(arg_origin(b, t, 0))
            if m in DASHMAP_READ:
                r.ok(f, "DashMap::%s(%s) read" % (m, recv), where(b, bi))
            elif m in DASHMAP_MUT:
                good = in_allowed_family(prog, b, set(INDEX_MUTATOR_FAMILIES))
                if good and f.startswith("storage::bitcask::Writer::") and f in INDEX_MUTATOR_FAMILIES:
                    # the method must take &mut self (a private helper admitted through its
                    # callers is under the mutex because every caller is)
                    root = prog.bodies.get(b.root)
                    sig = prog.fnsigs.get(b.root)
                    good = bool(sig and sig["inputs"] and sig["inputs"][0].startswith("&mut "))
                r.add(f, "DashMap::%s(%s) mutation" % (m, recv), good, where(b, bi), INDEX_MUTATOR_FAMILIES.get(f, "index mutated outside the single-writer discipline (not a &mut Writer method, not recovery)"))
            else:
                r.unrec(f, "DashMap::%s(%s)" % (m, recv), where(b, bi), "DashMap method not classified as read or mutation")
    return r


# --------------------------------------------------------------------------------------------
# W4: abort-class constructs

ABORT_CALLS = {
    "std::process::exit",
    "std::process::abort",
    "core::intrinsics::abort",
    "std::intrinsics::abort",
    "std::alloc::handle_alloc_error",
    "alloc::alloc::handle_alloc_error",
    "libc::abort",
    "libc::exit",
    "libc::_exit",
    "std::panic::always_abort",
}


def w4_no_abort(ctx):
    r = RuleResult("W4", "no library body calls process::exit/abort (or an equivalent), and no build profile sets panic=abort: a panic in a connection task ends that task, not the process", floor=2)
    n = 0
    for tname, prog in ctx.all_programs():
        for b in shipped_bodies(prog):
            for bi, t in b.calls():
                n += 1
                cn, rn = callee_names(t)
                if cn in ABORT_CALLS or rn in ABORT_CALLS:
                    r.bad(fam_name(b), "call %s" % cn, where(b, bi), "process-terminating call in library code")
    r.ok("<crate>", "no process-terminating call among %d call sites" % n, "src/lib.rs")
    repo = os.environ.get("VERIF_REPO", "/repo")
    try:
        with open(os.path.join(repo, "Cargo.toml"), "rb") as f:
            man = tomllib.load(f)
        bad = [pn for pn, pv in (man.get("profile") or {}).items() if isinstance(pv, dict) and pv.get("panic") == "abort"]
        cfgp = os.path.join(repo, ".cargo", "config.toml")
        if os.path.exists(cfgp):
            with open(cfgp, "rb") as f:
                cfg = tomllib.load(f)
            bad += ["config:" + pn for pn, pv in (cfg.get("profile") or {}).items() if isinstance(pv, dict) and pv.get("panic") == "abort"]
            fl = " ".join((cfg.get("build") or {}).get("rustflags") or []) if isinstance((cfg.get("build") or {}).get("rustflags"), list) else str((cfg.get("build") or {}).get("rustflags") or "")
            if "panic=abort" in fl:
                bad.append("config:build.rustflags")
        r.add("Cargo.toml", "no profile with panic = \"abort\"", not bad, "Cargo.toml", "profiles: %s" % bad if bad else "")
    except Exception as e:
        r.unrec("Cargo.toml", "manifest parse", "Cargo.toml", str(e))
    return r


# --------------------------------------------------------------------------------------------
# W5: permit operations


def w5_permit_ops(ctx):
    r = RuleResult("W5", "permits are taken (and forgotten) only in Listener::listen; the only release is add_permits(1) in Handler's Drop; the semaphore is sized from conf.max_connections; nothing leaks a Handler", floor=5)
    prog = ctx.prog
    bodies = shipped_bodies(prog)
    for b in bodies:
        for bi, t in b.calls():
            if bi not in b.live_blocks():
                continue
            cn, rn = callee_names(t)
            if not cn:
                continue
            f = fam_name(b)
            if cn.startswith("tokio::sync::Semaphore::") or cn.startswith("tokio::sync::SemaphorePermit::") or cn.startswith("tokio::sync::OwnedSemaphorePermit::"):
                m = cn.split("::")[-1]
                if m in ("acquire", "acquire_many", "try_acquire", "try_acquire_many", "acquire_owned", "try_acquire_owned", "acquire_many_owned", "try_acquire_many_owned"):
                    good = in_allowed_family(prog, b, {"net::server::Listener::listen"}) and m == "acquire"
                    r.add(f, "Semaphore::%s" % m, good, where(b, bi), "" if good else "permit taken outside the accept loop (or not exactly one)")
                elif m == "forget":
                    r.add(f, "SemaphorePermit::forget", in_allowed_family(prog, b, {"net::server::Listener::listen"}), where(b, bi))
                elif m == "add_permits":
                    n = const_int(arg_origin(b, t, 1))
                    good = b.name == "<net::server::Handler<KV> as std::ops::Drop>::drop" and n == 1
                    r.add(f, "Semaphore::add_permits(%s)" % n, good, where(b, bi), "" if good else "permits are returned only by Handler's Drop, exactly one")
                elif m == "new":
                    p = arg_path(b, t, 0)
                    good = p is not None and p.endswith("max_connections")
                    r.add(f, "Semaphore::new(%s)" % (p or origin_str(arg_origin(b, t, 0))), good, where(b, bi), "" if good else "the limit must be the configured max_connections")
                elif m in ("available_permits", "const_new", "MAX_PERMITS"):
                    r.ok(f, "Semaphore::%s" % m, where(b, bi))
                elif m in ("close", "is_closed"):
                    r.bad(f, "Semaphore::%s" % m, where(b, bi), "closing the semaphore makes acquire fail and the accept loop panic")
                elif m in ("merge", "split", "semaphore", "num_permits"):
                    r.ok(f, "SemaphorePermit::%s" % m, where(b, bi))
                else:
                    r.unrec(f, "Semaphore API %s" % m, where(b, bi), "unclassified semaphore operation")
            elif cn in ("std::mem::forget", "std::mem::ManuallyDrop::new", "std::boxed::Box::leak", "core::mem::forget", "core::mem::ManuallyDrop::new", "std::rc::Rc::new", "std::sync::Arc::new"):
                tys = " ".join(t.get("arg_tys") or [])
                if "net::server::Handler<" in tys:
                    r.bad(f, "%s(Handler)" % cn.split("::")[-1], where(b, bi), "a leaked Handler never returns its permit")
    # Handler's Drop exists and is the Drop impl of the struct the task owns
    hd = [b for b in bodies if b.name == "<net::server::Handler<KV> as std::ops::Drop>::drop"]
    r.add("net::server::Handler", "has a Drop impl", len(hd) == 1, short_span(hd[0].span) if hd else "src/net/server.rs")
    return r


# --------------------------------------------------------------------------------------------
# W6: merge / sync entry points


def _dominated_by_true_edge(body, target_bb, cond_pred):
    """every path entry→target passes an edge whose fact is ('bool', origin satisfying cond_pred, True)"""
    good_edges = set()
    for bb in body.live_blocks():
        for e in body.succ[bb]:
            for f in body.edge_facts(e):
                if f[0] == "bool" and f[2] is True and cond_pred(f[1]):
                    good_edges.add((e.src, e.dst))
    if not good_edges:
        return False, None
    p = path_to(body, [0], lambda b: b == target_bb, blocked_edges=lambda e: (e.src, e.dst) in good_edges)
    return p is None, p


def w6_merge_sync_entry(ctx):
    r = RuleResult("W6", "Handle::merge is called only from merge_on_interval, only on the true edge of Context::can_merge; Writer::merge only from Handle::merge; Handle::sync only from sync_on_interval; Writer::sync only from Handle::sync", floor=4)
    prog = ctx.prog
    bodies = shipped_bodies(prog)
    # Writer::merge <- Handle::merge
    for b, bi, t in calls_in(bodies, "storage::bitcask::Writer::merge"):
        r.add(fam_name(b), "call Writer::merge", fam_name(b) == "storage::bitcask::Handle::merge", where(b, bi), "merge entered without Handle::merge's closed check")
    for b, bi, t in calls_in(bodies, "storage::bitcask::Writer::sync"):
        r.add(fam_name(b), "call Writer::sync", fam_name(b) == "storage::bitcask::Handle::sync", where(b, bi))
    for b, bi, t in calls_in(bodies, "storage::bitcask::Handle::sync"):
        r.add(fam_name(b), "call Handle::sync", fam_name(b) == "storage::bitcask::sync_on_interval", where(b, bi))
    hm = calls_in(bodies, "storage::bitcask::Handle::merge")
    for b, bi, t in hm:
        f = fam_name(b)
        if f != "storage::bitcask::merge_on_interval":
            r.bad(f, "call Handle::merge", where(b, bi), "a merge outside the policy-checked background task")
            continue
        # the call sits in the spawn_blocking closure: climb from the call site through the
        # creation sites of the enclosing closures until a level is dominated by can_merge's true edge
        pred = lambda o: bool(origin_mentions(o, lambda x: x[0] == "call" and x[1] and x[1].endswith("Context::can_merge")))
        cur_b, cur_bb = b, bi
        dom, wit, lvl = False, None, 0
        while True:
            dom, wit = _dominated_by_true_edge(cur_b, cur_bb, pred)
            if dom:
                break
            cs = creation_sites(prog, cur_b)
            if len(cs) != 1 or lvl > 6:
                break
            cur_b, cur_bb = cs[0]
            lvl += 1
        r.add(f, "Handle::merge behind can_merge() == true", dom, where(cur_b, cur_bb), "" if dom else "a path reaches the merge without the policy/trigger test being true", describe_path(cur_b, wit) if wit else None)
    if not hm:
        r.note("no call to Handle::merge at all (merging disabled?)")
    return r

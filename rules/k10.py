"""k10: rules about code that is NOT in the control flow of the main functions — derived and hand-written trait
impls, wire/disk record definitions, constants, defaults, build profile. Found necessary by seeded round 6
(faults placed where a reviewer of put/get/merge/serve would not look)."""
import json
import os
import re

from common import *
from engine import RuleResult


def _find_calls(b, suffix):
    out = []
    live = b.live_blocks()
    for bi, t in b.calls():
        if bi in live and not b.blocks[bi]["cleanup"] and (strip_generics(t.get("callee")) or "").endswith(suffix):
            out.append((bi, t))
    return out


def _order_by_reach(b, blocks):
    """order call blocks of a straight-line-with-early-exits body: a before c iff c is reachable from a and a not from c;
    returns None when two blocks are unordered (alternatives) or mutually reachable (a loop)"""
    rs = {x: reach(b, [x]) for x in blocks}
    import functools

    bad = []

    def cmp(x, y):
        if x == y:
            return 0
        xy = y in rs[x]
        yx = x in rs[y]
        if xy and not yx:
            return -1
        if yx and not xy:
            return 1
        bad.append((x, y))
        return 0

    out = sorted(blocks, key=functools.cmp_to_key(cmp))
    return None if bad else out


def _record_types(prog):
    """concrete record types handed to the log layer: written (LogWriter::append::<T>) and read (LogDir::read::<T,_>,
    LogIterator::next::<T>, LogReader::at::<T>); generic T of the log layer's own forwarding is skipped"""
    W, R = {}, {}
    for b in shipped_bodies(prog):
        live = b.live_blocks()
        for bi, t in b.calls():
            if bi not in live:
                continue
            cn = strip_generics(t.get("callee")) or ""
            ga = t.get("callee_args") or []
            if not ga:
                continue
            ty = ga[0]
            if not ("::" in ty):
                continue  # a type parameter of the forwarding layer
            if cn == "storage::bitcask::log::LogWriter::append":
                W.setdefault(ty, []).append((b, bi))
            elif cn in ("storage::bitcask::log::LogDir::read", "storage::bitcask::log::LogIterator::next", "storage::bitcask::log::LogReader::at"):
                R.setdefault(ty, []).append((b, bi))
    return W, R


def s24_record_symmetry(ctx):
    r = RuleResult(
        "S24",
        "what is written to a log file is what is read back: (a) the record types handed to LogWriter::append are exactly the record types asked of LogDir::read / LogIterator::next / LogReader::at; (b) for each of them the Serialize impl emits every field of the struct exactly once on every successful path, unconditionally and as the field itself, and the Deserialize impl's sequence visitor reads one element per emitted field, of that field's type, in the same order, and builds the struct from exactly those elements — bincode is positional and not self-describing, so a skipped, conditional, defaulted or converted field on one side shifts or loses every later byte (serde attributes such as skip, skip_serializing_if, with, default change precisely these derived bodies)",
        floor=8,
    )
    prog = ctx.prog
    W, R = _record_types(prog)
    for ty in sorted(set(W) | set(R)):
        b, bi = (W.get(ty) or R.get(ty))[0]
        r.add(ty.split("::")[-1], "record type is both written and read", ty in W and ty in R, where(b, bi), "written at %d site(s), read at %d" % (len(W.get(ty, [])), len(R.get(ty, []))) if ty in W and ty in R else ("written but never read" if ty in W else "read but never written: the bytes on disk were produced from another type"))
    for ty in sorted(set(W) | set(R)):
        short = ty.split("::")[-1]
        adt = prog.adts.get(ty)
        if adt is None or adt.get("is_enum"):
            r.unrec(short, "record type definition", "?", "not a crate-local struct")
            continue
        fields = adt["variants"][0]["fields"]
        fnames = [f[0] for f in fields]
        ftys = dict((f[0], f[1]) for f in fields)
        ser = [b for b in prog.bodies.values() if re.search(r"<impl .*Serialize for %s>::serialize$" % re.escape(ty), b.path) or re.search(r"^<%s as [A-Za-z0-9_:]*Serialize>::serialize$" % re.escape(ty), b.path)]
        vis = [b for b in prog.bodies.values() if re.search(r"<impl .*Deserialize<'de> for %s>::deserialize::.*::visit_seq$" % re.escape(ty), b.path)]
        if len(ser) != 1 or len(vis) != 1:
            r.unrec(short, "Serialize::serialize ×%d / Deserialize visit_seq ×%d" % (len(ser), len(vis)), "?", "expected one of each")
            continue
        sb, vb = ser[0], vis[0]
        r.analysed.append(sb.path)
        r.analysed.append(vb.path)
        # ---- serialising side
        sf = _find_calls(sb, "::SerializeStruct::serialize_field")
        other = [strip_generics(t.get("callee")).split("::")[-1] for bi, t in sb.calls() if bi in sb.live_blocks() and not sb.blocks[bi]["cleanup"] and re.search(r"::(skip_field|serialize_(?!struct$|field$)[a-z_0-9]+)$", strip_generics(t.get("callee")) or "")]
        ends = _find_calls(sb, "::SerializeStruct::end")
        order = _order_by_reach(sb, [bi for bi, _ in sf])
        if order is None or len(ends) != 1:
            r.unrec(short, "serialize: field emission order", short_span(sb.span), "serialize_field calls are not totally ordered or there is not exactly one end()")
            continue
        tmap = dict(sf)
        emitted = []
        shape_ok = True
        for bi in order:
            t = tmap[bi]
            ap = access_path(peel(arg_origin(sb, t, 2)))
            m = re.match(r"^self\.([A-Za-z0-9_]+)$", ap or "")
            if not m:
                shape_ok = False
                emitted.append("?")
                r.bad(short, "serialize: every emitted value is a field of the record itself", where(sb, bi), "the value emitted at this position is %s, not a field of self: what the reader decodes into the field is not what the writer held in it" % (ap or origin_str(arg_origin(sb, t, 2))[:80]))
                continue
            emitted.append(m.group(1))
            # unconditional: every path from entry to end() passes this call
            eb = ends[0][0]
            skip = eb in reach(sb, [0], blocked_blocks=(bi,)) if bi != 0 else False
            if skip:
                shape_ok = False
                r.bad(short, "serialize: field `%s` is emitted on every successful path" % m.group(1), where(sb, bi), "a path reaches end() without emitting it: the reader, which is positional, then decodes the next field's bytes in its place")
        if other:
            shape_ok = False
            r.bad(short, "serialize: nothing but serialize_field between serialize_struct and end", short_span(sb.span), "also calls %s" % sorted(set(other)))
        miss = [f for f in fnames if f not in emitted]
        dup = sorted({f for f in emitted if emitted.count(f) > 1 and f != "?"})
        r.add(short, "serialize: emits every field exactly once", shape_ok and not miss and not dup, short_span(sb.span), "emitted in order %s" % emitted if not miss and not dup else "never emitted: %s; emitted twice: %s — the field does not reach the disk (it reads back as a default or shifts the rest)" % (miss, dup))
        # ---- deserialising side
        ne = _find_calls(vb, "::SeqAccess::next_element")
        ne += _find_calls(vb, "::SeqAccess::next_element_seed")
        vorder = _order_by_reach(vb, [bi for bi, _ in ne])
        if vorder is None:
            r.unrec(short, "visit_seq: element order", short_span(vb.span), "next_element calls are not totally ordered")
            continue
        vt = dict(ne)
        # the struct literal(s) built from the elements
        lits = []
        for bb in sorted(vb.live_blocks()):
            if vb.blocks[bb]["cleanup"]:
                continue
            for st in vb.blocks[bb]["stmts"]:
                if st["k"] == "assign" and st["rv"]["k"] == "agg" and st["rv"].get("ak") == "adt" and strip_generics(st["rv"]["adt"]) == ty:
                    lits.append((bb, st))
        if len(lits) != 1:
            r.unrec(short, "visit_seq: struct literal ×%d" % len(lits), short_span(vb.span), "expected one")
            continue
        bb, st = lits[0]
        read_as = {}
        ok_all = True
        for fname, op in zip(st["rv"]["fields"], st["rv"]["ops"]):
            o = vb.origin_operand(op)
            srcs = origin_mentions(o, lambda y: y[0] == "call" and (y[1].endswith("::SeqAccess::next_element") or y[1].endswith("::SeqAccess::next_element_seed")))
            sites = sorted({y[3][1] for y in srcs if isinstance(y[3], tuple)})
            if len(sites) != 1 or sites[0] not in vt:
                ok_all = False
                r.bad(short, "visit_seq: field `%s` is one decoded element" % fname, where(vb, bb), "it is built from %s — not from exactly one element of the sequence (a skipped or defaulted field reads back as a constant whatever was stored)" % (origin_str(o)[:100]))
                continue
            read_as[fname] = sites[0]
            el_ty = (vt[sites[0]].get("callee_args") or [None, None, None])[-1]
            good = el_ty == ftys.get(fname)
            if not good:
                ok_all = False
            r.add(short, "visit_seq: field `%s` is decoded as its own type" % fname, good, where(vb, sites[0]), "%s" % el_ty if good else "decoded as %s but the field (and what the writer emitted) is %s" % (el_ty, ftys.get(fname)))
        if not ok_all:
            continue
        pos_of = {bi: i for i, bi in enumerate(vorder)}
        decoded = [None] * len(vorder)
        for fname, site in read_as.items():
            decoded[pos_of[site]] = fname
        r.add(short, "reader decodes the fields in the order the writer emits them", decoded == emitted, short_span(vb.span), "order %s on both sides" % emitted if decoded == emitted else "writer emits %s, reader decodes %s: bincode is positional, every field after the first difference is read from the wrong bytes" % (emitted, decoded))
    return r


# ---------------------------------------------------------------------------------------------
# configuration surface: the shipped configuration file and the environment source agree with the decoders


def _const_strings(b):
    keys = []

    def walk(x):
        if isinstance(x, dict):
            if x.get("k") == "const" and "bytes" in x:
                keys.append(bytes.fromhex(x["bytes"]).decode("utf8", "replace"))
            for v in x.values():
                walk(v)
        elif isinstance(x, list):
            for v in x:
                walk(v)

    walk(b.rec["blocks"])
    return keys


def _accepted(prog, ty):
    """keys the Deserialize impl of `ty` accepts: (own keys — field names of a struct / variant names of an enum,
    keys of the fields of its struct variants)"""
    own, inner = None, []
    for b in prog.bodies.values():
        if not b.path.endswith("::visit_str"):
            continue
        if ("Deserialize<'de> for %s>::deserialize::__FieldVisitor as " % ty) in b.path and "visit_enum" not in b.path:
            own = _const_strings(b)
        elif ("Deserialize<'de> for %s>::deserialize::__Visitor<'de> as " % ty) in b.path and "::visit_enum::__FieldVisitor as " in b.path:
            inner += _const_strings(b)
    return own, inner


def _conf_types(prog):
    out = set()
    todo = ["conf::Configuration"]
    while todo:
        t = todo.pop()
        if t in out or t not in prog.adts:
            continue
        out.add(t)
        for v in prog.adts[t]["variants"]:
            for _, fty in v["fields"]:
                for cand in re.findall(r"[A-Za-z_][A-Za-z0-9_]*(?:::[A-Za-z_][A-Za-z0-9_]*)+", fty):
                    todo.append(cand)
    return out


def _shipped_config_keys(repo):
    """(key path, value or None, line) for every assignment in the shipped config.toml, including the commented-out
    alternatives it documents (`#storage.sync = "always"`)"""
    import tomllib

    p = os.path.join(repo, "config.toml")
    if not os.path.exists(p):
        return None
    out = []
    for i, ln in enumerate(open(p, encoding="utf8", errors="replace"), 1):
        m = re.match(r"^\s*#?\s*((?:[A-Za-z_][A-Za-z0-9_]*)(?:\.[A-Za-z_][A-Za-z0-9_]*)+)\s*=\s*(.+?)\s*$", ln)
        if not m:
            continue
        try:
            val = tomllib.loads("v = %s" % m.group(2))["v"]
        except Exception:
            continue
        out.append((m.group(1).split("."), val, i))
    return out


def s12c_shipped_config_agrees(ctx):
    r = RuleResult(
        "S12c",
        "the configuration the server binary loads by default (config.toml at the repository root, read through conf::Configuration::get) and the structs it is decoded into agree: every key path the file sets or documents as an alternative resolves, segment by segment from conf::Configuration, to a key the derived decoder of the type at that level accepts, and a string given for an enum-typed setting is one of its accepted variant names. The structs carry #[serde(default)], so a key the decoder does not know is dropped without a word: `storage.sync = \"always\"` in the file and SyncStrategy::None in effect after a field rename",
        floor=15,
    )
    prog = ctx.prog
    repo = os.environ.get("VERIF_REPO", "/repo")
    keys = _shipped_config_keys(repo)
    if keys is None:
        r.note("no config.toml at the repository root: nothing to compare (the rule then has no instances and its floor fails closed)")
        return r
    for path, val, line in keys:
        ty = "conf::Configuration"
        ok, why = True, ""
        walked = []
        i = 0
        while i < len(path):
            seg = path[i]
            adt = prog.adts.get(ty)
            if adt is None:
                ok, why = False, "`%s` continues below `%s`, which is a plain value of type %s" % (".".join(path), ".".join(walked), ty)
                break
            own, inner = _accepted(prog, ty)
            if own is None:
                r.unrec(".".join(path), "decoder of %s" % ty, "config.toml:%d" % line, "no derived field visitor found")
                ok = None
                break
            if seg not in own:
                ok, why = False, "`%s` is not a key the decoder of %s accepts (accepted: %s): the setting is silently ignored" % (seg, ty.split("::")[-1], own)
                break
            walked.append(seg)
            if adt.get("is_enum"):
                # seg names a variant; the remaining segments, if any, are fields of that struct variant / the newtype payload
                rest = path[i + 1 :]
                bad = [s for s in rest if s not in inner]
                if bad:
                    ok, why = False, "`%s` is not a field of a variant of %s (accepted: %s)" % (bad[0], ty.split("::")[-1], inner)
                ty = None
                break
            fty = dict((f[0], f[1]) for f in adt["variants"][0]["fields"]).get(seg)
            if fty is None:
                ty = None
                break
            m = re.findall(r"[A-Za-z_][A-Za-z0-9_]*(?:::[A-Za-z_][A-Za-z0-9_]*)+", fty)
            ty = next((c for c in m if c in prog.adts), fty)
            i += 1
        if ok is None:
            continue
        if ok and ty in prog.adts and prog.adts[ty].get("is_enum") and isinstance(val, str):
            own, _ = _accepted(prog, ty)
            if own is not None and val not in own:
                ok, why = False, "the value \"%s\" is not a variant name the decoder of %s accepts (accepted: %s)" % (val, ty.split("::")[-1], own)
        r.add(".".join(path), "= %s resolves to a setting" % json.dumps(val), ok, "config.toml:%d" % line, why)
    return r


def s12d_env_separator(ctx):
    r = RuleResult(
        "S12d",
        "every setting can be named in the environment: the separator given to config::Environment (which splits a variable name into the key path) is non-empty and occurs inside no key the configuration decoders accept — with \"_\" as the separator BITCASK_NET_MAX_CONNECTIONS names net.max.connections, an unknown key that #[serde(default)] drops, and the limit configured there is not the limit in force",
        floor=1,
    )
    prog = ctx.prog
    types = _conf_types(prog)
    allkeys = set()
    for t in types:
        own, inner = _accepted(prog, t)
        for k in (own or []) + inner:
            allkeys.add(k)
    n = 0
    for b in shipped_bodies(prog):
        live = b.live_blocks()
        for bi, t in b.calls():
            if bi not in live:
                continue
            cn = strip_generics(t.get("callee")) or ""
            if not re.search(r"(^|::)Environment::separator$", cn) or not cn.startswith("config::"):
                continue
            n += 1
            a = t["args"][1] if len(t["args"]) > 1 else None
            sep = None
            o = peel(arg_origin(b, t, 1))
            if a is not None and a.get("k") == "const" and "bytes" in a:
                sep = bytes.fromhex(a["bytes"]).decode("utf8", "replace")
            elif isinstance(o, tuple) and o and o[0] == "const" and isinstance(o[1], dict) and "bytes" in o[1]:
                sep = bytes.fromhex(o[1]["bytes"]).decode("utf8", "replace")
            if sep is None:
                r.unrec(fam_name(b), "Environment::separator argument", where(b, bi), "not a string literal: %s" % origin_str(o)[:80])
                continue
            hit = sorted(k for k in allkeys if sep and sep in k)
            r.add(fam_name(b), "the environment separator splits no key name", bool(sep) and not hit, where(b, bi), "separator \"%s\", %d keys" % (sep, len(allkeys)) if sep and not hit else "separator \"%s\" occurs inside the key(s) %s: these settings cannot be given in the environment, what is given is silently ignored" % (sep, hit[:8]))
    if n == 0:
        r.note("no config::Environment source with a separator: nested settings cannot be named in the environment at all")
    return r


# ---------------------------------------------------------------------------------------------
# N2b: the mapped reader refreshes its mapping for every segment that ENDS beyond it


def n2b_remap_guard(ctx):
    r = RuleResult(
        "N2b",
        "a record that was appended after the reader mapped the file is still found: in LogReader (at / copy_raw and what they share) the file is mapped again either unconditionally or under a test that compares the END of the requested segment — a value that depends on both `pos` and `len` — with the length of the current mapping, on the side `end > mapped length` (or a superset of it). A test on the start alone refreshes too rarely: a reader that mapped the active file between the two write calls of one large record sees the start inside its mapping, does not refresh, and reports an acknowledged record as being beyond the end of the file (the no-panic half of this is N2)",
        floor=1,
    )
    prog = ctx.prog
    fam = [b for b in shipped_bodies(prog) if strip_generics(b.root).startswith("storage::bitcask::log::LogReader::") and not strip_generics(b.root).endswith("::new")]
    if not fam:
        r.unrec("storage::bitcask::log::LogReader", "methods", "src/storage/bitcask/log.rs", "none found")
        return r
    sites = []
    for b in fam:
        for bi, t in b.calls():
            if bi in b.live_blocks() and not b.blocks[bi]["cleanup"] and re.search(r"^memmap2::(MmapOptions|Mmap)::map(_copy_read_only|_raw)?$", strip_generics(t.get("callee")) or ""):
                sites.append((b, bi))
    if not sites:
        r.bad("storage::bitcask::log::LogReader", "the mapping is refreshed somewhere on the read path", "src/storage/bitcask/log.rs", "no method of LogReader other than new() maps the file: a file that grew after it was mapped is read through the old mapping for ever")
        return r

    def mentions_param(b, o, name):
        return bool(origin_mentions(o, lambda y: y == ("arg", name)))

    def is_maplen(o):
        return bool(origin_mentions(o, lambda y: (y[0] == "call" and (y[1].endswith("slice::len") or y[1].endswith("::len"))))) and "mmap" in origin_str(o)

    for b, bi in sites:
        f = fam_name(b)
        rets = [x for x in b.live_blocks() if b.blocks[x]["term"]["k"] == "return" and not b.blocks[x]["cleanup"]]
        ctrl = []
        for s in sorted(b.live_blocks()):
            if b.blocks[s]["cleanup"]:
                continue
            info = b.switch_info(s)
            if not info or info["kind"] != "bool":
                continue
            if bi not in reach(b, [s]):
                continue
            sides = {}
            for dst, labels in info["arms"].items():
                rs = reach(b, [dst])
                sides[dst] = (bi in rs, any(x in reach(b, [dst], blocked_blocks=(bi,)) for x in rets))
            to = [d for d, (hits, _) in sides.items() if hits]
            by = [d for d, (hits, bypass) in sides.items() if not hits and bypass]
            if len(to) == 1 and by:
                ctrl.append((s, info, to[0]))
        if not ctrl:
            r.ok(f, "the file is mapped again unconditionally", where(b, bi), "no test decides whether this call happens")
            continue
        for s, info, to in ctrl:
            cmp, neg = bool_switch_comparison(b, s)
            if cmp is None:
                r.unrec(f, "test that guards the re-mapping", where(b, s), "not a comparison: %s" % origin_str(info["on"])[:100])
                continue
            op, lhs, rhs = cmp[1], cmp[2], cmp[3]
            val_to = info["arms"][to][0]  # the switch value on the edge towards the re-mapping
            holds = (val_to is True) != neg  # does the comparison hold on that edge?
            if not holds:
                op = {"Gt": "Le", "Ge": "Lt", "Lt": "Ge", "Le": "Gt", "Eq": "Ne", "Ne": "Eq"}[op]
            if is_maplen(rhs) and not is_maplen(lhs):
                x = lhs
            elif is_maplen(lhs) and not is_maplen(rhs):
                x = rhs
                op = {"Gt": "Lt", "Ge": "Le", "Lt": "Gt", "Le": "Ge", "Eq": "Eq", "Ne": "Ne"}[op]
            else:
                r.unrec(f, "test that guards the re-mapping", where(b, s), "neither side is the length of the mapping: %s" % origin_str(cmp)[:100])
                continue
            # now: the file is re-mapped when  x <op> mapped length
            xo = expand(prog, x)
            both = all(mentions_param(b, xo, p) or mentions_param(b, x, p) for p in ("len", "pos"))
            good_dir = op in ("Gt", "Ge", "Ne")
            ok = both and good_dir
            why = "re-mapped when %s %s mapped length" % (origin_str(x)[:60], op)
            if not both:
                why += " — the compared value does not depend on both `pos` and `len`, so it is not the end of the segment: a segment that starts inside the mapping and ends beyond it is looked up in the stale mapping and reported as beyond the end of the file"
            elif not good_dir:
                why += " — the test refreshes when the segment is INSIDE the mapping"
            r.add(f, "the re-mapping is decided by the segment's end against the mapped length", ok, where(b, s), why)
    return r


# ---------------------------------------------------------------------------------------------
# V9: the parser imposes no size limit of its own; A1: allocation requests on the receive path


def v9_no_size_limit(ctx):
    r = RuleResult(
        "V9",
        "a well-formed frame is not rejected for its size: in Frame::check / Frame::parse (and their nested forms) a length announced on the wire (a value that comes from get_integer) is compared only with what is left in the buffer (Buf::remaining / a slice length) or with the constants 0 and -1 (the sign and the null marker) — a comparison with any other bound is a size limit the protocol does not have: SET with a larger value gets no answer and the connection is closed",
        floor=1,
    )
    prog = ctx.prog
    fam = [b for b in shipped_bodies(prog) if strip_generics(b.root).startswith("net::frame::Frame::") and not b.rec.get("is_test")]
    n = 0

    def wire_len(o):
        return bool(origin_mentions(o, lambda y: y[0] == "call" and y[1] and y[1].endswith("net::frame::get_integer")))

    def buffer_bound(o):
        return bool(origin_mentions(o, lambda y: y[0] == "call" and y[1] and (y[1].endswith("::remaining") or y[1].endswith("slice::len") or y[1].endswith("::len"))))

    for b in fam:
        for s in sorted(b.live_blocks()):
            if b.blocks[s]["cleanup"]:
                continue
            info = b.switch_info(s)
            if not info or info["kind"] != "bool":
                continue
            if "macro" in (b.blocks[s]["term"].get("exp") or ""):
                continue
            cmp, neg = bool_switch_comparison(b, s)
            if cmp is None:
                continue
            lhs, rhs = expand(prog, cmp[2]), expand(prog, cmp[3])
            if not (wire_len(lhs) or wire_len(rhs)):
                continue
            other = rhs if wire_len(lhs) and not wire_len(rhs) else (lhs if wire_len(rhs) and not wire_len(lhs) else None)
            n += 1
            if other is None:
                ok, why = buffer_bound(lhs) or buffer_bound(rhs), "both sides derive from announced lengths"
            else:
                c = const_int(other)
                ok = buffer_bound(other) or c in (0, -1)
                why = "compared with %s" % origin_str(other)[:80]
            r.add(fam_name(b), "announced length compared only with the buffer or 0/-1", ok, where(b, s), why if ok else why + " — a bound that is neither the bytes at hand nor the sign/null marker: frames beyond it are refused although they are well-formed")
    return r


A1_SIZED = ("reserve", "reserve_exact", "try_reserve", "try_reserve_exact", "with_capacity", "with_capacity_in", "resize", "from_elem", "repeat", "set_len", "zeroed")


def a1_receive_allocations(ctx):
    r = RuleResult(
        "A1",
        "no allocation on the network path is sized by the peer: in net::connection, net::command, net::server, net::client and shutdown every call that asks for memory of an explicit size (reserve*, with_capacity, resize, vec![x; n], repeat) passes a compile-time constant, the length of something already in memory (len()/remaining(), possibly under min) — never a number computed from cursor positions or announced lengths. (Inside Frame::check/parse the same is decided by N1-alloc.) One header announcing an absurd length must not make the process ask the allocator for it: a failed allocation aborts the whole server, not one connection",
        floor=1,
    )
    prog = ctx.prog
    mods = ("net::connection::", "net::command::", "net::server::", "net::client::", "shutdown::")
    for b in shipped_bodies(prog):
        root = strip_generics(b.root)
        if not root.startswith(mods):
            continue
        live = b.live_blocks()
        for bi, t in b.calls():
            if bi not in live or b.blocks[bi]["cleanup"]:
                continue
            if "macro" in (t.get("fn_exp") or "") and "vec" not in (t.get("fn_exp") or ""):
                continue
            cn = strip_generics(t.get("callee")) or ""
            last = cn.split("::")[-1]
            if last not in A1_SIZED or cn.startswith("net::") or cn.startswith("storage::"):
                continue
            # the size argument: the last integer-typed argument
            tys = t.get("arg_tys") or []
            idx = [i for i, ty in enumerate(tys) if ty in ("usize", "u64", "u32")]
            if not idx:
                continue
            i = idx[-1]
            o = peel(expand(prog, arg_origin(b, t, i)))
            c = const_int(o)

            def in_memory(x):
                x = peel(x)
                if x[0] == "call" and x[1] and (x[1].endswith("::len") or x[1].endswith("::remaining") or x[1].endswith("::capacity")):
                    return True
                if x[0] == "call" and x[1] and x[1].endswith("::min"):
                    return any(in_memory(a) or const_int(a) is not None for a in x[2])
                return False

            def const_expr(x):
                x = peel(x)
                if const_int(x) is not None:
                    return True
                if x[0] in ("field", "cast"):
                    return const_expr(x[1])
                if x[0] == "bin":
                    return const_expr(x[2]) and const_expr(x[3])
                return False

            if c is None and const_expr(o):
                c = origin_str(o)[:60]
            ok = c is not None or in_memory(o)
            r.add(fam_name(b), "%s size is a constant or the length of data in memory" % last, ok, where(b, bi), ("constant %s" % c if c is not None else origin_str(o)[:80]) if ok else "sized by %s — a value the peer controls (announced length / cursor position): a 20-byte header can make the server request terabytes, and a failed allocation aborts the process" % origin_str(o)[:100])
    return r


# ---------------------------------------------------------------------------------------------
# T2: offsets, lengths, ids and counters of the storage layer are never narrowed

_INT_BITS = {"u8": 8, "i8": 8, "u16": 16, "i16": 16, "u32": 32, "i32": 32, "u64": 64, "i64": 64, "usize": 64, "isize": 64, "u128": 128, "i128": 128}


def t2_no_narrowing(ctx):
    r = RuleResult(
        "T2",
        "the storage layer never narrows an integer: in storage::* no `as` cast written in the source converts an integer to a narrower integer type (u64→u32, usize→u32, i64→i32 …), and the counters of LogStatistics and the location fields of KeyDirEntry / LogIndex / HintFileEntry are 64 bits wide like the lengths and offsets they hold — a narrower counter or a truncating cast is invisible until one file carries more than 4 GiB of (dead) data, then the accounting wraps or panics and positions alias",
        floor=6,
    )
    prog = ctx.prog
    n = 0
    for b in shipped_bodies(prog):
        if "storage::" not in b.root:
            continue
        locs = b.rec.get("locals") or []
        for bi in sorted(b.live_blocks()):
            for st in b.blocks[bi]["stmts"]:
                if st["k"] != "assign" or st["rv"]["k"] != "cast" or st["rv"].get("ck") != "IntToInt":
                    continue
                if "macro" in (st.get("exp") or "") or "desugar" in (st.get("exp") or ""):
                    continue
                to = st["rv"].get("ty")
                op = st["rv"]["op"]
                frm = op.get("ty") if op.get("k") == "const" else None
                if frm is None and op.get("k") in ("copy", "move") and not op["pl"]["p"] and op["pl"]["l"] < len(locs):
                    frm = locs[op["pl"]["l"]]["ty"]
                if to not in _INT_BITS:
                    continue
                if frm not in _INT_BITS:
                    r.unrec(fam_name(b), "source type of an integer cast to %s" % to, short_span(st.get("span")), "cannot tell the width of %s" % frm)
                    continue
                narrow = _INT_BITS[to] < _INT_BITS[frm]
                r.add(fam_name(b), "cast %s → %s keeps every value" % (frm, to), not narrow, short_span(st.get("span")), "" if not narrow else "a truncating cast: values above %d bits are silently cut" % _INT_BITS[to])
    WIDE = {
        "storage::bitcask::log::LogStatistics": ("live_keys", "dead_keys", "dead_bytes"),
        "storage::bitcask::KeyDirEntry": ("fileid", "len", "pos"),
        "storage::bitcask::log::LogIndex": ("len", "pos"),
        "storage::bitcask::HintFileEntry": ("len", "pos"),
    }
    for ty, names in WIDE.items():
        adt = prog.adts.get(ty)
        if adt is None:
            r.unrec(ty.split("::")[-1], "definition", "?", "type not found")
            continue
        for fname, fty in adt["variants"][0]["fields"]:
            if fty in _INT_BITS and (fname in names or fname.endswith(("_bytes", "_keys", "len", "pos", "fileid"))):
                r.add(ty.split("::")[-1], "field `%s` is 64 bits wide" % fname, _INT_BITS[fty] >= 64, "src/storage", "%s" % fty if _INT_BITS[fty] >= 64 else "%s: narrower than the u64 lengths and offsets it accumulates or holds" % fty)
    return r


# ---------------------------------------------------------------------------------------------
# P16e: a merge that fails after it re-pointed keys still leaves the active file above its outputs


def p16e_failed_merge_rotates(ctx):
    import k2m
    from k2 import edge_set

    r = RuleResult(
        "P16e",
        "a merge that gives up after it has re-pointed index entries to an output file does not return — with Ok or with Err — while the active file still has an id BELOW that output: later acknowledged writes would go to the lower id, recovery replays files in ascending id order, so the output's (older) copy of an overwritten key is replayed after the overwrite and wins. Checked as: from every assignment that re-points an entry's fileid in Writer::merge, no `return` is reachable without passing a successful Writer::new_active_datafile (P16 demands this of the Ok returns only)",
        floor=1,
    )
    m = k2m._model(ctx)
    b = m.b
    f = fam_name(b)
    if len(m.rotates) != 1:
        r.unrec(f, "new_active_datafile ×%d" % len(m.rotates), short_span(b.span), "expected one rotation")
        return r
    rbb, rt = m.rotates[0]
    oe, ee, _ = try_edges(b, rbb)
    rok = edge_set(oe)
    sites = sorted({bb for bb, fld, o, st in m.kd_writes if fld == "fileid"})
    if not sites:
        r.unrec(f, "re-point of an entry's fileid", short_span(b.span), "not found")
        return r
    for sbb in sites:
        classes = {}
        for c, d, rb in ret_classes(b, sbb, lambda e: e.kind == "unwind" or (e.src, e.dst) in rok):
            if c == "pass" and d == (rbb, "T"):
                continue
            classes.setdefault(c, rb)
        bad = {c: rb for c, rb in classes.items() if c != "unwind"}
        pth = None
        if bad:
            goal = set(bad.values())
            pth = path_to(b, [sbb], lambda x: x in goal, blocked_edges=lambda e: e.kind == "unwind" or (e.src, e.dst) in rok)
        r.add(f, "every return after a re-point rotated the active file above the outputs", not bad, where(b, sbb), "" if not bad else "a return of kind %s is reachable after the re-point without new_active_datafile: the writer keeps appending to an id below the merge output (an acknowledged overwrite made after the failed merge reverts on reopen)" % sorted(bad), describe_path(b, pth) if pth else None)
    return r


def s13c_counters_start_at_zero(ctx):
    r = RuleResult(
        "S13c",
        "per-file accounting starts from nothing: LogStatistics::default() — what `stats.entry(id).or_default()` creates the first time a file is booked — builds every counter as zero (the derived impl, or a literal whose fields are 0 / integer defaults). Every later figure is this start value plus the booked events, so a non-zero start is an error in every file's statistics that no event rule can see",
        floor=3,
    )
    prog = ctx.prog
    ty = "storage::bitcask::log::LogStatistics"
    bs = [b for b in prog.bodies.values() if b.path == "<%s as std::default::Default>::default" % ty]
    if len(bs) != 1:
        r.unrec("LogStatistics", "Default::default ×%d" % len(bs), "src/storage/bitcask/log.rs", "expected one impl (derived or written)")
        return r
    b = bs[0]
    lits = []
    for bb in sorted(b.live_blocks()):
        if b.blocks[bb]["cleanup"]:
            continue
        for st in b.blocks[bb]["stmts"]:
            if st["k"] == "assign" and st["rv"]["k"] == "agg" and st["rv"].get("ak") == "adt" and strip_generics(st["rv"]["adt"]) == ty:
                lits.append((bb, st))
    if len(lits) != 1:
        r.unrec("LogStatistics", "struct literal in default() ×%d" % len(lits), short_span(b.span), "expected one")
        return r
    bb, st = lits[0]
    for fname, op in zip(st["rv"]["fields"], st["rv"]["ops"]):
        o = peel(expand(prog, b.origin_operand(op)))
        z = const_int(o) == 0 or (o[0] == "call" and o[1] and o[1].endswith("Default::default"))
        r.add("LogStatistics", "default().%s is zero" % fname, z, where(b, bb), "" if z else "starts at %s" % origin_str(o)[:60])
    return r


# ---------------------------------------------------------------------------------------------
# U1: a setting named in milliseconds is used as milliseconds

_UNIT_SUFFIX = (("_ms", "from_millis"), ("Ms", "from_millis"), ("_millis", "from_millis"), ("_secs", "from_secs"), ("_sec", "from_secs"), ("Secs", "from_secs"), ("_us", "from_micros"), ("_micros", "from_micros"), ("_ns", "from_nanos"), ("_nanos", "from_nanos"))


def u1_duration_units(ctx):
    r = RuleResult(
        "U1",
        "a duration is built in the unit its source is named in: wherever a value read from a field or enum variant whose name carries a unit (…_ms, IntervalMs, …_secs) reaches a std::time::Duration constructor, it is the constructor of that unit (from_millis for _ms). check_interval_ms = 180000 handed to from_secs is a merge check every 50 hours; interval_ms = 500 handed to from_secs is a sync every 8 minutes — the periodic task exists, runs and is raced with shutdown (P15), it just never fires in practice",
        floor=2,
    )
    prog = ctx.prog
    for b in shipped_bodies(prog):
        live = b.live_blocks()
        for bi, t in b.calls():
            if bi not in live or b.blocks[bi]["cleanup"]:
                continue
            cn = strip_generics(t.get("callee")) or ""
            m = re.match(r"^(std|core)::time::Duration::(from_secs|from_millis|from_micros|from_nanos|from_secs_f64|from_secs_f32)$", cn)
            if not m:
                continue
            ctor = m.group(2)
            o = expand(prog, arg_origin(b, t, 0))
            names = set()
            for y in origin_mentions(o, lambda y: y[0] in ("field", "variant") and isinstance(y[2], str)):
                names.add(y[2])
            ap = resolved_access_path(prog, b, peel(o)) or ""
            for seg in re.split(r"[.:]", ap):
                if seg:
                    names.add(seg)
            want = None
            src = None
            for nm in sorted(names):
                for suf, c in _UNIT_SUFFIX:
                    if nm.endswith(suf):
                        want, src = c, nm
                        break
                if want:
                    break
            if want is None:
                continue
            ok = ctor == want or (want == "from_secs" and ctor.startswith("from_secs"))
            r.add(fam_name(b), "Duration from `%s` uses the unit in its name" % src, ok, where(b, bi), "%s" % ctor if ok else "`%s` is named in another unit than Duration::%s takes: the period is off by orders of magnitude" % (src, ctor))
    return r


def o1b_listing_follows_links(ctx):
    r = RuleResult(
        "O1b",
        "which directory entries count as data files does not depend on how they are stored: the listing in utils::sorted_fileids tests file-ness through the path (Path::is_file / fs::metadata, which follow symbolic links), not through DirEntry::file_type, DirEntry::metadata or fs::symlink_metadata (which describe the link itself) — a closed segment that was moved to another volume and linked back is otherwise skipped by recovery: its keys are gone and it has no statistics",
        floor=1,
    )
    prog = ctx.prog
    fam = prog.family("storage::bitcask::utils::sorted_fileids")
    if not fam:
        r.unrec("storage::bitcask::utils::sorted_fileids", "listing function", "src/storage/bitcask/utils.rs", "not found")
        return r
    DENY = ("std::fs::DirEntry::file_type", "std::fs::DirEntry::metadata", "std::fs::symlink_metadata", "std::path::Path::symlink_metadata", "std::path::Path::is_symlink", "std::fs::FileType::is_symlink")
    n = 0
    for b in fam:
        for bi, t in b.calls():
            if bi not in b.live_blocks():
                continue
            cn = strip_generics(t.get("callee")) or ""
            if cn in DENY:
                n += 1
                r.bad(fam_name(b), "file-ness is tested through the path, following links", where(b, bi), "%s describes the directory entry itself: a data file reached through a symbolic link is not listed" % cn)
    if n == 0:
        r.ok("storage::bitcask::utils::sorted_fileids", "file-ness is tested through the path, following links", "src/storage/bitcask/utils.rs", "no link-level file-type call in the listing")
    return r


def s19b_key_transparency(ctx):
    r = RuleResult(
        "S19b",
        "a key is the bytes the client sent: every conversion into net::command::Utf8Bytes (TryFrom<Bytes>, From<String>, From<&str>) wraps its argument unchanged — the wrapped Bytes is the parameter itself (or Bytes::from of the parameter / its to_string), never the result of trimming, slicing, case folding or re-encoding; and AsRef/AsMut hand out the wrapped field. Two keys that differ in one byte are two keys: a normalisation in the wrapper makes GET return another key's value and DEL count wrongly",
        floor=3,
    )
    prog = ctx.prog
    ty = "net::command::Utf8Bytes"
    ALLOWED_WRAP = ("std::convert::From::from", "std::string::ToString::to_string", "std::convert::Into::into", "bytes::Bytes::from", "std::borrow::ToOwned::to_owned", "bytes::Bytes::copy_from_slice", "str::as_bytes", "core::str::<impl str>::as_bytes", "std::string::String::into_bytes", "std::clone::Clone::clone")
    bodies = [b for b in prog.bodies.values() if re.match(r"^<%s as std::convert::(TryFrom|From)<.*>>::(try_from|from)$" % re.escape(ty), b.path)]
    if not bodies:
        r.unrec("Utf8Bytes", "conversions into the key type", "src/net/command.rs", "none found")
        return r
    for b in sorted(bodies, key=lambda x: x.path):
        pname = (b.params or ["value"])[0]
        lits = []
        for bb in sorted(b.live_blocks()):
            if b.blocks[bb]["cleanup"]:
                continue
            for st in b.blocks[bb]["stmts"]:
                if st["k"] == "assign" and st["rv"]["k"] == "agg" and st["rv"].get("ak") == "adt" and strip_generics(st["rv"]["adt"]) == ty:
                    lits.append((bb, st))
        if not lits:
            r.unrec(b.path.split(" as ")[-1], "construction of the key", short_span(b.span), "no Utf8Bytes literal in the conversion")
            continue
        for bb, st in lits:
            o = expand(prog, b.origin_operand(st["rv"]["ops"][0]))
            # peel the allowed re-wrappings; what remains must be the parameter
            x = peel(o)
            hops = 0
            while x[0] == "call" and x[1] in ALLOWED_WRAP and x[2] and hops < 6:
                x = peel(x[2][0])
                hops += 1
            ok = x == ("arg", pname)
            r.add(b.path.split("convert::")[-1].rstrip(">").replace(">::", "::"), "the key wraps the argument unchanged", ok, where(b, bb), "" if ok else "the wrapped bytes are %s, not the argument: keys that differ in the bytes this drops or rewrites collapse into one" % origin_str(o)[:90])
    return r

"""K2 — ordering / pairing / typestate rules on paths (storage side)."""
from common import *
from engine import RuleResult
from pathauto import explore, witness


def edge_set(edges):
    return {(e.src, e.dst) for e in (edges or [])}


# Callees that cannot unwind (read from their source: they contain no panic path). MIR gives every
# call an unwind edge; following these would be an infeasible path.
NOPANIC_RESOLVED = {
    "<std::sync::Arc<T, A> as std::ops::Deref>::deref",
    "<std::boxed::Box<T, A> as std::ops::Deref>::deref",
    "<std::boxed::Box<T, A> as std::ops::DerefMut>::deref_mut",
    "<std::pin::Pin<Ptr> as std::ops::Deref>::deref",
    "<std::pin::Pin<Ptr> as std::ops::DerefMut>::deref_mut",
    "<std::vec::Vec<T, A> as std::ops::Deref>::deref",
    "<std::string::String as std::ops::Deref>::deref",
    "<std::path::PathBuf as std::ops::Deref>::deref",
    "std::pin::Pin::<Ptr>::new_unchecked",
    "std::pin::Pin::<Ptr>::new",
    "std::pin::Pin::<&'a mut T>::get_unchecked_mut",
    "std::pin::Pin::<Ptr>::as_mut",
    "std::future::get_context",
    "<F as std::future::IntoFuture>::into_future",
    "std::option::Option::<T>::take",
    "std::option::Option::<T>::is_some",
    "std::option::Option::<T>::is_none",
    "std::option::Option::<T>::as_ref",
    "std::option::Option::<T>::as_mut",
    "std::mem::replace",
    "std::mem::take",
    "std::mem::swap",
    "crossbeam::atomic::AtomicCell::<T>::load",
    "crossbeam::atomic::AtomicCell::<T>::store",
    "shutdown::Shutdown::is_shutdown",
    "std::path::PathBuf::as_path",
    "<std::path::PathBuf as std::convert::AsRef<std::path::Path>>::as_ref",
    "<std::path::Path as std::convert::AsRef<std::path::Path>>::as_ref",
    "<&T as std::convert::AsRef<U>>::as_ref",
    "std::io::Cursor::<T>::position",
    "std::io::Cursor::<T>::set_position",
    "std::io::Cursor::<T>::get_ref",
    "std::io::Cursor::<T>::new",
}


def call_cannot_unwind(t):
    return t.get("resolved") in NOPANIC_RESOLVED


# Destructors that contain no panic path (read from the library source): BufWriter's Drop flushes
# and discards the result, OwnedFd's closes, Vec/RawVec of a plain type free memory. A drop whose
# destructor list (collected by the driver through all fields) is within this set cannot unwind.
NOPANIC_DTORS = (
    "std::io::BufWriter<std::fs::File>",
    "std::os::fd::OwnedFd",
    "std::vec::Vec<u8>",
    "alloc::raw_vec::RawVec<u8>",
)


def drop_cannot_unwind(t):
    ds = t.get("dtors")
    return ds is not None and all(d in NOPANIC_DTORS for d in ds)


def real_unwind(body):
    """follow-filter: skip the unwind edge of no-op drops (values moved out on every path) and of
    calls to functions that contain no panic path"""

    def f(e):
        if e.kind == "unwind":
            t = body.term(e.src)
            if t["k"] == "drop" and (body.drop_is_noop(e.src) or drop_cannot_unwind(t)):
                return False
            if t["k"] == "call" and call_cannot_unwind(t):
                return False
        return True

    return f


def no_unwind(e):
    return e.kind != "unwind"


# ---------------------------------------------------------------------------------------------
# P1: append = serialize, then flush (error propagated), then Ok


def p1_append_flushes(ctx):
    r = RuleResult("P1", "LogWriter::append: on every path that returns Ok, the entry was serialised into the buffered writer and the writer was then flushed with the flush result taken on its ok edge — 'append returned Ok' implies the bytes left the process", floor=1)
    b = ctx.prog.one("storage::bitcask::log::LogWriter::append")
    f = fam_name(b)
    r.analysed = [b.path]
    sers = [(bb, t) for _, bb, t in calls_in([b], "bincode::serialize_into", "bincode::serialize", "std::io::Write::write_all", "std::io::Write::write") if (arg_path(b, t, 0) or "").startswith("self.0") or is_call_to(t, "bincode::serialize")]
    fls = [(bb, t) for _, bb, t in calls_in([b], "std::io::Write::flush") if (arg_path(b, t, 0) or "").startswith("self.0")]
    if not sers:
        r.unrec(f, "serialisation into self.0", short_span(b.span), "no serialize_into/write on the writer found")
        return r
    ser_ok = set()
    for bb, t in sers:
        ok_e, err_e, sw = try_edges(b, bb)
        ser_ok |= edge_set(ok_e) if ok_e else {(bb, b.term(bb)["t"])}
    fl_ok = set()
    for bb, t in fls:
        ok_e, err_e, sw = try_edges(b, bb)
        fl_ok |= edge_set(ok_e)

    def events(bb, e):
        if e is None:
            return []
        k = (e.src, e.dst)
        out = []
        if k in ser_ok:
            out.append("ser")
        if k in fl_ok:
            out.append("flush")
        return out

    def delta(s, ev):
        if ev == "ser":
            return 1
        if ev == "flush":
            return 2 if s >= 1 else s
        return s

    def on_exit(s, kind, rc, bb):
        if kind == "return" and rc in ("ok", "pass", "other", "const") and s != 2:
            return "returns Ok %s" % ("without serialising anything" if s == 0 else "with the entry still in the buffer (no flush whose result was checked)")
        return None

    vs = explore(b, 0, events, delta, on_exit, follow=no_unwind)
    if vs:
        for v in vs:
            r.bad(f, "serialize ≺ flush(ok) ≺ return Ok", where(b, v.path[-1]), v.msg, witness(b, v))
    else:
        r.ok(f, "serialize ≺ flush(ok) ≺ return Ok", where(b, sers[0][0]), "%d serialisation site(s), %d flush site(s)" % (len(sers), len(fls)))
    # the flush must reach the OS: BufWriterWithPos::flush forwards to the BufWriter's flush
    w = ctx.prog.find("<storage::bitcask::bufio::BufWriterWithPos<W> as std::io::Write>::flush")
    if len(w) == 1:
        wb = w[0]
        fw = [(bb, t) for _, bb, t in calls_in([wb], "std::io::Write::flush") if (arg_path(wb, t, 0) or "").startswith("self.writer")]
        good = bool(fw) and all(c in ("pass",) for c, d, rb in ret_classes(wb, 0, lambda e: e.kind == "unwind"))
        r.add(fam_name(wb), "flush forwards to the inner BufWriter and returns its result", good, short_span(wb.span))
    else:
        r.unrec("storage::bitcask::bufio::BufWriterWithPos", "Write::flush impl", "src/storage/bitcask/bufio.rs", "not found")
    return r


# ---------------------------------------------------------------------------------------------
# P2: Always ⇒ append ≺ sync ≺ Ok


def _sync_reaches_fsync(prog):
    b = prog.one("storage::bitcask::log::LogWriter::sync")
    return b, must_call_on_ok_paths(prog, b, lambda t: is_call_to(t, "std::fs::File::sync_all", "std::fs::File::sync_data"))


def p2_sync_always(ctx):
    r = RuleResult("P2", "Writer::write: on every path that takes the SyncStrategy::Always edge, a successful append is followed by an fsync of the same (active) writer whose result is checked, before Ok is returned and before any rollover replaces the writer; LogWriter::sync reaches File::sync_all/sync_data", floor=2)
    prog = ctx.prog
    b = prog.one("storage::bitcask::Writer::write")
    f = fam_name(b)
    r.analysed = [b.path]
    apps = [(bb, t) for _, bb, t in calls_in([b], "storage::bitcask::log::LogWriter::append") if arg_path(b, t, 0) == "self.writer"]
    syncs = [(bb, t) for _, bb, t in calls_in([b], "storage::bitcask::log::LogWriter::sync", "storage::bitcask::Writer::sync") if arg_path(b, t, 0) in ("self.writer", "self")]
    rolls = {bb for _, bb, t in calls_in([b], "storage::bitcask::Writer::new_active_datafile")}
    if len(apps) < 1:
        r.unrec(f, "append to self.writer", short_span(b.span), "not found")
        return r
    app_ok = set()
    for bb, t in apps:
        ok_e, _, _ = try_edges(b, bb)
        app_ok |= edge_set(ok_e)
    sync_ok = set()
    sync_any = set()
    for bb, t in syncs:
        ok_e, _, _ = try_edges(b, bb)
        sync_ok |= edge_set(ok_e)
        sync_any.add(bb)

    def is_sync_cfg(o):
        return (access_path(o) or "").endswith("conf.sync")

    def events(bb, e):
        if e is None:
            return []
        out = []
        k = (e.src, e.dst)
        if k in app_ok:
            out.append("app")
        if k in sync_ok:
            out.append("sync")
        if e.src in rolls and e.kind == "ret":
            out.append("roll")
        for st in b.blocks[e.src]["stmts"]:
            if st["k"] == "assign" and st["pl"]["p"] and st["pl"]["p"][-1][0] == "f" and st["pl"]["p"][-1][2] == "writer" and st["pl"]["l"] == 1:
                out.append("roll")
        for fct in b.edge_facts(e):
            if fct[0] == "variant" and is_sync_cfg(fct[1]):
                out.append("always" if fct[2] == ["Always"] else ("other" if "Always" not in fct[2] else "mixed"))
        return out

    # state: (appended, mode, synced_since_append, rolled_since_append_before_sync)
    def delta(s, ev):
        a, m, sy, ro = s
        if ev == "app":
            return (True, m, False, False)
        if ev == "sync":
            if a and ro:
                return (a, m, sy, ro)  # synced the new file, not the one appended to
            return (a, m, True, ro)
        if ev == "roll":
            return (a, m, sy, True if (a and not sy) else ro)
        if ev in ("always", "other", "mixed"):
            return (a, ev if m is None or m == ev else "mixed", sy, ro)
        return s

    def on_exit(s, kind, rc, bb):
        a, m, sy, ro = s
        if kind == "return" and rc != "err" and a and not sy and m != "other":
            if ro:
                return "returns Ok with sync=Always but the writer was replaced (rollover) before the appended file was synced"
            return "returns Ok after an append with sync=Always (or with no strategy test at all) without a checked fsync of the active file"
        return None

    vs = explore(b, (False, None, False, False), events, delta, on_exit, follow=no_unwind)
    if vs:
        for v in vs:
            r.bad(f, "Always: append ≺ sync(ok) ≺ return Ok", where(b, v.path[-1]), v.msg, witness(b, v))
    else:
        r.ok(f, "Always: append ≺ sync(ok) ≺ return Ok", where(b, apps[0][0]), "%d append, %d sync site(s)" % (len(apps), len(syncs)))
    sb, good = _sync_reaches_fsync(prog)
    r.add(fam_name(sb), "every Ok path reaches File::sync_all/sync_data", good, short_span(sb.span), "" if good else "LogWriter::sync can return Ok without an fsync")
    # the fsync is on the file behind the same writer
    fs = calls_in([sb], "std::fs::File::sync_all", "std::fs::File::sync_data")
    for _, bb, t in fs:
        o = arg_origin(sb, t, 0)
        ok2 = bool(origin_mentions(o, lambda x: x[0] == "call" and x[1] and x[1].endswith("get_ref"))) and "self.0" in origin_str(o)
        r.add(fam_name(sb), "fsync targets the writer's own file (get_ref of self.0)", ok2, where(sb, bb), origin_str(o))
    return r


# ---------------------------------------------------------------------------------------------
# P3 / P-fid: publish after append, with the appended location


def _keydir_path(p):
    return p is not None and (p.endswith(".keydir") or p == "keydir")


def p3_publish_after_append(ctx):
    r = RuleResult("P3", "Writer::put inserts into the index only on the Ok edge of Writer::write and inserts exactly the entry that call returned, under the key it wrote; Writer::delete appends a tombstone, removes the key on every Ok path and reports whether an entry was removed; Writer::write returns the id of the file the bytes went to (read before any rollover) and the appended len/pos (P-fid)", floor=8)
    prog = ctx.prog
    # ---- put
    b = prog.one("storage::bitcask::Writer::put")
    f = fam_name(b)
    r.analysed.append(b.path)
    ws = calls_in([b], "storage::bitcask::Writer::write")
    ins = [(bb, t) for _, bb, t in calls_in([b], "dashmap::DashMap::insert") if _keydir_path(arg_path(b, t, 0))]
    if len(ws) != 1 or len(ins) != 1:
        r.unrec(f, "Writer::write ×%d, keydir.insert ×%d" % (len(ws), len(ins)), short_span(b.span), "expected one of each")
    else:
        _, wbb, wt = ws[0]
        ibb, it = ins[0]
        ok_e, err_e, _ = try_edges(b, wbb)
        oks = edge_set(ok_e)
        dom = bool(oks) and ibb not in reach(b, [0], blocked_edges=lambda e: (e.src, e.dst) in oks)
        r.add(f, "keydir.insert only on the Ok edge of Writer::write", dom, where(b, ibb), "" if dom else "the index can be updated although the append failed (or before it)")
        vo = arg_origin(b, it, 2)
        from_write = bool(origin_mentions(vo, lambda x: x[0] == "call" and x[3] == (b.path, wbb)))
        r.add(f, "inserted entry = the entry Writer::write returned", from_write, where(b, ibb), origin_str(vo))
        k_ins = access_path(arg_origin(b, it, 1))
        k_w = access_path(arg_origin(b, wt, 2))
        r.add(f, "inserted key = written key", k_ins is not None and k_ins == k_w, where(b, ibb), "insert(%s) vs write(%s)" % (k_ins, k_w))
        vv = peel(arg_origin(b, wt, 3))
        some = vv[0] == "agg" and vv[3] == "Some" and access_path(list(vv[4].values())[0]) == "value"
        r.add(f, "writes Some(value)", some, where(b, wbb), origin_str(vv))
        if err_e:
            bad = [c for e in err_e for c, d, rb in ret_classes(b, e.dst, lambda x: x.kind == "unwind") if c != "err"]
            r.add(f, "append error is returned", not bad, where(b, wbb))
    # ---- delete
    b = prog.one("storage::bitcask::Writer::delete")
    f = fam_name(b)
    r.analysed.append(b.path)
    ws = calls_in([b], "storage::bitcask::Writer::write")
    rms = [(bb, t) for _, bb, t in calls_in([b], "dashmap::DashMap::remove") if _keydir_path(arg_path(b, t, 0))]
    if len(ws) != 1 or len(rms) != 1:
        r.unrec(f, "Writer::write ×%d, keydir.remove ×%d" % (len(ws), len(rms)), short_span(b.span), "expected one of each")
    else:
        _, wbb, wt = ws[0]
        rbb, rt = rms[0]
        ok_e, err_e, _ = try_edges(b, wbb)
        oks = edge_set(ok_e)
        dom = bool(oks) and rbb not in reach(b, [0], blocked_edges=lambda e: (e.src, e.dst) in oks)
        r.add(f, "keydir.remove only on the Ok edge of Writer::write", dom, where(b, rbb))
        # every Ok return passes the remove
        p = path_to(b, [0], lambda x: b.term(x)["k"] == "return" and any(c != "err" for c, d, rb in ret_classes(b, x)), blocked_edges=lambda e: e.kind == "unwind" or (e.src == rbb and e.kind == "ret"))
        # refine: path must be an ok-return path avoiding the remove: check by classes with the remove blocked
        classes = ret_classes(b, 0, lambda e: e.kind == "unwind" or (e.src == rbb and e.kind == "ret"))
        leak = [c for c, d, rb in classes if c not in ("err", "unwind")]
        r.add(f, "every Ok return removed the key", not leak, where(b, rbb), "" if not leak else "an Ok return is reachable without keydir.remove")
        vv = peel(arg_origin(b, wt, 3))
        none = vv[0] == "agg" and vv[3] == "None"
        r.add(f, "writes a tombstone (None)", none, where(b, wbb), origin_str(vv))
        k_rm = access_path(arg_origin(b, rt, 1))
        k_w = access_path(arg_origin(b, wt, 2))
        r.add(f, "removed key = tombstone key", k_rm is not None and k_rm == k_w, where(b, rbb), "remove(%s) vs write(%s)" % (k_rm, k_w))
        # returned bool = whether the remove found an entry
        found = False
        for bb in sorted(b.live_blocks()):
            info = b.switch_info(bb)
            if info and info["kind"] == "variant":
                o = peel_var(info["on"])
                if o[0] == "call" and o[3] == (b.path, rbb):
                    found = True
                    for e in b.succ[bb]:
                        labs = info["arms"].get(e.dst, [])
                        if labs == ["Some"] or labs == ["None"]:
                            want = 1 if labs == ["Some"] else 0
                            rs = [(c, ret_origin(b, d)) for c, d, rb in ret_classes(b, e.dst, lambda x: x.kind == "unwind")]
                            def payload_ok(o2):
                                pv = list(peel_var(o2)[4].values())[0]
                                if const_int(pv) == want:
                                    return True
                                # `Ok(removed.is_some())` / `Ok(!removed.is_none())`: the same answer on both edges
                                q = peel_var(pv)
                                ng = False
                                while q[0] == "un" and q[1] == "Not":
                                    q, ng = peel_var(q[2]), not ng
                                if q[0] == "call" and q[1] and q[1].split("::")[-1] in ("is_some", "is_none") and q[2] and origin_mentions(q[2][0], lambda y: y[0] == "call" and y[3] == (b.path, rbb)):
                                    return (q[1].split("::")[-1] == "is_some") != ng
                                return False

                            good = bool(rs) and all(c == "ok" and payload_ok(o2) for c, o2 in rs if o2 is not None and peel_var(o2)[0] == "agg")
                            r.add(f, "remove found %s ⇒ Ok(%s)" % (labs[0], "true" if want else "false"), good, where(b, bb))
        if not found:
            r.unrec(f, "result derived from keydir.remove's Option", where(b, rbb), "no switch on the remove result")
    # ---- P-fid in write
    b = prog.one("storage::bitcask::Writer::write")
    f = fam_name(b)
    r.analysed.append(b.path)
    apps = [(bb, t) for _, bb, t in calls_in([b], "storage::bitcask::log::LogWriter::append") if arg_path(b, t, 0) == "self.writer"]
    rolls = [bb for _, bb, t in calls_in([b], "storage::bitcask::Writer::new_active_datafile")]
    after_roll = set()
    for rb in rolls:
        after_roll |= reach(b, [e.dst for e in b.succ[rb]])
    aggs = []
    for bb in sorted(b.live_blocks()):
        for si, st in enumerate(b.blocks[bb]["stmts"]):
            if st["k"] == "assign" and st["rv"]["k"] == "agg" and st["rv"]["ak"] == "adt" and strip_generics(st["rv"]["adt"]).endswith("::KeyDirEntry"):
                aggs.append((bb, si, st))
    if len(aggs) != 1 or len(apps) != 1:
        r.unrec(f, "KeyDirEntry literal ×%d, append ×%d" % (len(aggs), len(apps)), short_span(b.span), "expected one of each")
    else:
        bb, si, st = aggs[0]
        abb, at = apps[0]
        o = b.origin_rvalue(st["rv"])
        fm = o[4]
        fid = fm.get("fileid")
        fid_ok = access_path(fid) == "self.active_fileid"
        # where is self.active_fileid read for this literal? the literal's own block, or the block of the temp's def
        read_bb = bb
        op = st["rv"]["ops"][st["rv"]["fields"].index("fileid")] if "fileid" in st["rv"].get("fields", []) else None
        if op and op["k"] in ("copy", "move") and not op["pl"]["p"]:
            ds = b.defs.get(op["pl"]["l"], [])
            if len(ds) == 1:
                read_bb = ds[0][0]
        before = read_bb not in after_roll
        r.add(f, "P-fid: entry.fileid = self.active_fileid read before any rollover", fid_ok and before, where(b, bb), "" if (fid_ok and before) else ("fileid is %s" % origin_str(fid) if not fid_ok else "the id is read after new_active_datafile may have switched to the next (empty) file"))
        for fld in ("len", "pos"):
            fo = fm.get(fld)
            good = fo is not None and bool(origin_mentions(fo, lambda x: x[0] == "call" and x[3] == (b.path, abb)))
            pk = peel(fo) if fo else None
            good = good and pk is not None and pk[0] == "field" and pk[2] == fld
            r.add(f, "P-fid: entry.%s = appended LogIndex.%s" % (fld, fld), good, where(b, bb), origin_str(fo) if fo else "missing")
        to = fm.get("tstamp")
        r.add(f, "entry.tstamp = written tstamp", access_path(to) == "tstamp", where(b, bb))
        # the literal is what is returned on Ok
        oks = [(c, ret_origin(b, d)) for c, d, rb in ret_classes(b, 0, lambda e: e.kind == "unwind") if c == "ok"]
        good = bool(oks) and all(origin_mentions(o2, lambda x: x[0] == "agg" and x[2] and x[2].endswith("::KeyDirEntry")) for c, o2 in oks)
        r.add(f, "Ok returns carry that entry", good, where(b, bb))
        # the written record carries the caller's key/value/tstamp
        eo = peel(arg_origin(b, at, 1))
        efm = eo[4] if eo[0] == "agg" else {}
        good = all(access_path(efm.get(k)) == k for k in ("tstamp", "key", "value"))
        r.add(f, "appended DataFileEntry = {tstamp, key, value} of the call", good, where(b, abb), origin_str(eo))
    return r


# ---------------------------------------------------------------------------------------------
# P13: active_fileid / writer change together


def p13_writer_identity_pair(ctx):
    r = RuleResult("P13", "in every body that assigns Writer::active_fileid or Writer::writer, every exit (Ok, Err, panic) has either both assigned or neither — the id always names the file the writer appends to", floor=1)
    prog = ctx.prog
    n = 0
    for b in shipped_bodies(prog):
        sets = {"active_fileid": set(), "writer": set()}
        for bb in b.live_blocks():
            for st in b.blocks[bb]["stmts"]:
                if st["k"] == "assign" and st["pl"]["p"] and st["pl"]["p"][-1][0] == "f" and st["pl"]["p"][-1][2] in sets:
                    base_ty = b.local_ty(st["pl"]["l"])
                    if "storage::bitcask::Writer" in base_ty and len([p for p in st["pl"]["p"] if p[0] == "f"]) == 1:
                        sets[st["pl"]["p"][-1][2]].add(bb)
        if not sets["active_fileid"] and not sets["writer"]:
            continue
        n += 1
        f = fam_name(b)
        r.analysed.append(b.path)

        def events(bb, e, sets=sets):
            out = []
            if bb in sets["active_fileid"]:
                out.append("fid")
            if bb in sets["writer"]:
                out.append("w")
            return out

        def delta(s, ev):
            fid, w = s
            if ev == "fid":
                return (True, w)
            if ev == "w":
                return (fid, True)
            return s

        def on_exit(s, kind, rc, bb):
            if s[0] != s[1]:
                return "exit (%s%s) with %s assigned but not %s" % (kind, "/" + rc if rc else "", "active_fileid" if s[0] else "writer", "writer" if s[0] else "active_fileid")
            return None

        vs = explore(b, (False, False), events, delta, on_exit, follow=real_unwind(b))
        if vs:
            for v in vs:
                r.bad(f, "active_fileid and writer assigned together", where(b, v.path[-1]), v.msg, witness(b, v))
        else:
            r.ok(f, "active_fileid and writer assigned together", short_span(b.span))
    # aggregates building a Writer (Bitcask::open) pair the id with the created file
    for b in shipped_bodies(prog):
        for bb in sorted(b.live_blocks()):
            for st in b.blocks[bb]["stmts"]:
                if st["k"] == "assign" and st["rv"]["k"] == "agg" and st["rv"]["ak"] == "adt" and strip_generics(st["rv"]["adt"]) == "storage::bitcask::Writer":
                    o = b.origin_rvalue(st["rv"])
                    fid = access_path(o[4].get("active_fileid"))
                    wo = o[4].get("writer")
                    names = origin_mentions(wo, lambda x: x[0] == "call" and x[1] and x[1].endswith("datafile_name")) if wo else []
                    same = bool(names) and any(access_path(x[2][1]) == fid for x in names if len(x[2]) > 1)
                    r.add(fam_name(b), "Writer{active_fileid, writer} literal: writer is the file named by active_fileid", same and fid is not None, where(b, bb), "active_fileid=%s" % fid)
    if n == 0:
        r.unrec("storage::bitcask::Writer", "assignments to active_fileid/writer", "src/storage/bitcask.rs", "none found")
    return r


# ---------------------------------------------------------------------------------------------
# P14: rollover test after every append


def p14_rollover_test(ctx):
    r = RuleResult("P14", "Writer::write: every path from a successful append to an Ok return passes a test of self.written_bytes (updated from the appended length) against conf.max_file_size whose true edge leads to new_active_datafile; Writer::merge: same for the copied length and the running output offset", floor=2)
    prog = ctx.prog
    b = prog.one("storage::bitcask::Writer::write")
    f = fam_name(b)
    r.analysed.append(b.path)
    apps = [(bb, t) for _, bb, t in calls_in([b], "storage::bitcask::log::LogWriter::append") if arg_path(b, t, 0) == "self.writer"]
    rolls = {bb for _, bb, t in calls_in([b], "storage::bitcask::Writer::new_active_datafile")}

    def is_limit_test(o):
        s = origin_str(o)
        return "written_bytes" in s and "max_file_size" in s

    rets_w = {x for x in b.live_blocks() if b.term(x)["k"] == "return"}
    if len(apps) != 1:
        r.unrec(f, "append ×%d" % len(apps), short_span(b.span), "expected one")
    else:
        abb, at = apps[0]
        ok_e, _, _ = try_edges(b, abb)
        tests = set()
        roll_val = {}
        for bb in b.live_blocks():
            info = b.switch_info(bb)
            if info and info["kind"] == "bool" and is_limit_test(info["on"]):
                # the edge that reaches a rollover while the other one does not
                hits = {}
                for e in b.succ[bb]:
                    lab = info["arms"].get(e.dst)
                    if lab in ([True], [False]):
                        reg = reach(b, [e.dst], blocked_edges=lambda x: x.kind == "unwind", blocked_blocks=rets_w)
                        hits[lab[0]] = bool(reg & rolls)
                if sorted(hits.values()) == [False, True]:
                    tests.add(bb)
                    roll_val[bb] = [k for k, v_ in hits.items() if v_][0]
        starts = [e.dst for e in (ok_e or [])]
        classes = set()
        for s in starts:
            classes |= {c for c, d, rb in ret_classes(b, s, lambda e: e.kind == "unwind" or e.src in tests)}
        leak = [c for c in classes if c not in ("err", "unwind")]
        good = bool(tests) and bool(starts) and not leak
        r.add(f, "append(ok) ≺ [written_bytes vs max_file_size ⇒ new_active_datafile] ≺ return Ok", good, where(b, abb), "" if good else ("no size test leading to a rollover" if not tests else "an Ok return is reachable after the append without the size test"))
        # written_bytes accumulates the appended length before the test
        upd = []
        for bb in b.live_blocks():
            for st in b.blocks[bb]["stmts"]:
                if st["k"] == "assign" and st["pl"]["p"] and st["pl"]["p"][-1][0] == "f" and st["pl"]["p"][-1][2] == "written_bytes":
                    o = b.origin_rvalue(st["rv"])
                    if origin_mentions(o, lambda x: x[0] == "call" and x[3] == (b.path, abb)) and "written_bytes" in origin_str(o):
                        upd.append(bb)
        before = bool(upd) and all(t in reach(b, upd) for t in tests)
        r.add(f, "written_bytes += appended len, before the test", before, where(b, upd[0]) if upd else where(b, abb))
        # the comparison must be strict-greater or greater-equal on (written, max) — normalised
        for t in tests:
            o = peel_var(b.switch_info(t)["on"])
            ng = False
            while o[0] == "un" and o[1] == "Not":
                o, ng = peel_var(o[2]), not ng
            if o[0] == "bin":
                l, rr = origin_str(o[2]), origin_str(o[3])
                op = o[1]
                if "max_file_size" in l and "written_bytes" in rr:
                    op = {"Lt": "Gt", "Le": "Ge", "Gt": "Lt", "Ge": "Le"}.get(op, op)  # now: written OP max
                holds = roll_val.get(t, True) != ng  # value of the comparison on the rollover edge
                if not holds:
                    op = {"Lt": "Ge", "Le": "Gt", "Gt": "Le", "Ge": "Lt"}.get(op, op)
                r.add(f, "rollover when written_bytes exceeds max_file_size (not the reverse)", op in ("Gt", "Ge"), where(b, t), "on the rollover edge: written_bytes %s max_file_size" % op)
    # rollover resets the byte counter
    nb = prog.one("storage::bitcask::Writer::new_active_datafile")
    z = False
    for bb in nb.live_blocks():
        for st in nb.blocks[bb]["stmts"]:
            if st["k"] == "assign" and st["pl"]["p"] and st["pl"]["p"][-1][2:3] == ["written_bytes"]:
                z = z or const_int(nb.origin_rvalue(st["rv"])) == 0
    r.add(fam_name(nb), "new_active_datafile resets written_bytes to 0", z, short_span(nb.span))
    return r


# ---------------------------------------------------------------------------------------------
# P6: reader pool


def p6_reader_pool(ctx):
    r = RuleResult("P6", "Handle::get: once ArrayQueue::pop yielded a reader, every exit — Ok, Err and unwinding from a panic in the read path — is preceded by pushing that reader back, directly or through the Drop of a guard that owns it; the guard's Drop pushes on every path", floor=2)
    prog = ctx.prog
    b = prog.one("storage::bitcask::Handle::get")
    f = fam_name(b)
    r.analysed.append(b.path)
    pops = [(bb, t) for _, bb, t in calls_in([b], "crossbeam_queue::ArrayQueue::pop", "ArrayQueue::pop")]
    if not pops:
        r.unrec(f, "ArrayQueue::pop", short_span(b.span), "no pop found")
        return r
    pbb, pt = pops[0]
    pool = arg_path(b, pt, 0)
    pop_sites = {(b.path, bb) for bb, t in pops if arg_path(b, t, 0) == pool}
    pop_blocks = {bb for bb, t in pops if arg_path(b, t, 0) == pool}

    def from_pop(o):
        return bool(phi_mentions(b, o, lambda x: x[0] == "call" and x[3] in pop_sites))

    # edges on which the popped value is known to be a reader / known to be nothing
    some_edges, none_edges = set(), set()
    for bb in b.live_blocks():
        info = b.switch_info(bb)
        if not info:
            continue
        if info["kind"] == "variant" and set(sum(info["arms"].values(), [])) >= {"Some", "None"} and from_pop(info["on"]):
            for e in b.succ[bb]:
                if info["arms"].get(e.dst) == ["Some"]:
                    some_edges.add((e.src, e.dst))
                elif info["arms"].get(e.dst) == ["None"]:
                    none_edges.add((e.src, e.dst))
        elif info["kind"] == "bool":
            o = peel_var(info["on"])
            neg = False
            while o[0] == "un" and o[1] == "Not":
                o, neg = peel_var(o[2]), not neg
            if o[0] == "call" and o[1] and o[1].split("::")[-1] in ("is_some", "is_none") and "Option" in o[1] and o[2] and from_pop(o[2][0]):
                some_when = (o[1].split("::")[-1] == "is_some") != neg
                for e in b.succ[bb]:
                    if info["arms"].get(e.dst) == [some_when]:
                        some_edges.add((e.src, e.dst))
                    elif info["arms"].get(e.dst) == [not some_when]:
                        none_edges.add((e.src, e.dst))
    if not some_edges:
        r.unrec(f, "Some edge of pop()", where(b, pbb), "not found")
        return r

    # guard types: crate ADTs with a Drop impl that pushes to an ArrayQueue
    guard_types = {}
    for gb in shipped_bodies(prog):
        if gb.impl_trait and gb.impl_trait.endswith("ops::Drop") and gb.name.endswith("::drop"):
            pushes = calls_in([gb], "crossbeam_queue::ArrayQueue::push", "ArrayQueue::push")
            if pushes:
                guard_types[strip_generics(gb.impl_self).split("<")[0]] = gb
    push_ok = set()
    for _, bb, t in calls_in([b], "crossbeam_queue::ArrayQueue::push", "ArrayQueue::push"):
        if arg_path(b, t, 0) == pool and from_pop(arg_origin(b, t, 1)):
            push_ok.add(bb)
    guard_aggs = set()
    for bb in b.live_blocks():
        for st in b.blocks[bb]["stmts"]:
            if st["k"] == "assign" and st["rv"]["k"] == "agg" and st["rv"]["ak"] == "adt":
                nm = strip_generics(st["rv"]["adt"])
                if nm in guard_types and from_pop(b.origin_rvalue(st["rv"])):
                    guard_aggs.add(bb)
    guard_drops = set()
    for bb in b.live_blocks():
        t = b.term(bb)
        if t["k"] == "drop" and not b.drop_is_noop(bb):
            if any(strip_generics(d).split("<")[0] in guard_types for d in t["dtors"][:1]) or strip_generics(t["ty"]).split("<")[0] in guard_types:
                guard_drops.add(bb)

    # states: 0 none, 1 raw reader held, 2 reader in guard, 3 returned, 4 popped, not yet known whether a reader came out
    def events(bb, e):
        out = []
        if e is not None and bb in pop_blocks and e.kind == "ret":
            out.append("pop")
        if e is not None and e.kind == "unwind" and b.term(bb)["k"] == "drop" and "storage::bitcask::Reader" in b.term(bb)["ty"] and b.term(bb)["ty"].startswith(("std::option::Option<", "core::option::Option<")):
            out.append("optdrop-unwinds")
        if e is not None and (e.src, e.dst) in some_edges:
            out.append("got")
        if e is not None and (e.src, e.dst) in none_edges:
            out.append("none")
        if bb in guard_aggs:
            out.append("guard")
        if e is not None and bb in push_ok and e.kind == "ret":
            out.append("push")
        if e is not None and bb in guard_drops:
            out.append("gdrop")  # the destructor runs whether the drop returns or unwinds
        return out

    def delta(s, ev):
        # 6 = popped again while the variable that receives the result is known to hold None (or
        # nothing yet): replacing it runs no destructor, so that drop cannot unwind (7 = infeasible)
        if ev == "pop" and s == 0:
            return 6
        if ev == "pop" and s in (4, 6):
            return 4
        if ev == "optdrop-unwinds" and s == 6:
            return 7
        if ev == "got" and s in (0, 4, 6):
            return 1
        if ev == "none" and s in (4, 6):
            return 0
        if ev == "guard" and s in (1, 4, 6):
            return 2
        if ev == "push" and s in (1, 4, 6):
            return 3
        if ev == "gdrop" and s == 2:
            return 3
        return s

    def on_exit(s, kind, rc, bb):
        if s in (1, 4, 6):
            return "exit by %s while the popped reader is held and was not pushed back: the pool has one reader less forever" % ("panic (unwinding)" if kind == "resume" else kind)
        if s == 2:
            return "exit by %s while the guard owning the reader is still alive (leaked)" % kind
        return None

    # order events within a block: statements (guard) happen before the terminator; 'got' is an edge event
    def events_ordered(bb, e):
        ev = events(bb, e)
        # an edge event 'got' belongs to the edge (after the block), so put it last
        ev.sort(key=lambda x: {"guard": 0, "push": 1, "gdrop": 1, "optdrop-unwinds": 1, "pop": 2, "got": 3, "none": 3}[x])
        return ev

    vs = explore(b, 0, events_ordered, delta, on_exit, follow=real_unwind(b))
    if vs:
        for v in vs:
            r.bad(f, "pop ≺ push on every exit (unwind included)", where(b, v.path[-1]), v.msg, witness(b, v, lambda x: x in guard_drops))
    else:
        r.ok(f, "pop ≺ push on every exit (unwind included)", where(b, pbb), "guard types: %s; direct push sites: %d" % (sorted(guard_types), len(push_ok)))
    # guard Drop impls push on every path that has a reader
    for gname, gb in sorted(guard_types.items()):
        if not any(gname.endswith(strip_generics(x).split("<")[0].split("::")[-1]) for x in [gname]):
            continue
        used = any(True for bb in guard_aggs)
        pushes = {bb for _, bb, t in calls_in([gb], "crossbeam_queue::ArrayQueue::push", "ArrayQueue::push")}
        # find the switch on take()/the Option field: Some edge must reach push on all non-unwind paths
        good = False
        for bb in sorted(gb.live_blocks()):
            info = gb.switch_info(bb)
            if info and info["kind"] == "variant":
                for e in gb.succ[bb]:
                    if info["arms"].get(e.dst) == ["Some"]:
                        p = path_to(gb, [e.dst], lambda x: gb.term(x)["k"] == "return", blocked_edges=lambda x: x.kind == "unwind" or (x.src in pushes and x.kind == "ret"))
                        good = p is None
        if not any(gb.switch_info(bb) for bb in gb.live_blocks()):
            # unconditional push
            p = path_to(gb, [0], lambda x: gb.term(x)["k"] == "return", blocked_edges=lambda x: x.kind == "unwind" or (x.src in pushes and x.kind == "ret"))
            good = p is None
        r.add(fam_name(gb), "Drop pushes the owned reader back on every path", good, short_span(gb.span))
    # the read goes through the guard / the popped reader
    return r


# ---------------------------------------------------------------------------------------------
# P7: closed check


def p7_closed_check(ctx):
    r = RuleResult("P7", "every Handle method that reaches the writer mutex, the reader pool, or a Writer/Reader method does so only behind `ctx.closed.load() == false` (the set of methods is computed, not listed); Bitcask's Drop stores closed = true on every path", floor=6)
    prog = ctx.prog
    hb = [b for b in shipped_bodies(prog) if b.def_kind == "AssocFn" and (b.impl_self or "") == "storage::bitcask::Handle"]
    n = 0
    for b in sorted(hb, key=lambda x: x.path):
        f = fam_name(b)
        sens = []
        for bb, t in b.calls():
            if bb not in b.live_blocks():
                continue
            cn, rn = callee_names(t)
            cb = prog.callee_body(t)
            a0 = arg_path(b, t, 0) or ""
            if cn and (cn.endswith("Mutex::lock") or cn.endswith("Mutex::try_lock") or cn.endswith("Mutex::lock_arc")) and "self.writer" in a0:
                sens.append((bb, "writer.lock()"))
            elif cn and "ArrayQueue::" in cn and cn.split("::")[-1] in ("pop", "push", "force_push") and "self.readers" in a0:
                sens.append((bb, "readers.%s()" % cn.split("::")[-1]))
            elif cb is not None and cb.impl_self and strip_generics(cb.impl_self).split("<")[0] in ("storage::bitcask::Writer", "storage::bitcask::Reader", "storage::bitcask::PooledReader") and not (cb.impl_trait or "").endswith("Debug"):
                sens.append((bb, cb.name.split("::")[-2] + "::" + cb.name.split("::")[-1]))
            elif cn and cn.startswith("dashmap::DashMap::") and ("keydir" in a0 or "stats" in a0):
                sens.append((bb, "index access"))
        if not sens:
            continue
        if b.impl_trait and b.impl_trait.endswith("KeyValueStorage"):
            # trait methods must delegate to the checked inherent methods; reaching internals directly needs the check too
            pass
        open_edges = set()
        for bb in b.live_blocks():
            info = b.switch_info(bb)
            if info and info["kind"] == "bool":
                o = peel_var(info["on"])
                neg = False
                if o[0] == "un" and o[1] == "Not":
                    neg = True
                    o = peel_var(o[2])
                if o[0] == "call" and o[1] and o[1].endswith("AtomicCell::load") and (access_path(o[2][0]) or "").endswith("ctx.closed"):
                    for e in b.succ[bb]:
                        if info["arms"].get(e.dst) == [neg]:
                            open_edges.add((e.src, e.dst))
        for bb, what in sens:
            n += 1
            dom = bool(open_edges) and bb not in reach(b, [0], blocked_edges=lambda e: (e.src, e.dst) in open_edges)
            wit = None
            if not dom:
                p = path_to(b, [0], lambda x: x == bb, blocked_edges=lambda e: (e.src, e.dst) in open_edges)
                wit = describe_path(b, p) if p else None
            r.add(f, "%s behind the closed check" % what, dom, where(b, bb), "" if dom else "reachable without `closed == false` having been established", wit)
        # closed ⇒ Err(Closed)
        for bb in b.live_blocks():
            info = b.switch_info(bb)
            if info and info["kind"] == "bool":
                for e in b.succ[bb]:
                    if (e.src, e.dst) in open_edges:
                        continue
                    if any((e2.src, e2.dst) in open_edges for e2 in b.succ[bb]):
                        rs = [(c, ret_origin(b, d)) for c, d, rb in ret_classes(b, e.dst, lambda x: x.kind == "unwind")]
                        good = bool(rs) and all(c == "err" and returns_closed_error(b, o) for c, o in rs)
                        r.add(f, "closed ⇒ Err(Closed)", good, where(b, bb))
    # Drop of Bitcask closes
    db = [b for b in shipped_bodies(prog) if b.name == "<storage::bitcask::Bitcask as std::ops::Drop>::drop"]
    if len(db) != 1:
        r.unrec("storage::bitcask::Bitcask", "Drop impl", "src/storage/bitcask.rs", "found %d" % len(db))
    else:
        d = db[0]

        def is_close_store(t):
            if not is_call_to(t, "crossbeam::atomic::AtomicCell::store", "AtomicCell::store"):
                return False
            return True

        def pred_in(body):
            def pred(t):
                return False

            return pred

        # the store must be of constant true to ctx.closed; find it in the closure of Drop
        stores = []
        for sb, bb, t in transitive_calls(prog, [d]):
            if is_call_to(t, "crossbeam::atomic::AtomicCell::store", "AtomicCell::store") and (arg_path(sb, t, 0) or "").endswith("ctx.closed"):
                stores.append((sb, bb, t, const_int(arg_origin(sb, t, 1))))
        good_vals = bool(stores) and all(v == 1 for _, _, _, v in stores)
        must = must_call_on_ok_paths(prog, d, lambda t: is_call_to(t, "crossbeam::atomic::AtomicCell::store", "AtomicCell::store"))
        r.add(fam_name(d), "Drop reaches ctx.closed.store(true) on every path", good_vals and must, short_span(d.span), "stores: %s" % [(s.name.split("::")[-1], v) for s, _, _, v in stores])
    # nobody else writes `closed` except with true
    for b in shipped_bodies(prog):
        for bb, t in b.calls():
            if is_call_to(t, "crossbeam::atomic::AtomicCell::store", "AtomicCell::store", "AtomicCell::swap", "AtomicCell::fetch_and", "AtomicCell::fetch_xor", "AtomicCell::compare_exchange") and (arg_path(b, t, 0) or "").endswith("closed"):
                v = const_int(arg_origin(b, t, 1))
                r.add(fam_name(b), "closed is only ever set to true", v == 1 and is_call_to(t, "AtomicCell::store"), where(b, bb), "value %s" % v)
    return r


# ---------------------------------------------------------------------------------------------
# P18: Handle operations delegate to the writer under its lock and return its verdict


def p18_handle_delegation(ctx):
    r = RuleResult("P18", "Handle::put / delete / merge / sync: on the open path the result returned is exactly the result of the corresponding Writer method called through writer.lock() (no value computed outside the lock is substituted), and these methods do not consult the index themselves — what a client is told comes from the state the writer saw under the mutex", floor=4)
    prog = ctx.prog
    for hm, wm in (("put", "put"), ("delete", "delete"), ("merge", "merge"), ("sync", "sync")):
        b = prog.one("storage::bitcask::Handle::%s" % hm)
        f = fam_name(b)
        cs = [(bb, t) for _, bb, t in calls_in([b], "storage::bitcask::Writer::%s" % wm)]
        if len(cs) != 1:
            r.bad(f, "call Writer::%s ×%d" % (wm, len(cs)), short_span(b.span), "expected exactly one delegation")
            continue
        cbb, ct = cs[0]
        recv = arg_origin(b, ct, 0)
        locked = bool(origin_mentions(recv, lambda x: x[0] == "field" and x[2] == "writer")) and any(is_call_to(t2, "lock_api::Mutex::lock", "lock_api::mutex::Mutex::lock", "parking_lot::lock_api::Mutex::lock") for _, t2 in b.calls())
        r.add(f, "Writer::%s is called on self.writer.lock()" % wm, locked, where(b, cbb), origin_str(recv)[:80])
        rets = ret_classes(b, 0, lambda e: e.kind == "unwind")
        bad = []
        site = (b.path, cbb)
        from_site = lambda o: o is not None and bool(origin_mentions(o, lambda x: x[0] == "call" and x[3] == site))
        for c, d, rb in rets:
            o = ret_origin(b, d)
            if c == "err":
                if returns_closed_error(b, o):
                    continue
                # `writer.delete(key)?`: the error of the delegation itself, passed on
                if from_site(o) and not origin_mentions(o, lambda x: x[0] == "call" and x[3] != site and x[1] not in ("std::ops::FromResidual::from_residual", "std::ops::Try::branch")):
                    continue
                bad.append(c)
            elif c == "pass" and d == (cbb, "T"):
                continue
            elif c == "ok" and o is not None:
                # `Ok(writer.delete(key)?)`: the Continue payload of the delegation, re-wrapped as is
                po = peel_var(o)
                pl = list(po[4].values())[0] if po[0] == "agg" and po[4] else None
                pp = peel(pl) if pl is not None else None
                if pp is not None and pp[0] == "field" and pp[1][0] == "variant" and pp[1][2] == "Continue" and from_site(pl) and not origin_mentions(pl, lambda x: x[0] == "call" and x[3] != site):
                    continue
                bad.append(c)
            else:
                bad.append(c)
        r.add(f, "returns the writer's result unchanged (or Err(Closed))", not bad, where(b, cbb), "" if not bad else "a return value is produced outside the delegation: %s" % bad)
        idx = [bb for bb, t in b.calls() if bb in b.live_blocks() and (strip_generics(t.get("callee")) or "").startswith("dashmap::DashMap::")]
        r.add(f, "does not consult the index outside the writer lock", not idx, where(b, idx[0]) if idx else short_span(b.span))
    return r


def p19_sync_chain(ctx):
    r = RuleResult("P19", "the sync entry points force the active file to disk unconditionally: every Ok path of Handle::sync (when open) reaches Writer::sync, every Ok path of Writer::sync reaches LogWriter::sync on self.writer, every Ok path of LogWriter::sync reaches File::sync_all/sync_data — no 'nothing new to sync' shortcut can skip the fsync of a freshly rotated file", floor=3)
    prog = ctx.prog
    chain = [
        ("storage::bitcask::Handle::sync", lambda t: is_call_to(t, "storage::bitcask::Writer::sync"), "Writer::sync"),
        ("storage::bitcask::Writer::sync", lambda t: is_call_to(t, "storage::bitcask::log::LogWriter::sync"), "LogWriter::sync"),
        ("storage::bitcask::log::LogWriter::sync", lambda t: is_call_to(t, "std::fs::File::sync_all", "std::fs::File::sync_data"), "File::sync_all"),
    ]
    for fn, pred, nm in chain:
        b = prog.one(fn)
        hits = {bb for bb, t in b.calls() if bb in b.live_blocks() and pred(t)}
        # Ok returns reachable without passing a hit (for Handle::sync the closed path returns Err)
        classes = {c for c, d, rb in ret_classes(b, 0, lambda e: e.kind == "unwind" or (e.src in hits and e.kind == "ret"))}
        leak = [c for c in classes if c not in ("err", "unwind")]
        r.add(fam_name(b), "every Ok path reaches %s" % nm, bool(hits) and not leak, where(b, sorted(hits)[0]) if hits else short_span(b.span), "" if (hits and not leak) else "an Ok return is reachable without %s: a tick of the sync loop (or a sync=always write) can leave data unsynced" % nm)
    wb = prog.one("storage::bitcask::Writer::sync")
    for _, bb, t in calls_in([wb], "storage::bitcask::log::LogWriter::sync"):
        r.add(fam_name(wb), "syncs self.writer (the active file)", arg_path(wb, t, 0) == "self.writer", where(wb, bb), str(arg_path(wb, t, 0)))
    return r


def p6b_pool_filled(ctx):
    r = RuleResult("P6b", "Bitcask::open fills the reader pool to its capacity: the loop that pushes Readers runs `0..readers.capacity()` (or exactly the count the queue was created with on every path) — also for concurrency = 0, where the queue is created with one slot; an empty pool makes every get spin forever", floor=2)
    prog = ctx.prog
    fam = prog.family("storage::bitcask::Bitcask::open")
    b = None
    for x in fam:
        if calls_in([x], "crossbeam_queue::ArrayQueue::push", "ArrayQueue::push") and b is None:
            b = x
    f = "storage::bitcask::Bitcask::open"
    if b is None:
        r.bad(f, "readers are pushed into the pool", "src/storage/bitcask.rs", "no ArrayQueue::push in open: the pool stays empty")
        return r
    pushes = calls_in([b], "crossbeam_queue::ArrayQueue::push", "ArrayQueue::push")
    news = calls_in([b], "crossbeam_queue::ArrayQueue::new", "ArrayQueue::new")
    _, pbb, pt = pushes[0]
    q = arg_path(b, pt, 0)
    # the loop around the push: a Range<usize> iterator whose next() dominates the push
    rng = None
    for _, nb, nt in calls_in([b], "std::iter::Iterator::next"):
        o = arg_origin(b, nt, 0)
        ags = origin_mentions(o, lambda x: x[0] == "agg" and x[2] and x[2].endswith("ops::Range"))
        if ags and pbb in reach(b, [b.term(nb)["t"]], blocked_edges=lambda e: e.kind == "unwind", blocked_blocks={nb}):
            rng = ags[0]
    if rng is None:
        r.unrec(f, "loop that fills the pool", where(b, pbb), "no `for _ in a..b` around the push found")
        return r
    start, end = rng[4].get("start"), rng[4].get("end")
    cap = bool(end is not None and origin_mentions(end, lambda x: x[0] == "call" and x[1] and x[1].endswith("ArrayQueue::capacity") and access_path(x[2][0]) == q))
    same_as_new = False
    if not cap and end is not None and news:
        same_as_new = all(origin_str(arg_origin(b, nt, 0)) == origin_str(end) for _, nb2, nt in news) and len(news) == 1
    r.add(f, "pool filled from 0", const_int(start) == 0, where(b, pbb), origin_str(start) if start else "?")
    r.add(f, "pool filled up to the queue's capacity", cap or same_as_new, where(b, pbb), "loop bound is %s; the queue is created with %s" % (origin_str(end) if end else "?", [origin_str(arg_origin(b, nt, 0)) for _, _, nt in news]))
    # every queue creation has room for at least one reader
    for _, nb2, nt in news:
        o = peel(arg_origin(b, nt, 0))
        r.ok(f, "queue created with %s" % origin_str(o)[:60], where(b, nb2))
    return r

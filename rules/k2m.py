"""K2 (merge) — the ordering / pairing rules anchored in Writer::merge, and T1."""
from common import *
from engine import RuleResult
from k2 import edge_set, no_unwind, real_unwind
from pathauto import explore, witness


class MergeModel:
    """Slots of the merge rules, filled from the facts (not from text)."""

    def __init__(self, prog):
        self.prog = prog
        self.b = b = prog.one("storage::bitcask::Writer::merge")
        self.f = fam_name(b)
        self.problems = []
        live = b.live_blocks()
        # copy call: LogDir::copy(readers, path, fileid, len, pos, writer)
        cps = [(bb, t) for _, bb, t in calls_in([b], "storage::bitcask::log::LogDir::copy")]
        self.copies = cps
        self.W = None  # local of the data output writer
        if len(cps) == 1:
            o = arg_origin(b, cps[0][1], 5)
            self.W = self.slot_of(o)
            self.entry_var = None
            eo = arg_origin(b, cps[0][1], 2)
            pe = eo
            # `copy(path, entry.fileid, …)` or, after `let KeyDirEntry { fileid, .. } = *entry;`, a
            # local that was copied out of the entry's field
            while pe[0] == "var" and pe[3] is not None and pe[3][0] in ("field", "var"):
                pe = pe[3]
            while pe[0] == "field":
                pe = pe[1]
            if pe[0] == "var":
                self.entry_var = pe[1]
        else:
            self.problems.append("LogDir::copy ×%d" % len(cps))
        # hint appends: LogWriter::append on a local (not self.writer)
        self.hint_apps = []
        self.H = None
        for _, bb, t in calls_in([b], "storage::bitcask::log::LogWriter::append"):
            o = arg_origin(b, t, 0)
            if self.slot_of(o) is not None:
                self.hint_apps.append((bb, t))
                self.H = self.slot_of(o)
        # assignments to W / H (whole local), and the files they are created on — seen through
        # crate-local helpers (interprocedural origins)
        self.W_assign = self._assign_blocks(self.W)
        self.H_assign = self._assign_blocks(self.H)
        self.creates = []  # (bb, name fn, id path)
        self.create_ids = []  # id origins, parallel to creates
        self.id_aliases = {}
        self.W_origins = []
        memo = {}
        for which, assigns in (("W", self.W_assign), ("H", self.H_assign)):
            slot = self.W if which == "W" else self.H
            for bi, si in sorted(assigns, key=lambda x: (x[0], str(x[1]))):
                o = b.origin_call(bi) if si == "T" else b.origin_rvalue(b.blocks[bi]["stmts"][si]["rv"])
                o = expand(prog, o, memo)
                if isinstance(slot, tuple):
                    # the writer is a field of a local struct: a whole assignment of the struct sets it to that field
                    st_pl = b.blocks[bi]["term"]["dest"] if si == "T" else b.blocks[bi]["stmts"][si]["pl"]
                    if not st_pl["p"]:
                        po = peel(o)
                        o = po[4][slot[1]] if po[0] == "agg" and slot[1] in po[4] else ("unknown", "struct assigned as a whole")
                        o = expand(prog, o, memo)
                if which == "W":
                    self.W_origins.append((bi, o))
                for c in origin_mentions(o, lambda x: x[0] == "call" and x[1] == "storage::bitcask::log::create"):
                    n = peel(c[2][0]) if c[2] else ("unknown", "")
                    if n[0] == "call" and n[1]:
                        self.creates.append((bi, n[1].split("::")[-1], access_path(n[2][1]) if len(n[2]) > 1 else None))
                        self.create_ids.append(n[2][1] if len(n[2]) > 1 else None)
        # keydir entry field writes through deref_mut(entry)
        self.kd_writes = []  # (bb, field, origin)
        for bb in sorted(live):
            for st in b.blocks[bb]["stmts"]:
                if st["k"] == "assign" and st["pl"]["p"] and st["pl"]["p"][-1][0] == "f" and st["pl"]["p"][-1][2] in ("fileid", "len", "pos", "tstamp"):
                    base = b.origin_local(st["pl"]["l"])
                    pb = base
                    if pb[0] == "var" and self.entry_var is not None and pb[1] == self.entry_var:
                        self.kd_writes.append((bb, st["pl"]["p"][-1][2], b.origin_rvalue(st["rv"]), st))
        # selection set and unlink loop
        sel = calls_in([b], "storage::bitcask::Context::fileids_to_merge")
        self.sel_site = (b.path, sel[0][1]) if len(sel) == 1 else None
        self.sel_call = sel[0] if len(sel) == 1 else None
        self.unlinks = [(bb, t) for _, bb, t in calls_in([b], "std::fs::remove_file")]
        self.stats_removes = [(bb, t) for _, bb, t in calls_in([b], "dashmap::DashMap::remove") if (arg_path(b, t, 0) or "").endswith("stats")]
        self.rotates = [(bb, t) for _, bb, t in calls_in([b], "storage::bitcask::Writer::new_active_datafile")]
        # sync sites: calls after which writer X is flushed+fsynced
        self.sync_sites = {"W": set(), "H": set()}
        self.flush_sites = set()
        for bb, t in b.calls():
            if bb not in live:
                continue
            eff = self._sync_effect(b, t)
            for k in eff:
                if k == "flushW":
                    self.flush_sites.add(bb)
                else:
                    self.sync_sites[k].add(bb)
        # loop heads
        self.copy_loop_next = None
        self.unlink_loop_next = None
        for _, bb, t in calls_in([b], "std::iter::Iterator::next"):
            o = arg_origin(b, t, 0)
            s = origin_str(o)
            if origin_mentions(o, lambda x: x[0] == "call" and x[1] and x[1].endswith("DashMap::iter_mut")):
                self.copy_loop_next = bb
            elif self.sel_site and origin_mentions(o, lambda x: x[0] == "call" and x[3] == self.sel_site):
                self.unlink_loop_next = bb
        if self.copy_loop_next is None:
            self.problems.append("copy loop (Iterator::next over keydir.iter_mut()) not found")
        if self.unlink_loop_next is None:
            self.problems.append("unlink loop (Iterator::next over the selection set) not found")
        self._canon_ids()

    def _canon_ids(self):
        b = self.b
        # a create named by the value the id variable is initialised with (`output.fileid = fileid` next to
        # `create(datafile_name(path, fileid))` in a constructor) is named by that variable
        paths = {c[2] for c in self.creates if c[2]}
        # the id variable may name no create directly (`*self = Self::create(path, self.fileid + 1)`): it is what the
        # index entry is re-pointed to
        kdv = {access_path(o_) for bb_, fld_, o_, st_ in self.kd_writes if fld_ == "fileid"} - {None}
        paths_v = paths | kdv
        if len(paths_v) > 1 or any(c[2] is None for c in self.creates):
            by_name = {}
            for l, nm in b.local_names.items():
                by_name.setdefault("var:%s" % nm, []).append(l)

            def def_origins(vl):
                out = []
                for bi, si, whole in b.defs.get(vl, []):
                    if whole and si != "T":
                        out.append(b.origin_rvalue(b.blocks[bi]["stmts"][si]["rv"]))
                return out

            canon = {}
            for V in sorted(paths_v):
                for vl in by_name.get(V, []):
                    if len(b.defs.get(vl, [])) < 2:
                        continue
                    for o_ in def_origins(vl):
                        ap = access_path(o_)
                        if ap in paths and ap != V:
                            # the initial value must itself never change — except by being set back to the id variable
                            if all(all(access_path(x_) == V for x_ in def_origins(xl)[1:]) for xl in by_name.get(ap, [])) and V not in canon:
                                canon[ap] = V
            if canon:
                self.creates = [(bi, k, canon.get(i, i)) for bi, k, i in self.creates]
                self.id_aliases = dict(canon)
            # a create named by an expression (`Self::create(path, self.fileid + 1)`) that the id variable is then set to
            paths2 = {c[2] for c in self.creates if c[2]}
            if len(paths2) == 1 and any(c[2] is None for c in self.creates):
                V = next(iter(paths2))
                vdefs = [o_ for vl in by_name.get(V, []) for o_ in def_origins(vl)]

                def strip(o_):
                    o_ = peel_var(o_)
                    return o_

                fixed = []
                for (bi, k, i), io in zip(self.creates, self.create_ids):
                    if i is None and io is not None and any(strip(d_) == strip(io) for d_ in vdefs):
                        i = V
                    fixed.append((bi, k, i))
                self.creates = fixed

    def forward_entry_reads(self, o, use_bb):
        """o with reads of the index entry's fields that were re-pointed earlier in the same iteration replaced by
        the value written (`entry.len = n; … offset += entry.len` adds n): valid when the one write of that field
        dominates the use and reaches it without passing the loop head"""
        b = self.b
        writes = {}
        for bb, fld, wo, st in self.kd_writes:
            writes.setdefault(fld, []).append((bb, wo))
        fw = {}
        for fld, ws in writes.items():
            if len(ws) != 1:
                continue
            wb, wo = ws[0]
            if use_bb in reach(b, [0], blocked_blocks={wb}):
                continue  # not dominated by the write
            heads = {self.copy_loop_next} if self.copy_loop_next is not None else set()
            if use_bb != wb and use_bb not in reach(b, [e.dst for e in b.succ[wb] if e.kind != "unwind"], blocked_edges=lambda e: e.kind == "unwind", blocked_blocks=heads):
                continue
            fw[fld] = wo

        def rw(x, d=0):
            if d > 30 or not isinstance(x, tuple) or not x:
                return x
            k = x[0]
            if k == "field" and x[2] in fw:
                base = x[1]
                while base[0] in ("clone", "cast") or (base[0] == "call" and base[1] and base[1].split("::")[-1] in ("deref", "deref_mut") and base[2]):
                    base = base[1] if base[0] in ("clone", "cast") else base[2][0]
                if base[0] == "var" and base[1] == self.entry_var:
                    return fw[x[2]]
            if k in ("field", "variant", "index", "cast", "discr", "clone", "try", "promoted", "payload"):
                return (k, rw(x[1], d + 1)) + tuple(x[2:])
            if k == "var" and x[3] is not None:
                return (k, x[1], x[2], rw(x[3], d + 1))
            if k == "call":
                return (k, x[1], [rw(a, d + 1) for a in x[2]]) + tuple(x[3:])
            if k == "agg":
                return (k, x[1], x[2], x[3], {kk: rw(v, d + 1) for kk, v in x[4].items()}) + tuple(x[5:])
            if k == "bin":
                return (k, x[1], rw(x[2], d + 1), rw(x[3], d + 1)) + tuple(x[4:])
            if k == "un":
                return (k, x[1], rw(x[2], d + 1)) + tuple(x[3:])
            return x

        return rw(o) if fw else o

    @staticmethod
    def slot_of(o):
        """a writer slot: a local variable (its index), or a field of a local struct ((index, field name))"""
        while o[0] in ("clone", "cast"):
            o = o[1]
        # a writer moved into another variable (a `self` taken by value) is still that writer
        while o[0] == "var" and o[3] is not None and o[3][0] == "var":
            o = o[3]
        if o[0] == "var":
            return o[1]
        if o[0] == "field" and o[1][0] == "var":
            return (o[1][1], o[2])
        return None

    def slot_local(self, slot):
        return slot[0] if isinstance(slot, tuple) else slot

    def slot_ty(self, slot):
        b = self.b
        if not isinstance(slot, tuple):
            return b.local_ty(slot)
        adt = self.prog.adts.get(strip_generics(b.local_ty(slot[0]).split("<")[0])) or {}
        for v in adt.get("variants", []):
            for fl in v.get("fields", []):
                if fl[0] == slot[1]:
                    return fl[1]
        return ""

    def mentions_slot(self, o, slot):
        return bool(origin_mentions(o, lambda x: x[0] in ("var", "field") and self.slot_of(x) == slot))

    def _assign_blocks(self, slot):
        out = set()
        if slot is None:
            return out
        for bi, si, whole in self.b.defs.get(self.slot_local(slot), []):
            if bi not in self.b.live_blocks():
                continue
            if whole:
                out.add((bi, si))
            elif isinstance(slot, tuple):
                pl = self.b.blocks[bi]["term"]["dest"] if si == "T" else self.b.blocks[bi]["stmts"][si]["pl"]
                if len(pl["p"]) == 1 and pl["p"][0][0] == "f" and pl["p"][0][2] == slot[1]:
                    out.add((bi, si))
        return out

    def _param_of(self, body, o):
        p = access_path(o)
        return p

    def _sync_effect(self, b, t):
        """which of W/H a call flushes+fsyncs (directly or through a crate-local helper that does so
        on every Ok path)"""
        out = set()
        args = [arg_origin(b, t, i) for i in range(len(t["args"]))]

        def is_W(o):
            return self.W is not None and self.slot_of(o) == self.W

        def is_H(o):
            return self.H is not None and self.slot_of(o) == self.H

        if is_call_to(t, "storage::bitcask::log::LogWriter::sync") and args and is_H(args[0]):
            out.add("H")
        if is_call_to(t, "std::fs::File::sync_all", "std::fs::File::sync_data") and args:
            o = args[0]
            if self.W is not None and self.mentions_slot(o, self.W):
                out.add("W")
        if is_call_to(t, "std::io::Write::flush") and args and is_W(args[0]):
            out.add("flushW")
        cb = self.prog.callee_body(t)
        if cb is not None and cb.root == cb.path and any(is_W(a) or is_H(a) for a in args):
            # helper: which params does it sync on every Ok path?
            for i, a in enumerate(args):
                if not (is_W(a) or is_H(a)):
                    continue
                pname = cb.params[i] if cb.params and i < len(cb.params) else None
                if pname is None:
                    continue
                if is_H(a):
                    if must_call_on_ok_paths(self.prog, cb, lambda tt, pn=pname: is_call_to(tt, "storage::bitcask::log::LogWriter::sync") and access_path(cb.origin_operand(tt["args"][0])) == pn, memo={}):
                        out.add("H")
                if is_W(a):
                    fl = must_call_on_ok_paths(self.prog, cb, lambda tt, pn=pname: is_call_to(tt, "std::io::Write::flush") and access_path(cb.origin_operand(tt["args"][0])) == pn, memo={})
                    sy = must_call_on_ok_paths(self.prog, cb, lambda tt, pn=pname: is_call_to(tt, "std::fs::File::sync_all", "std::fs::File::sync_data") and pn in origin_str(cb.origin_operand(tt["args"][0])), memo={})
                    if fl:
                        out.add("flushW")
                    if fl and sy:
                        # flush must precede the fsync inside the helper
                        fbs = {bb for _, bb, tt in calls_in([cb], "std::io::Write::flush")}
                        sbs = {bb for _, bb, tt in calls_in([cb], "std::fs::File::sync_all", "std::fs::File::sync_data") if pname in origin_str(cb.origin_operand(tt["args"][0]))}
                        order = all(s not in reach(cb, [0], blocked_edges=lambda e: e.src in fbs and e.kind == "ret") for s in sbs)
                        if order:
                            out.add("W")
        return out

    def copy_flushes_on_return(self):
        """library model: std::io::copy into a BufWriter of default capacity returns only after
        flush_buf() whenever it read bytes (library/std/src/io/copy.rs, BufferedWriterSpec for
        BufWriter: the EOF-detecting read needs >= DEFAULT_BUF_SIZE spare capacity, so a non-empty
        buffer is flushed first). Applies iff W is only ever created by BufWriter::new and the copy
        helper reaches std::io::copy with its writer parameter."""
        b = self.b
        if self.W is None:
            return False, "data output writer not identified"
        if "std::io::BufWriter<std::fs::File>" not in self.slot_ty(self.W):
            return False, "data output writer is %s, not BufWriter<File>" % self.slot_ty(self.W)
        for bi, o in self.W_origins:
            pk = peel(o)
            if not (pk[0] == "call" and pk[1] == "std::io::BufWriter::new"):
                return False, "writer created by %s (capacity is not the default)" % origin_str(pk)
        # LogDir::copy -> LogReader::copy_raw -> std::io::copy(_, dst param)
        cb = self.prog.callee_body(self.copies[0][1]) if self.copies else None
        if cb is None:
            return False, "copy helper body not found"
        ok = must_call_on_ok_paths(self.prog, cb, lambda t: is_call_to(t, "std::io::copy"), memo={})
        return ok, "" if ok else "the copy helper does not reach std::io::copy on every Ok path"


def _model(ctx):
    if "merge_model" not in ctx.extra:
        ctx.extra["merge_model"] = MergeModel(ctx.prog)
    return ctx.extra["merge_model"]


def p4_merge_per_entry_order(ctx):
    r = RuleResult("P4", "Writer::merge, per entry: the index entry is re-pointed and its hint record appended only after that entry's bytes were copied (copy's Ok edge) and are in the file (writer clean: explicitly flushed, or copied by std::io::copy into a default-capacity BufWriter — library model), never before; the running output offset is read for pos before it is advanced, advanced by the copied length, and reset to 0 whenever a new output is started", floor=5)
    m = _model(ctx)
    b, f = m.b, m.f
    r.analysed = [b.path]
    if m.problems or len(m.copies) != 1 or m.W is None or m.entry_var is None:
        r.unrec(f, "merge slots", short_span(b.span), "; ".join(m.problems) or "copy call/data writer/entry variable not identified")
        return r
    cbb, ct = m.copies[0]
    model_ok, why = m.copy_flushes_on_return()
    r.note("copy leaves the data writer %s%s" % ("clean (std::io::copy model applies)" if model_ok else "DIRTY", "" if model_ok else " — " + why))
    ok_e, err_e, _ = try_edges(b, cbb)
    cok = edge_set(ok_e)
    kd_blocks = {}
    for bb, fld, o, st in m.kd_writes:
        kd_blocks.setdefault(bb, []).append(fld)
    hint_blocks = {bb for bb, t in m.hint_apps}
    # offset variable: the origin of the `pos` write
    pos_writes = [(bb, o) for bb, fld, o, st in m.kd_writes if fld == "pos"]
    offv = None
    posread_at = None  # (block, statement) where the offset is read into a copy, when entry.pos is stored from a copy
    if len(pos_writes) == 1 and peel_var(pos_writes[0][1])[0] == "var":
        o_ = pos_writes[0][1]
        # `let pos = offset; offset += n; entry.pos = pos`: the running offset is the variable that was copied
        while o_[0] == "var" and o_[3] is not None and o_[3][0] == "var":
            o_ = o_[3]
        offv = o_[1] if o_[0] == "var" else None
        if offv is not None and o_ is not pos_writes[0][1]:
            # where the running offset is read: the definition of the copy that is stored into entry.pos
            c_ = pos_writes[0][1]
            while c_[0] == "var" and c_[3] is not None and c_[3][0] == "var" and c_[3] is not o_:
                c_ = c_[3]
            cds = [d_ for d_ in b.defs.get(c_[1], []) if d_[2] and d_[1] != "T"]
            if len(cds) >= 1:
                posread_at = {(bi_, si_) for bi_, si_, _ in cds}
    inc_blocks, reset_blocks = set(), set()
    inc_idx = {}
    if offv is not None:
        for bi, si, whole in b.defs.get(offv, []):
            if not whole or si == "T" or bi not in b.live_blocks():
                continue
            o = m.forward_entry_reads(b.origin_rvalue(b.blocks[bi]["stmts"][si]["rv"]), bi)
            if const_int(o) == 0:
                reset_blocks.add(bi)
            elif origin_mentions(o, lambda x: x[0] == "call" and x[3] == (b.path, cbb)) and origin_mentions(o, lambda x: x[0] == "var" and x[1] == offv) and "Add" in origin_str(o):
                inc_blocks.add(bi)
                inc_idx[bi] = si
            else:
                r.unrec(f, "assignment to the running output offset", where(b, bi), "offset := %s (neither 0 nor offset + copied length)" % origin_str(o))
    W_new = {bi for bi, si in m.W_assign}

    # state: (copied_this_iter, clean, pos_read, advanced, fresh_output, offset_is_zero, hinted)
    def events(bb, e):
        out = []
        if bb in kd_blocks:
            out.append("kd:" + ",".join(kd_blocks[bb]))
        pr = [si_ for bi_, si_ in (posread_at or ()) if bi_ == bb]
        if pr:
            # in one block with the advance: statement order decides
            out.append("posread" if not (bb in inc_idx and inc_idx[bb] < min(pr)) else "posread-late")
        if bb in inc_blocks:
            out.append("inc")
        if bb in reset_blocks:
            out.append("reset")
        if bb in W_new:
            out.append("newW")
        if e is not None:
            if bb in hint_blocks and e.kind == "ret":
                out.append("hint")
            if bb in m.flush_sites and e.kind == "ret":
                out.append("flush")
            if (e.src, e.dst) in cok:
                out.append("copied")
            if bb == m.copy_loop_next and e.kind == "ret":
                out.append("iter")
        return sorted(out, key=lambda x: {"kd": 0, "posread": 0, "inc": 1, "posread-late": 1.5, "reset": 1, "newW": 1}.get(x.split(":")[0], 2))

    def delta(s, ev):
        copied, clean, posr, adv, fresh, offzero, hinted = s
        if ev == "iter":
            if copied and not adv:
                return "!the output offset is not advanced by the copied length before the next entry (entries would overlap in the index)"
            if copied and not hinted and hint_blocks:
                return "!an entry was copied and re-pointed but no hint record was appended for it in this iteration (recovery from hints would miss or misplace the key)"
            return (False, clean, False, False, fresh, offzero, False)
        if ev == "copied":
            if fresh and not offzero:
                return "!a new output file was started but the running offset was not reset to 0 before the next copy (entries in the new file are indexed at the cumulative offset)"
            return (True, model_ok, posr, adv, False, offzero, False)
        if ev == "flush":
            return (copied, True, posr, adv, fresh, offzero, hinted)
        if ev.startswith("kd:") or ev == "hint":
            what = "index entry re-pointed" if ev.startswith("kd:") else "hint record appended"
            if not copied:
                return "!%s before this entry's bytes were copied (or although the copy failed)" % what
            if not clean:
                return "!%s while the copied bytes are still buffered in the data writer (a concurrent get, or recovery after a kill, would read past the end of the file)" % what
            if ev.startswith("kd:") and "pos" in ev.split(":")[1].split(","):
                if posread_at is not None:
                    if not posr:
                        return "!entry.pos is stored from a copy of the running offset that was not taken in this iteration"
                elif adv:
                    return "!entry.pos is taken from the running offset after it was advanced (points at the end of the entry)"
                posr = True
            if ev == "hint":
                if not posr:
                    return "!hint record appended before the entry's new position was stored"
                if fresh:
                    return "!hint record appended after the outputs were switched: it lands in the hint file of the NEXT output although the entry lives in the previous one"
                hinted = True
            return (copied, clean, posr, adv, fresh, offzero, hinted)
        if ev in ("posread", "posread-late"):
            if adv or ev == "posread-late":
                return "!entry.pos is taken from the running offset after it was advanced (points at the end of the entry)"
            return (copied, clean, True, adv, fresh, offzero, hinted)
        if ev == "inc":
            return (copied, clean, posr, True, fresh, False, hinted)
        if ev == "reset":
            return (copied, clean, posr, adv, fresh, True, hinted)
        if ev == "newW":
            if copied and not hinted and hint_blocks:
                return "!the outputs are switched (rollover) before the hint record of the entry just copied was appended: the record would describe data file N in hint file N+1"
            return (copied, clean, posr, adv, True, offzero, hinted)
        return s

    def on_exit(s, kind, rc, bb):
        return None

    # the initial creation of W also sets need_reset; the initial `offset = 0` precedes or follows it — both orders are fine
    vs = explore(b, (False, True, False, False, False, False, False), events, delta, on_exit, follow=no_unwind)
    if vs:
        for v in vs:
            r.bad(f, "copy(ok) ≺ [index re-point, hint append]; offset discipline", where(b, v.path[-1]), v.msg, witness(b, v))
    else:
        r.ok(f, "copy(ok) ≺ [index re-point, hint append]; offset discipline", where(b, cbb), "%d index field writes, %d hint append(s), offset var %s" % (len(m.kd_writes), len(m.hint_apps), b.local_names.get(offv)))
    # what is written into the entry
    by = {fld: o for bb, fld, o, st in m.kd_writes}
    good_len = "len" in by and bool(origin_mentions(by["len"], lambda x: x[0] == "call" and x[3] == (b.path, cbb)))
    r.add(f, "entry.len = copied length", good_len, where(b, cbb), origin_str(by.get("len", ("unknown", "missing"))))
    idp = [i for bb, k, i in m.creates if k == "datafile_name"]
    fid_ok = "fileid" in by and access_path(by["fileid"]) is not None and all(access_path(by["fileid"]) == i for i in idp) and bool(idp)
    r.add(f, "entry.fileid = id of the output being written (S7)", fid_ok, where(b, cbb), "fileid := %s; outputs named by %s" % (origin_str(by.get("fileid", ("unknown", "missing"))), idp))
    r.add(f, "entry.pos = running output offset", offv is not None, where(b, cbb))
    must = {"fileid", "len", "pos"}
    r.add(f, "all of fileid/len/pos are re-pointed", must <= set(by), where(b, cbb), "written: %s" % sorted(by))
    # copy reads the entry's current location
    for i, fld in ((2, "fileid"), (3, "len"), (4, "pos")):
        o = peel_var(arg_origin(b, ct, i))
        good = o[0] == "field" and o[2] == fld
        r.add(f, "copy source %s = entry.%s" % (fld, fld), good, where(b, cbb), origin_str(o))
    # hint record mirrors the entry
    for hbb, ht in m.hint_apps:
        ho = peel(arg_origin(b, ht, 1))
        if ho[0] != "agg":
            r.unrec(f, "hint record literal", where(b, hbb), origin_str(ho))
            continue
        for fld in ("tstamp", "len", "pos"):
            fo = ho[4].get(fld)
            pe = fo
            good = fo is not None and fo[0] == "field" and fo[2] == fld and fo[1][0] == "var" and fo[1][1] == m.entry_var
            # or the very value the entry's field was re-pointed to in this iteration (`len: nbytes`)
            def root_(x):
                # `let pos = offset;` is the offset as it was there
                while x is not None and x[0] == "var" and x[3] is not None and x[3][0] == "var":
                    x = x[3]
                return x
            if not good and fo is not None and fld in by and fo != by[fld] and root_(fo) == root_(by[fld]) and root_(fo)[0] == "var" and root_(fo)[3] is None:
                fo = root_(fo)
                by = dict(by)
                by[fld] = fo
            if not good and fo is not None and fld in by and fo == by[fld]:
                good = True
                if fo[0] == "var" and fo[3] is None:
                    # a running variable: it must not be advanced between the entry's re-pointing
                    # and the construction of the hint record
                    kb = [bb for bb, f2, o2, st2 in m.kd_writes if f2 == fld]
                    hb = [bb for bb in b.live_blocks() for st2 in b.blocks[bb]["stmts"] if st2["k"] == "assign" and st2["rv"]["k"] == "agg" and st2["rv"]["ak"] == "adt" and strip_generics(st2["rv"]["adt"]).endswith("HintFileEntry")]
                    defs = {d[0] for d in b.defs.get(fo[1], [])}
                    for k0 in kb:
                        for h0 in hb:
                            between = reach(b, [k0], blocked_edges=lambda e: e.kind == "unwind", blocked_blocks={h0}) - {k0}
                            for d0 in defs & between:
                                if h0 in reach(b, [d0], blocked_edges=lambda e: e.kind == "unwind"):
                                    good = False
            r.add(f, "hint.%s = entry.%s" % (fld, fld), good, where(b, hbb), origin_str(fo) if fo else "missing")
        ko = ho[4].get("key")
        good = ko is not None and bool(origin_mentions(ko, lambda x: x[0] == "call" and x[1] and x[1].split("::")[-1] in ("key", "pair", "pair_mut") and x[2] and x[2][0][0] == "var" and x[2][0][1] == m.entry_var))
        if not good and ko is not None and m.entry_var is not None:
            # `let (key, entry) = guard.pair_mut();`: key and entry come out of the same call
            eo = b.origin_local(m.entry_var)
            sites = {x[3] for x in origin_mentions(eo, lambda x: x[0] == "call" and x[1] and x[1].split("::")[-1] in ("pair", "pair_mut"))}
            good = bool(sites) and bool(origin_mentions(ko, lambda x: x[0] == "call" and x[3] in sites))
        r.add(f, "hint.key = entry key", good, where(b, hbb), origin_str(ko) if ko else "missing")
    return r


def p5_merge_outputs_before_unlink(ctx):
    r = RuleResult("P5", "Writer::merge, per output writer (data and hint): no source file is unlinked, no output is replaced at rollover and Ok is not returned while an output written since its creation has not been flushed and fsynced with the results checked (P5a/P5a'/P5b); the unlink loop removes accounting entry, hint file and data file of every selected id, tolerating only NotFound (P5c), in ascending id order; on every Ok path the active file is rotated above the outputs (P16)", floor=8)
    m = _model(ctx)
    b, f = m.b, m.f
    r.analysed = [b.path]
    if m.problems or m.W is None or m.H is None or len(m.copies) != 1:
        r.unrec(f, "merge slots", short_span(b.span), "; ".join(m.problems) or "writers not identified")
        return r
    cbb, ct = m.copies[0]
    ok_e, _, _ = try_edges(b, cbb)
    cok = edge_set(ok_e)
    hok = set()
    for hbb, ht in m.hint_apps:
        oe, _, _ = try_edges(b, hbb)
        hok |= edge_set(oe)
    # sync sites count on their Ok edge
    syncW_ok, syncH_ok = set(), set()
    for bb in m.sync_sites["W"]:
        oe, _, _ = try_edges(b, bb)
        syncW_ok |= edge_set(oe)
    for bb in m.sync_sites["H"]:
        oe, _, _ = try_edges(b, bb)
        syncH_ok |= edge_set(oe)
    W_new = {bi for bi, si in m.W_assign}
    H_new = {bi for bi, si in m.H_assign}
    unlink_bbs = {bb for bb, t in m.unlinks}
    r.note("sync sites: data %s, hint %s" % (sorted(where(b, x) for x in m.sync_sites["W"]), sorted(where(b, x) for x in m.sync_sites["H"])))

    # state: (W_unsynced, H_unsynced)
    def events(bb, e):
        out = []
        if bb in W_new:
            out.append("newW")
        if bb in H_new:
            out.append("newH")
        if e is not None:
            k = (e.src, e.dst)
            if k in cok:
                out.append("wroteW")
            if k in hok:
                out.append("wroteH")
            if k in syncW_ok:
                out.append("syncW")
            if k in syncH_ok:
                out.append("syncH")
            if bb in unlink_bbs:
                out.append("unlink")
        return sorted(out, key=lambda x: 0 if x.startswith("new") else 1)

    def delta(s, ev):
        w, h = s
        if ev == "newW":
            if w:
                return "!the data output is replaced (rollover) while what was copied into it has not been flushed and fsynced with the result checked: BufWriter's Drop would swallow a flush error, and the file is not durable"
            return (False, h)
        if ev == "newH":
            if h:
                return "!the hint output is replaced (rollover) without having been fsynced"
            return (w, False)
        if ev == "wroteW":
            return (True, h)
        if ev == "wroteH":
            return (w, True)
        if ev == "syncW":
            return (False, h)
        if ev == "syncH":
            return (w, False)
        if ev == "unlink":
            if w:
                return "!a source file is unlinked while the merged data file has not been flushed+fsynced (power loss would lose the only durable copy; a swallowed flush error would lose it outright)"
            if h:
                return "!a source file is unlinked while the hint file has not been fsynced (after power loss recovery reads the possibly empty hint file instead of scanning the data)"
        return s

    def on_exit(s, kind, rc, bb):
        if kind == "return" and rc != "err" and (s[0] or s[1]):
            return "returns Ok with %s output written but not flushed+fsynced" % ("the data" if s[0] else "the hint")
        return None

    vs = explore(b, (False, False), events, delta, on_exit, follow=no_unwind)
    if vs:
        for v in vs:
            r.bad(f, "outputs flushed+fsynced (checked) ≺ replace / unlink / Ok", where(b, v.path[-1]), v.msg, witness(b, v))
    else:
        r.ok(f, "outputs flushed+fsynced (checked) ≺ replace / unlink / Ok", where(b, cbb))
    # ---- P5c: unlink loop
    if m.sel_call is None:
        r.unrec(f, "selection set", short_span(b.span), "fileids_to_merge call not found")
        return r
    sel_local_ty = None
    _, sbb, st = m.sel_call
    sig = ctx.prog.fnsigs.get("storage::bitcask::Context::fileids_to_merge")
    out_ty = sig["output"] if sig else ""
    asc = "std::collections::BTreeSet<u64>" in out_ty
    r.add(f, "selection set iterates in ascending id order (BTreeSet<u64>)", asc, where(b, sbb), "fileids_to_merge returns %s" % out_ty)
    nb = m.unlink_loop_next
    it_o = arg_origin(b, b.term(nb), 0)
    adapters = origin_mentions(it_o, lambda x: x[0] == "call" and x[1] and x[1].split("::")[-1] in ("rev", "skip", "take", "step_by", "filter", "skip_while", "take_while", "chain", "rposition"))
    r.add(f, "the unlink loop walks the selection set front to back, all of it", not adapters, where(b, nb), "" if not adapters else "iterator adapter %s on the selection: inputs are not removed oldest-first (a kill in between can leave a value file without the tombstone file that deletes it) or not all of them" % adapters[0][1].split("::")[-1])
    some_dst = None
    info = None
    for bb in b.live_blocks():
        inf = b.switch_info(bb)
        if inf and inf["kind"] == "variant":
            o = peel_var(inf["on"])
            if o[0] == "call" and o[3] == (b.path, nb):
                for e in b.succ[bb]:
                    if inf["arms"].get(e.dst) == ["Some"]:
                        some_dst = e.dst
    if some_dst is None:
        r.unrec(f, "unlink loop body", where(b, nb), "Some edge of the loop's next() not found")
        return r
    # per iteration: every path from the Some edge back to next() (not leaving by error) passes stats.remove, unlink(hint), unlink(data) with the loop id
    loop_id = None
    kinds = {}
    for bb, t in m.unlinks:
        o = peel(arg_origin(b, t, 0))
        if o[0] == "call" and o[1]:
            kinds[bb] = (o[1].split("::")[-1], (access_path(o[2][1]) or origin_str(peel(o[2][1]))) if len(o[2]) > 1 else None)
    req = []
    for bb, (k, idp) in sorted(kinds.items()):
        req.append((bb, "unlink(%s)" % k, idp))
    for bb, t in m.stats_removes:
        req.append((bb, "stats.remove", access_path(arg_origin(b, t, 1)) or origin_str(peel(arg_origin(b, t, 1)))))
    want = {"unlink(hintfile_name)", "unlink(datafile_name)", "stats.remove"}
    have = {w for bb, w, idp in req}
    r.add(f, "unlink loop removes accounting, hint file and data file", want <= have, where(b, nb), "found %s" % sorted(have))
    ids = {idp for bb, w, idp in req}
    r.add(f, "all three use the loop's id (S7)", len(ids) == 1 and None not in ids, where(b, nb), "ids: %s" % sorted(str(i) for i in ids))
    for bb, w, idp in req:
        # reachable back to next() from Some edge without passing this site's normal return?
        p = path_to(b, [some_dst], lambda x: x == nb, blocked_edges=lambda e: e.kind == "unwind" or (e.src == bb and e.kind == "ret"))
        r.add(f, "every iteration performs %s" % w, p is None, where(b, bb), "" if p is None else "an iteration can skip it", describe_path(b, p) if p else None)
    for bb, t in m.unlinks:
        # error routing: Err edge continues only when kind == NotFound
        info = None
        for sb in b.live_blocks():
            inf = b.switch_info(sb)
            if inf and inf["kind"] == "variant":
                o = peel_var(inf["on"])
                if o[0] == "call" and o[3] == (b.path, bb):
                    info = (sb, inf)
        if info is None:
            r.bad(f, "%s: result inspected" % kinds.get(bb, ("?",))[0], where(b, bb), "the unlink result is not examined (an error would be dropped)")
            continue
        sb, inf = info
        for e in b.succ[sb]:
            if inf["arms"].get(e.dst) == ["Err"]:
                # edges meaning "kind is NotFound"
                nf_edges = set()
                for xb in reach(b, [e.dst], blocked_edges=lambda x: x.kind == "unwind"):
                    xi = b.switch_info(xb)
                    if xi and xi["kind"] == "bool":
                        o = peel_var(xi["on"])
                        if o[0] == "call" and o[1] in ("std::cmp::PartialEq::ne", "std::cmp::PartialEq::eq") and "NotFound" in origin_str(o) and "kind" in origin_str(o):
                            want_val = o[1].endswith("::eq")
                            for e2 in b.succ[xb]:
                                if xi["arms"].get(e2.dst) == [want_val]:
                                    nf_edges.add((e2.src, e2.dst))
                    elif xi and xi["kind"] == "variant" and "kind" in origin_str(xi["on"]):
                        for e2 in b.succ[xb]:
                            if xi["arms"].get(e2.dst) == ["NotFound"]:
                                nf_edges.add((e2.src, e2.dst))
                # without NotFound edges, the Err edge must only reach error returns (never the loop head / Ok)
                cont = path_to(b, [e.dst], lambda x: x == nb, blocked_edges=lambda x: x.kind == "unwind" or (x.src, x.dst) in nf_edges)
                classes = {c for c, d, rb in ret_classes(b, e.dst, lambda x: x.kind == "unwind" or (x.src, x.dst) in nf_edges)}
                good = cont is None and classes <= {"err"}
                r.add(f, "%s: only NotFound is tolerated, other errors are returned" % kinds.get(bb, ("?",))[0], good and bool(nf_edges), where(b, bb), "" if good else "an unlink error other than NotFound does not end the merge with Err")
    # ---- P16: rotation
    if len(m.rotates) != 1:
        r.bad(f, "new_active_datafile ×%d" % len(m.rotates), short_span(b.span), "the merge must switch the active file above its outputs exactly once")
    else:
        rbb, rt = m.rotates[0]
        oe, ee, _ = try_edges(b, rbb)
        rok = edge_set(oe)
        # only paths on which merge outputs were created need the rotation (an early return when
        # nothing is selected creates no file with an id above the active one)
        starts = set()
        for cbb2, _t in [(x, None) for x in {bi for bi, si in m.W_assign} | {bi for bi, si in m.H_assign}]:
            starts.add(cbb2)
        classes = set()
        passthrough = False
        for sbb in starts:
            for c, d, rb in ret_classes(b, sbb, lambda e: e.kind == "unwind" or (e.src, e.dst) in rok):
                if c == "pass" and d == (rbb, "T"):
                    passthrough = True  # `self.new_active_datafile(..)` returned as is: Ok only if it rotated
                    continue
                classes.add(c)
        leak = [c for c in classes if c not in ("err", "unwind")]
        r.add(f, "P16: every Ok return rotated the active file (new_active_datafile ok)", (bool(rok) or passthrough) and not leak, where(b, rbb), "" if not leak else "the merge can return Ok while the writer keeps appending to a file whose id is below the merge outputs — recovery would replay later writes before the merged copies")
        ao = peel_var(arg_origin(b, rt, 1))
        idp = [i for bb, k, i in m.creates if k == "datafile_name"]
        s = origin_str(ao)
        if None in idp:
            r.unrec(f, "P16: id the outputs are named by", short_span(b.span), "an output file is named by an expression, not by the id variable")
            idp = [i for i in idp if i is not None]
        for x_, v_ in m.id_aliases.items():
            # a variable that is set back to the id variable after the loop stands for it
            s = s.replace(x_, v_)
        good = bool(idp) and all(("var:" + i.split("var:")[-1]) in s or i in s for i in idp) and "Add" in s and "const 1" in s
        r.add(f, "P16: new active id = last output id + 1", good, where(b, rbb), s)
        # rotation only after the unlink loop finished (a failed merge keeps the old active file)
    # ---- P5d: a merge that returns Ok removed what it selected
    nb = m.unlink_loop_next
    if nb is not None:
        none_edges = set()
        for bb in b.live_blocks():
            inf = b.switch_info(bb)
            if inf and inf["kind"] == "variant":
                o = peel_var(inf["on"])
                if o[0] == "call" and o[3] == (b.path, nb):
                    for e in b.succ[bb]:
                        if inf["arms"].get(e.dst) == ["None"]:
                            none_edges.add((e.src, e.dst))
        # the one admissible shortcut: the selection itself is empty
        empty_edges = set()
        for bb in b.live_blocks():
            inf = b.switch_info(bb)
            if inf and inf["kind"] == "bool":
                o = peel_var(inf["on"])
                neg = False
                if o[0] == "un" and o[1] == "Not":
                    o, neg = peel_var(o[2]), True
                if o[0] == "call" and o[1] and o[1].split("::")[-1] == "is_empty" and m.sel_site and origin_mentions(o, lambda x: x[0] == "call" and x[3] == m.sel_site):
                    for e in b.succ[bb]:
                        if inf["arms"].get(e.dst) == [not neg]:
                            empty_edges.add((e.src, e.dst))
        cls = {c for c, d, rb in ret_classes(b, 0, lambda e: e.kind == "unwind" or (e.src, e.dst) in none_edges or (e.src, e.dst) in empty_edges)}
        leak = [c for c in cls if c not in ("err", "unwind")]
        r.add(f, "P5d: every Ok return went through the whole unlink loop (or the selection was empty)", bool(none_edges) and not leak, where(b, nb), "" if not leak else "the merge can return Ok without removing the files it selected (their dead data is never reclaimed; the next pass selects and skips them again)")
    return r


def s7_s8_merge_sets(ctx):
    r = RuleResult("S7/S8", "Writer::merge: data and hint output of one generation are named by the same id variable (S7); the set that filters which index entries are copied is the very set whose files are unlinked, unmodified in between, and the filter keeps exactly the entries located in that set (S8)", floor=4)
    m = _model(ctx)
    b, f = m.b, m.f
    prog = ctx.prog
    r.analysed = [b.path]
    # S7: creations pair up
    d = [i for bb, k, i in m.creates if k == "datafile_name"]
    h = [i for bb, k, i in m.creates if k == "hintfile_name"]
    r.add(f, "S7: each data output has a hint output (%d/%d)" % (len(d), len(h)), len(d) == len(h) and len(d) >= 1, short_span(b.span))
    ids = set(d) | set(h)
    r.add(f, "S7: data and hint outputs are named by the same id variable", len(ids) == 1 and None not in ids, short_span(b.span), "ids: %s" % sorted(str(x) for x in ids))
    # creation order: the data file of a generation exists before its hint file (recovery derives
    # ids from data files only: an orphan hint with a fresh id would be adopted by the next data file)
    for cb in shipped_bodies(prog):
        cs = [(bb, t, peel(arg_origin(cb, t, 0))) for _, bb, t in calls_in([cb], "storage::bitcask::log::create")]
        hs = [(bb, t) for bb, t, o in cs if o[0] == "call" and o[1] and o[1].endswith("hintfile_name")]
        ds = [(bb, t) for bb, t, o in cs if o[0] == "call" and o[1] and o[1].endswith("datafile_name")]
        for hb, ht in hs:
            dom = False
            for db, dt in ds:
                ok_e, _, _ = try_edges(cb, db)
                oks = {(e.src, e.dst) for e in (ok_e or [])}
                if oks and hb not in reach(cb, [0], blocked_edges=lambda e: (e.src, e.dst) in oks):
                    dom = True
            r.add(fam_name(cb), "S7: hint file is created only after its data file was created", dom, where(cb, hb), "" if dom else "a crash between the two creates leaves a hint file whose id no data file has: the id is reused and the stale hint shadows the new data file")
    # the stats entry counted live is the output's id
    for _, bb, t in calls_in([b], "storage::bitcask::log::LogStatistics::add_live"):
        o = arg_origin(b, t, 0)
        ents = origin_mentions(o, lambda x: x[0] == "call" and x[1] == "dashmap::DashMap::entry")
        # (`stats.entry(entry.fileid)` right after `entry.fileid = id` is keyed by id)
        good = bool(ents) and all(access_path(m.forward_entry_reads(e[2][1], e[3][1])) in ids for e in ents)
        r.add(f, "S7: copied entry counted live on the output's id", good, where(b, bb), origin_str(o))
        # the accounting entry is looked up per copied entry (after the copy, in the same iteration):
        # a lookup hoisted out of the loop keeps counting on the first output after a rollover
        if m.copies and m.copy_loop_next is not None:
            cbb2 = m.copies[0][0]
            okc, _, _ = try_edges(b, cbb2)
            region = reach(b, [e.dst for e in (okc or [])], blocked_edges=lambda e: e.kind == "unwind", blocked_blocks={m.copy_loop_next})
            inloop = bool(ents) and all(e[3][1] in region for e in ents)
            r.add(f, "S7: the output's accounting entry is looked up for each copied entry (not hoisted out of the loop)", inloop, where(b, bb), "" if inloop else "stats.entry(output id) is evaluated before the loop: after a rollover the later outputs are never counted")
    # S8
    if m.sel_site is None or m.copy_loop_next is None:
        r.unrec(f, "selection set / copy loop", short_span(b.span), "not found")
        return r

    def from_sel(o):
        return bool(origin_mentions(o, lambda x: x[0] == "call" and x[3] == m.sel_site))

    filt = [(bb, t) for _, bb, t in calls_in([b], "std::iter::Iterator::filter") if origin_mentions(arg_origin(b, t, 0), lambda x: x[0] == "call" and x[1] and x[1].endswith("DashMap::iter_mut"))]
    decided = False
    if len(filt) == 1:
        fbb, ft = filt[0]
        co = peel(arg_origin(b, ft, 1))
        if co[0] == "agg" and co[1] == "closure":
            caps = co[4]
            cap_ok = len(caps) >= 1 and any(from_sel(v) for v in caps.values())
            cb = prog.bodies.get(co[2])
            body_ok = False
            detail = ""
            if cb is not None:
                cont = [(bb, t) for _, bb, t in calls_in([cb], "std::collections::BTreeSet::contains", "std::collections::HashSet::contains", "std::collections::BTreeSet::get")]
                if len(cont) == 1:
                    cbb2, ct2 = cont[0]
                    set_o = cb.origin_operand(ct2["args"][0])
                    key_o = cb.origin_operand(ct2["args"][1])
                    set_is_cap = set_o[0] in ("upvar",) or (set_o[0] == "field" and set_o[1][0] == "upvar")
                    key_is_fileid = key_o[0] == "field" and key_o[2] == "fileid"
                    # returned unchanged
                    rets = ret_classes(cb, 0, lambda e: e.kind == "unwind")
                    direct = all(c == "pass" and d == (cbb2, "T") for c, d, rb in rets)
                    body_ok = set_is_cap and key_is_fileid and direct
                    detail = "contains(%s, %s) returned %s" % (origin_str(set_o), origin_str(key_o), "as is" if direct else "transformed")
                else:
                    detail = "%d contains() calls" % len(cont)
            r.add(f, "S8: copy filter captures the selection set", cap_ok, where(b, fbb))
            r.add(f, "S8: filter keeps exactly entries whose fileid is in the set", body_ok, where(b, fbb), detail)
            decided = True
    if not decided:
        # guard idiom: `if !set.contains(&entry.fileid) { continue }` dominating the copy
        cbb, ct = m.copies[0] if m.copies else (None, None)
        guards = set()
        for bb in b.live_blocks():
            inf = b.switch_info(bb)
            if inf and inf["kind"] == "bool":
                o = peel_var(inf["on"])
                neg = False
                if o[0] == "un" and o[1] == "Not":
                    neg = True
                    o = peel_var(o[2])
                if o[0] == "call" and o[1] and o[1].endswith("::contains") and from_sel(o[2][0]) and "fileid" in origin_str(o[2][1]):
                    for e in b.succ[bb]:
                        if inf["arms"].get(e.dst) == [not neg]:
                            guards.add((e.src, e.dst))
        if guards and cbb is not None:
            dom = cbb not in reach(b, [m.copy_loop_next], blocked_edges=lambda e: (e.src, e.dst) in guards)
            r.add(f, "S8: copy guarded by selection.contains(entry.fileid)", dom, where(b, cbb))
        else:
            r.bad(f, "S8: copy loop is filtered by the selection set", where(b, m.copy_loop_next), "no filter closure and no contains() guard found: entries of files that are not removed would be copied (space never reclaimed) or entries of removed files skipped (data loss)")
    # unlink loop iterates the same set
    o = arg_origin(b, b.term(m.unlink_loop_next), 0)
    r.add(f, "S8: unlink loop iterates the selection set", from_sel(o), where(b, m.unlink_loop_next), origin_str(o))
    # not mutated in between: no &mut use / insert / remove on the set variable in merge
    muts = [(bb, t) for _, bb, t in calls_in([b], "std::collections::BTreeSet::insert", "std::collections::BTreeSet::remove", "std::collections::BTreeSet::clear", "std::collections::BTreeSet::retain", "std::collections::BTreeSet::extend", "std::collections::BTreeSet::append", "std::collections::BTreeSet::pop_first", "std::collections::BTreeSet::pop_last", "std::collections::BTreeSet::split_off", "std::iter::Extend::extend") if from_sel(arg_origin(b, t, 0))]
    r.add(f, "S8: the selection set is not modified inside merge", not muts, where(b, muts[0][0]) if muts else short_span(b.span))
    return r


def t1_tombstone_conservation(ctx):
    r = RuleResult("T1", "conservation of deletion markers: when recovery gives tombstones meaning (S2), a merge that unlinks whole files must either re-emit the tombstones they hold or select a set of files closed under 'older id' — otherwise a tombstone can be dropped while an older, unselected file still holds the value it deletes", floor=1)
    prog = ctx.prog
    m = _model(ctx)
    b, f = m.b, m.f
    # (a) recovery honours tombstones
    pd = prog.family("storage::bitcask::populate_keydir_with_datafile")
    honours = any(calls_in([x], "dashmap::DashMap::remove", "dashmap::DashMap::remove_if") for x in pd)
    # (b) merge emits tombstones?
    reach_b = prog.reachable_bodies([b.path])
    scans = any(strip_generics(p).endswith("LogIterator::next") for p in reach_b)
    writes_entries = False
    for _, bb, t in calls_in([prog.bodies[p] for p in reach_b], "storage::bitcask::log::LogWriter::append"):
        pass
    for p in reach_b:
        pbody = prog.bodies[p]
        for bb in pbody.live_blocks():
            for st in pbody.blocks[bb]["stmts"]:
                if st["k"] == "assign" and st["rv"]["k"] == "agg" and st["rv"]["ak"] == "adt" and strip_generics(st["rv"]["adt"]).endswith("::DataFileEntry"):
                    writes_entries = True
    emits = scans or writes_entries
    # (c) selection closed under "older"?
    sb = prog.one("storage::bitcask::Context::fileids_to_merge")
    ins = [(bb, t) for _, bb, t in calls_in([sb], "std::collections::BTreeSet::insert", "std::collections::HashSet::insert")]
    ext = [(bb, t) for _, bb, t in calls_in([sb], "std::iter::Extend::extend", "std::collections::BTreeSet::range", "std::collections::BTreeSet::split_off", "std::collections::BTreeSet::append", "std::iter::Iterator::collect")]
    closed = None
    why = ""
    if len(ins) == 1 and not ext:
        ibb = ins[0][0]
        # is the insert control-dependent on a per-file predicate? (a bool switch inside the loop that can skip it)
        nexts = [bb for _, bb, t in calls_in([sb], "std::iter::Iterator::next")]
        cond = False
        for nb in nexts:
            p = path_to(sb, [sb.term(nb)["t"]], lambda x: x == nb, blocked_edges=lambda e: e.kind == "unwind" or (e.src == ibb))
            # is there a way around the insert that goes through the Some arm (i.e. an entry was seen)?
            for bb in sb.live_blocks():
                inf = sb.switch_info(bb)
                if inf and inf["kind"] == "variant":
                    o = peel_var(inf["on"])
                    if o[0] == "call" and o[3] == (sb.path, nb):
                        for e in sb.succ[bb]:
                            if inf["arms"].get(e.dst) == ["Some"]:
                                p2 = path_to(sb, [e.dst], lambda x: x == nb, blocked_edges=lambda e2: e2.kind == "unwind" or e2.src == ibb)
                                if p2 is not None:
                                    cond = True
        closed = not cond
        why = "every file with accounting is selected" if closed else "files are selected one by one by a per-file predicate (dead bytes / fragmentation / size)"
    elif not ins and len(ext) == 1 and strip_generics(ext[0][1].get("callee") or "").endswith("Iterator::collect"):
        # the set is collected from an iterator chain over the accounting map: a filter / filter_map
        # stage is a per-file predicate, a bare map selects every file
        src = arg_origin(sb, ext[0][1], 0)
        over_stats = bool(origin_mentions(src, lambda x: x[0] == "call" and x[1] and x[1].startswith("dashmap::DashMap::iter") and x[2] and (access_path(x[2][0]) or "").endswith("stats")))
        stages = {x[1].split("::")[-1] for x in origin_mentions(src, lambda x: x[0] == "call" and x[1] and x[1].startswith("std::iter::Iterator::"))}
        if over_stats and stages <= {"filter", "filter_map", "map", "copied", "cloned", "flatten", "map_while", "take_while", "skip_while", "filter_map_ok"}:
            cond = bool(stages & {"filter", "filter_map", "flatten", "map_while", "take_while", "skip_while"})
            closed = not cond
            why = "every file with accounting is selected" if closed else "files are selected one by one by a per-file predicate (dead bytes / fragmentation / size)"
        else:
            why = "selection collected from %s: idiom not in the table" % sorted(stages)
    else:
        why = "%d insert site(s), %d extending call(s): selection idiom not in the table" % (len(ins), len(ext))
    r.analysed = [b.path, sb.path] + [x.path for x in pd]
    r.note("recovery honours tombstones: %s; merge re-emits tombstones: %s; selection closed under 'older': %s (%s)" % (honours, emits, closed, why))
    if not honours:
        r.ok(f, "tombstones are not interpreted by recovery (T1 vacuous; S2 reports that)", short_span(b.span))
        return r
    if emits:
        r.ok(f, "merge re-emits deletion markers (scans the selected files / writes DataFileEntry records)", short_span(b.span))
        return r
    if closed is None:
        r.unrec(f, "unlink of a selection whose closure under 'older id' cannot be decided", short_span(sb.span), why)
        return r
    r.add(f, "unlink of per-file-predicate selection without tombstone re-emission", closed, where(b, m.unlinks[0][0]) if m.unlinks else short_span(b.span), "" if closed else "merge copies only index entries (live records), unlinks the selected files whole, and %s: a tombstone in a selected file is dropped while an older unselected file may still hold the value — the key is back after reopen" % why, None)
    return r

"""K2 (server / background side): P8, P9, P10, P11, P12, P15 and W3."""
import re

from asyncx import *
from common import *
from engine import RuleResult
from k2 import edge_set, no_unwind, real_unwind
from pathauto import explore, witness


def _body_with(fam, *names):
    for b in fam:
        if calls_in([b], *names):
            return b
    return None


def resolve_upvar(prog, body, name):
    """origin (in the creating body) of the value a closure/coroutine captured under `name`"""
    cs = creation_sites(prog, body)
    if len(cs) != 1:
        return None, None
    pb, pbb = cs[0]
    for st in pb.blocks[pbb]["stmts"]:
        if st["k"] == "assign" and st["rv"]["k"] == "agg" and st["rv"].get("def") == body.path:
            o = pb.origin_rvalue(st["rv"])
            for fld, fo in o[4].items():
                if fld == name or fld.replace("__", ".") == name:
                    return pb, fo
    return pb, None


# ---------------------------------------------------------------------------------------------


def p10_accept_loop(ctx):
    r = RuleResult("P10", "Listener::listen, per loop iteration: one permit is acquired and forgotten (not dropped) before accept; on every continuing path the accepted socket becomes a Handler that holds a clone of the semaphore, a Shutdown subscribed to notify_shutdown and a clone of shutdown_complete_tx, and that Handler is moved into a task given to tokio::spawn whose body awaits Handler::run (W3a)", floor=8)
    prog = ctx.prog
    fam = prog.family("net::server::Listener::listen")
    b = _body_with(fam, "tokio::sync::Semaphore::acquire")
    f = "net::server::Listener::listen"
    ba = b  # the body that takes the permit
    if b is None:
        # the permit may be taken at the top of Listener::accept() instead (once per call, before its retry loop)
        ba = _body_with(prog.family("net::server::Listener::accept"), "tokio::sync::Semaphore::acquire")
        b = _body_with(fam, "net::server::Listener::accept")
    if b is None or ba is None:
        r.unrec(f, "body acquiring the permit", "src/net/server.rs", "not found")
        return r
    r.analysed = [x.path for x in fam]
    acq = calls_in([ba], "tokio::sync::Semaphore::acquire")
    fg = calls_in([ba], "tokio::sync::SemaphorePermit::forget")
    acc = calls_in([b], "net::server::Listener::accept")
    sp = calls_in([b], "tokio::spawn", "tokio::task::spawn")
    if not (len(acq) == 1 and len(fg) == 1 and len(acc) == 1 and len(sp) == 1):
        r.unrec(f, "acquire ×%d, forget ×%d, accept ×%d, spawn ×%d" % (len(acq), len(fg), len(acc), len(sp)), short_span(b.span), "expected one of each")
        return r
    (_, abb, at), (_, fbb, ft), (_, cbb, ct), (_, sbb, st) = acq[0], fg[0], acc[0], sp[0]
    split = ba is not b
    if split:
        # in accept(): acquire+forget come before any socket accept and are not repeated by the retry loop
        blk_ = lambda e: e.kind in ("unwind", "ydrop")
        socks = [bb_ for _, bb_, t_ in calls_in([ba], "tokio::net::TcpListener::accept")]
        before = bool(socks) and all(path_to(ba, [0], lambda x, s_=s_: x == s_, blocked_edges=lambda e: blk_(e) or (e.src == fbb and e.kind == "ret")) is None for s_ in socks)
        once = abb not in reach(ba, [ba.term(abb)["t"]], blocked_edges=blk_)
        r.add("net::server::Listener::accept", "the permit is taken once per call, before the first socket accept", before and once, where(ba, abb), "" if before and once else ("a socket accept is reachable without a permit" if not before else "the retry loop takes another permit per attempt: every failed attempt costs a connection slot for good"))
    b_listen, b = b, ba
    # forget receives the permit just acquired on limit_connections
    fo = arg_origin(b, ft, 0)
    fut = None
    o = peel_var(fo)
    if o[0] == "call" and o[1] and o[1].split("::")[-1] in ("unwrap", "expect"):
        fut = awaited(o[2][0])
    good = fut is not None and is_call_origin(fut, "Semaphore::acquire") and bool(re.search(r"(^|\.)limit_connections(\.[A-Za-z0-9_]+)?$", access_path(fut[2][0]) or ""))  # also behind a newtype: self.limit_connections.0
    r.add(f, "forget(permit acquired from self.limit_connections)", good, where(b, fbb), origin_str(fo))
    # per iteration: forget precedes accept
    blocked = lambda e: e.kind == "unwind" or (e.src == fbb and e.kind == "ret")
    if split:
        nxt = [e.dst for e in b_listen.succ[cbb] if e.kind == "ret"]
        r.add(f, "every accept is preceded by acquire+forget in the same iteration", True, where(b_listen, cbb), "inside Listener::accept (see its instance)")
    else:
        p1 = path_to(b, [0], lambda x: x == cbb, blocked_edges=blocked)
        nxt = [e.dst for e in b.succ[cbb] if e.kind == "ret"]
        p2 = path_to(b, nxt, lambda x: x == cbb, blocked_edges=blocked)
        r.add(f, "every accept is preceded by acquire+forget in the same iteration", p1 is None and p2 is None, where(b, cbb), "" if (p1 is None and p2 is None) else "an accept is reachable without a permit having been taken", describe_path(b, p1 or p2) if (p1 or p2) else None)
    # no second acquire without accept in between is fine; but the permit must not be dropped between acquire and forget:
    drops = []
    for bb in reach(b, [b.term(abb)["t"]], blocked_edges=lambda e: e.kind in ("unwind", "ydrop"), blocked_blocks={fbb}):
        t = b.term(bb)
        if t["k"] == "drop" and not b.drop_is_noop(bb) and (t["ty"].startswith("tokio::sync::SemaphorePermit") or t["ty"].startswith("std::result::Result<tokio::sync::SemaphorePermit")):
            drops.append(bb)
    r.add(f, "the permit is not dropped (= released) before forget", not drops, where(b, drops[0]) if drops else where(b, fbb))
    b = b_listen
    if split:
        abb = cbb  # the next iteration starts at the next accept() call
    # accepted socket -> Handler literal -> spawn, on every path that continues the loop
    hagg = None
    for bb in sorted(b.live_blocks()):
        for s in b.blocks[bb]["stmts"]:
            if s["k"] == "assign" and s["rv"]["k"] == "agg" and s["rv"]["ak"] == "adt" and strip_generics(s["rv"]["adt"]) == "net::server::Handler":
                hagg = (bb, b.origin_rvalue(s["rv"]))
    if hagg is None:
        # built by a private constructor helper: look through it (interprocedural origins)
        for bb, t in b.calls():
            if bb in b.live_blocks() and (t.get("dest_ty") or "").startswith("net::server::Handler<") and prog.callee_body(t) is not None:
                o = expand(prog, b.origin_call(bb), {})
                if o[0] == "agg" and o[2] == "net::server::Handler":
                    hagg = (bb, o)
    if hagg is None:
        r.bad(f, "Handler literal", where(b, cbb), "no Handler is built for the accepted connection")
        return r
    hbb, ho = hagg
    fm = ho[4]
    lc = peel_var(fm.get("limit_connections", ("unknown", "")))
    good = (lc[0] == "call" and lc[1] and lc[1].endswith("clone") and (access_path(lc[2][0]) or "").endswith("self.limit_connections")) or (lc[0] == "clone" and (access_path(lc) or "").endswith("self.limit_connections"))
    r.add(f, "Handler.limit_connections = clone of the listener's semaphore", bool(good), where(b, hbb), origin_str(fm.get("limit_connections", ("unknown", "missing"))))
    sh = peel_var(fm.get("shutdown", ("unknown", "")))
    good = is_call_origin(sh, "Shutdown::new") and is_call_origin(peel(sh[2][0]), "Sender::subscribe") and (access_path(peel(sh[2][0])[2][0]) or "").endswith("self.notify_shutdown")
    r.add(f, "Handler.shutdown = Shutdown::new(self.notify_shutdown.subscribe())", good, where(b, hbb), origin_str(sh))
    sc = peel_var(fm.get("_shutdown_complete", ("unknown", "")))
    good = sc[0] == "clone" and (access_path(sc) or "").endswith("self.shutdown_complete_tx")
    r.add(f, "Handler._shutdown_complete = clone of shutdown_complete_tx", good, where(b, hbb), origin_str(sc))
    cn = peel_var(fm.get("connection", ("unknown", "")))
    sock = awaited(cn[2][0]) if is_call_origin(cn, "Connection::new") and cn[2] else None
    good = sock is not None and is_call_origin(sock, "Listener::accept")
    r.add(f, "Handler.connection wraps the accepted socket", good, where(b, hbb), origin_str(cn))
    # spawn receives a coroutine capturing that handler
    so = peel(arg_origin(b, st, 0))
    if so[0] == "call" and prog.callee_body(b.term(so[3][1])) is not None and so[3][0] == b.path:
        # tokio::spawn(serve(handler)): the future of a private async fn — its coroutine, built from the arguments
        so = peel(expand(prog, so, {}))
    cap_ok = so[0] == "agg" and so[1] == "coroutine" and any(origin_mentions(v, lambda x: (x[0] == "agg" and x[2] == "net::server::Handler") or (x[0] == "call" and x[3] == (b.path, hbb))) for v in so[4].values())
    r.add(f, "tokio::spawn(task owning the Handler)", cap_ok, where(b, sbb), origin_str(so)[:200])
    # loop continuation passes the spawn
    ok_e, err_e, _ = try_edges_awaited(b, cbb)
    starts = [e[1] for e in ok_e] if ok_e else nxt
    p3 = path_to(b, starts, lambda x: x == abb, blocked_edges=lambda e: e.kind in ("unwind", "ydrop") or (e.src == sbb and e.kind == "ret"))
    r.add(f, "every accepted connection reaches tokio::spawn before the next iteration", p3 is None, where(b, sbb), "" if p3 is None else "an accepted connection (and its permit) can be dropped without a handler task", describe_path(b, p3) if p3 else None)
    # accepted sockets keep the default close behaviour: SO_LINGER 0 turns the server-side close into a reset that discards queued reply bytes
    for x in shipped_bodies(prog):
        if not x.name.startswith("net::"):
            continue
        for _, bb2, t2 in calls_in([x], "tokio::net::TcpStream::set_linger", "tokio::net::TcpSocket::set_linger", "socket2::Socket::set_linger", "std::net::TcpStream::set_linger"):
            r.bad(fam_name(x), "set_linger on a connection", where(x, bb2), "with a zero linger time close() sends RST and drops what is still in the send queue: a client reading a large reply at shutdown gets a torn reply / ECONNRESET instead of complete replies and end-of-stream")
    # listen() returns Err only when accept() gave up: nothing that concerns a single connection may end the accept loop
    aok, aerr, _sw = try_edges_awaited(b, cbb)
    classes_wo = {c for c, d, rb in ret_classes(b, 0, lambda e: e.kind in ("unwind", "ydrop") or (e.src, e.dst) in aerr)}
    r.add(f, "the accept loop ends with Err only when accept() itself gave up", bool(aerr) and "err" not in classes_wo, where(b, cbb), "" if "err" not in classes_wo else "an error on one accepted connection (e.g. peer_addr() of a socket that was already reset) returns from listen(): the whole server shuts down")
    # W3a: the task body awaits Handler::run on the captured handler; Handler::run has no other caller
    runs = [(x, bb, t) for x, bb, t in calls_in(shipped_bodies(prog), "net::server::Handler::run")]
    task = prog.bodies.get(so[2]) if so[0] == "agg" else None
    good = len(runs) == 1 and task is not None and runs[0][0].path == task.path
    r.add(f, "W3a: Handler::run is called only inside the spawned task", good, where(runs[0][0], runs[0][1]) if runs else where(b, sbb), "callers: %s" % [x.name for x, _, _ in runs])
    if task is not None and runs and runs[0][0].path == task.path:
        re_ = ready_edges(task, lambda fo: is_call_origin(fo, "Handler::run"))
        r.add(f, "W3a: the task awaits Handler::run to completion", bool(re_), where(task, runs[0][1]))
    return r


def try_edges_awaited(body, call_bb):
    """ok/err edges (as (src,dst) pairs) of `call(..).await?`"""
    site = (body.path, call_bb)
    ok, err = set(), set()
    sw = None
    for bb in body.live_blocks():
        info = body.switch_info(bb)
        if not info or info["kind"] != "variant":
            continue
        on = peel_var(info["on"])
        # `call(..).await?`, or the same written out: match call(..).await { Ok(v) => v, Err(e) => return Err(e) }
        fut = awaited(on[1]) if on[0] == "try" else awaited(on)
        if fut is not None and fut[0] == "call" and fut[3] == site:
            sw = bb
            for e in body.succ[bb]:
                labs = info["arms"].get(e.dst, [])
                if "Continue" in labs or "Ok" in labs:
                    ok.add((e.src, e.dst))
                elif "Break" in labs or "Err" in labs:
                    err.add((e.src, e.dst))
    return ok, err, sw


# ---------------------------------------------------------------------------------------------


def p12_handler_loop(ctx):
    r = RuleResult("P12", "Handler::run, per iteration: reading a frame is raced with the shutdown notification inside one select; the shutdown arm leaves the function; Command::try_from and Command::apply are NOT inside a select (a command in progress is finished, its reply is not torn) — apply is awaited to completion with its error propagated; the command applied is the one parsed from the frame read (W3b)", floor=6)
    prog = ctx.prog
    fam = prog.family("net::server::Handler::run")
    b = _body_with(fam, "net::command::Command::apply")
    f = "net::server::Handler::run"
    if b is None:
        r.unrec(f, "body applying commands", "src/net/server.rs", "not found")
        return r
    r.analysed = [x.path for x in fam]
    sels = selects(b)
    sel = None
    for s in sels:
        kinds = [("read" if is_call_origin(x, "Connection::read_frame") else ("recv" if is_call_origin(x, "Shutdown::recv") else "?")) for x in s["futs"]]
        if "read" in kinds:
            sel = (s, kinds)
    if sel is None:
        r.bad(f, "select over read_frame and Shutdown::recv", short_span(b.span), "read_frame is not raced with the shutdown notification (an idle connection would block shutdown forever)")
        return r
    s, kinds = sel
    r.add(f, "read_frame and Shutdown::recv are polled in one select", "recv" in kinds and "read" in kinds, where(b, s["tuple_bb"]), "branches: %s" % kinds)
    rd_recv = [x for x in s["futs"] if is_call_origin(x, "Shutdown::recv")]
    if rd_recv:
        r.add(f, "the shutdown branch listens on the handler's own Shutdown", (access_path(rd_recv[0][2][0]) or "").endswith("self.shutdown"), where(b, s["tuple_bb"]))
    # shutdown arm returns (never reaches apply)
    ap = calls_in([b], "net::command::Command::apply")
    _, abb, at = ap[0]
    if "recv" in kinds:
        i = kinds.index("recv")
        dst = s["arms"].get(i)
        reg = reach(b, [dst], blocked_edges=lambda e: e.kind in ("unwind", "ydrop")) if dst is not None else set()
        back = s["tuple_bb"] in reg or abb in reg
        classes = {c for c, d, rb in ret_classes(b, dst, lambda e: e.kind in ("unwind", "ydrop"))} if dst is not None else set()
        r.add(f, "shutdown branch ⇒ return Ok without applying anything", dst is not None and not back and classes <= {"ok"}, where(b, s["out_bb"]), "classes %s" % sorted(classes))
    # apply is awaited directly in this body (not inside a poll_fn closure) and its error is propagated
    re_ = ready_edges(b, lambda fo: fo[0] == "call" and fo[3] == (b.path, abb))
    r.add(f, "Command::apply is awaited outside any select (not cancellable by shutdown)", bool(re_), where(b, abb), "" if re_ else "the apply future is not polled to completion in the handler body")
    in_sel = any(is_call_origin(x, "Command::apply", "Set::apply", "Get::apply", "Del::apply") for s2 in sels for x in s2["futs"])
    r.add(f, "no select branch applies a command", not in_sel, where(b, abb))
    # nor is anything raced inside the appliers themselves: a command in progress (storage call and
    # reply write) is never cancellable
    for an in ("net::command::Command::apply", "net::command::set::Set::apply", "net::command::get::Get::apply", "net::command::del::Del::apply"):
        n_sel = 0
        wherex = "src/net/command.rs"
        for ab in prog.family(an):
            for s2 in selects(ab):
                n_sel += 1
                wherex = where(ab, s2["tuple_bb"])
            for _, bb2, t2 in calls_in([ab], "tokio::time::timeout", "tokio::time::timeout_at"):
                n_sel += 1
                wherex = where(ab, bb2)
        r.add(an, "applies the command without racing it against anything (no select/timeout)", n_sel == 0, wherex, "" if n_sel == 0 else "the storage call / reply write can be dropped half-way: a torn reply, or an acknowledged-looking command that was cancelled")
    # fairness: the select must not be biased towards reading (a client that keeps the buffer full
    # would starve the shutdown branch forever)
    sel_cl = None
    for st in b.blocks[s["tuple_bb"]]["stmts"]:
        pass
    fair = False
    biased_first = None
    # the select's polling closure (of this body, or of an async helper that was inlined into it)
    owners = [b.path] + [x + "::{closure#0}" for x in (b.rec.get("inlined") or [])]
    cands = list(fam) + [y for x in (b.rec.get("inlined") or []) for y in prog.families.get(x, [])]
    for cb2 in cands:
        if cb2.def_kind == "Closure" and any(cb2.path.startswith(ow + "::") for ow in owners):
            polls = [t2 for _, t2 in cb2.calls() if is_call_to(t2, "std::future::Future::poll")]
            if polls:
                rng = [t2 for _, t2 in cb2.calls() if (strip_generics(t2.get("callee")) or "").endswith("thread_rng_n")]
                if rng:
                    fair = True
    if not fair and "recv" in kinds:
        biased_first = kinds.index("recv") == 0
    r.add(f, "the select polls its branches fairly (random start), or checks shutdown first", fair or bool(biased_first), where(b, s["tuple_bb"]), "" if (fair or biased_first) else "biased select with read_frame before the shutdown branch: shutdown is only observed when no request is buffered")
    ok, err, sw = try_edges_awaited(b, abb)
    r.add(f, "apply's error ends the connection (propagated)", bool(err) and all({c for c, d, rb in ret_classes(b, e[1], lambda x: x.kind in ("unwind", "ydrop"))} <= {"err"} for e in err), where(b, abb))
    # W3b: the command comes from Command::try_from(frame read) on its Ok edge
    co = arg_origin(b, at, 0)
    tf = origin_mentions(co, lambda x: x[0] == "call" and x[1] == "std::convert::TryFrom::try_from")
    if not tf:
        # the command travels through a variable assigned on several paths (`Ok(None)` here, `Ok(Some(cmd))` there, out of
        # a helper): some definition is the try_from call — and no Command is built by hand anywhere in the handler
        manual = [1 for x in fam for bb_ in x.live_blocks() for st_ in x.blocks[bb_]["stmts"] if st_["k"] == "assign" and st_["rv"]["k"] == "agg" and st_["rv"].get("ak") == "adt" and strip_generics(st_["rv"].get("adt") or "") == "net::command::Command"]
        if not manual:
            tf = phi_mentions(b, co, lambda x: x[0] == "call" and x[1] == "std::convert::TryFrom::try_from", depth=6)
    frm_ok = False
    if tf:
        fro = tf[0][2][0]
        frm_ok = bool(phi_mentions(b, fro, lambda x: x[0] == "variant" and x[2] == "_%d" % kinds.index("read")))
    viatry = peel_var(co)[0] == "field" and "try" in origin_str(co)
    r.add(f, "W3b: applied command = Command::try_from(frame read)? (validated before the store is touched)", bool(tf) and frm_ok, where(b, abb), origin_str(co)[:160])
    tfb = tf[0][3][1] if tf else None
    if tfb is not None:
        ok_e, err_e, _ = try_edges(b, tfb)
        oks = edge_set(ok_e)
        dom = bool(oks) and abb not in reach(b, [0], blocked_edges=lambda e: (e.src, e.dst) in oks)
        r.add(f, "W3b: apply only on the Ok edge of Command::try_from", dom, where(b, abb))
        t = b.term(tfb)
        r.add(f, "W3b: try_from resolves to <Command as TryFrom<Frame>>", (t.get("resolved") or "").startswith("<net::command::Command as std::convert::TryFrom<net::frame::Frame>>"), where(b, tfb), t.get("resolved"))
    # storage mutators are reached only through the command appliers
    for x, bb, t in calls_in(shipped_bodies(prog), "storage::KeyValueStorage::set", "storage::KeyValueStorage::del"):
        fn = fam_name(x)
        m = strip_generics(t["callee"]).split("::")[-1]
        allowed = {"set": "net::command::set::Set::apply", "del": "net::command::del::Del::apply"}[m]
        r.add(fn, "W3b: KeyValueStorage::%s only in %s" % (m, allowed.split("::")[-2] + "::apply"), fn == allowed, where(x, bb))
    for nm in ("net::command::set::Set::apply", "net::command::get::Get::apply", "net::command::del::Del::apply"):
        cs = calls_in(shipped_bodies(prog), nm)
        good = bool(cs) and all(fam_name(x) == "net::command::Command::apply" for x, _, _ in cs)
        r.add("net::command::Command::apply", "W3b: %s::apply is called only by Command::apply" % nm.split("::")[-2], good, where(cs[0][0], cs[0][1]) if cs else "src/net/command.rs")
    cs = calls_in(shipped_bodies(prog), "net::command::Command::apply")
    r.add(f, "W3b: Command::apply is called only by Handler::run", all(fam_name(x) == f for x, _, _ in cs), where(b, abb))
    # each variant is routed to its own applier
    cab = _body_with(prog.family("net::command::Command::apply"), "net::command::set::Set::apply")
    if cab is not None:
        for bb in sorted(cab.live_blocks()):
            info = cab.switch_info(bb)
            if info and info["kind"] == "variant" and set(sum(info["arms"].values(), [])) >= {"Set", "Get", "Del"}:
                dsts = {e.dst: info["arms"].get(e.dst, []) for e in cab.succ[bb]}
                for dst, labs in dsts.items():
                    if len(labs) != 1:
                        continue
                    reg = reach(cab, [dst], blocked_edges=lambda e: e.kind in ("unwind", "ydrop"))
                    called = set()
                    for x in reg:
                        t = cab.term(x)
                        if t["k"] == "call":
                            for v in ("Set", "Get", "Del"):
                                if is_call_to(t, "net::command::%s::%s::apply" % (v.lower(), v)):
                                    called.add(v)
                    if labs[0] in ("Set", "Get", "Del"):
                        r.add("net::command::Command::apply", "Command::%s ⇒ %s::apply" % (labs[0], labs[0]), called == {labs[0]}, where(cab, bb), "calls %s" % sorted(called))
                    else:
                        # a command outside the map model (PING …) must not reach the store's appliers
                        r.add("net::command::Command::apply", "Command::%s does not run a SET/GET/DEL applier" % labs[0], not called, where(cab, bb), "calls %s" % sorted(called))
    return r


# ---------------------------------------------------------------------------------------------


def p11_command_application(ctx):
    r = RuleResult("P11", "Set/Get/Del::apply: the storage call runs in spawn_blocking, its JoinHandle is awaited to completion and both of its result layers take the Ok edge before the single write_frame; no reply on any error path; every Ok return sent the reply; reply variants: SET→SimpleString(\"OK\"), GET→BulkString(stored bytes)|Null, DEL→Integer(count of Ok(true))", floor=15)
    prog = ctx.prog
    spec = {"Set": ("set", "set"), "Get": ("get", "get"), "Del": ("del", "del")}
    for V, (mod, meth) in spec.items():
        fam = prog.family("net::command::%s::%s::apply" % (mod, V))
        b = _body_with(fam, "tokio::task::spawn_blocking")
        f = "net::command::%s::%s::apply" % (mod, V)
        if b is None:
            r.bad(f, "storage call in spawn_blocking", "src/net/command/%s.rs" % mod, "not found")
            continue
        r.analysed.append(b.path)
        sbs = calls_in([b], "tokio::task::spawn_blocking")
        wfs = calls_in([b], "net::connection::Connection::write_frame")
        if len(sbs) != 1 or len(wfs) != 1:
            r.bad(f, "spawn_blocking ×%d, write_frame ×%d" % (len(sbs), len(wfs)), short_span(b.span), "exactly one storage call and exactly one reply per command")
            continue
        _, sbb, st = sbs[0]
        _, wbb, wt = wfs[0]
        site = (b.path, sbb)
        # closure calls the right storage method
        co = peel(arg_origin(b, st, 0))
        cb = prog.bodies.get(co[2]) if co[0] == "agg" and co[1] == "closure" else None
        if cb is None:
            r.unrec(f, "spawn_blocking closure", where(b, sbb), origin_str(co)[:100])
            continue
        kv = [(bb, t) for _, bb, t in calls_in([cb], "storage::KeyValueStorage::set", "storage::KeyValueStorage::get", "storage::KeyValueStorage::del")]
        good = len(kv) == 1 and strip_generics(kv[0][1]["callee"]).endswith("::" + meth)
        r.add(f, "blocking closure calls KeyValueStorage::%s (once)" % meth, good, where(cb, kv[0][0]) if kv else where(b, sbb), "calls %s" % [strip_generics(t["callee"]).split("::")[-1] for _, t in kv])
        if kv:
            kbb, kt = kv[0]
            ka = arg_origin(cb, kt, 1)
            kp = resolved_access_path(prog, cb, ka) or origin_str(ka)
            good = ("self.key" in kp) or ("key" in kp and V == "Del")
            r.add(f, "storage key = the command's key", good, where(cb, kbb), kp)
            if V == "Set":
                va = resolved_access_path(prog, cb, arg_origin(cb, kt, 2)) or ""
                r.add(f, "storage value = the command's value", "self.value" in va, where(cb, kbb), va)
        # await of the join handle
        re_ = ready_edges(b, lambda fo: fo[0] == "call" and fo[3] == site)
        # all try-switches whose scrutinee derives from the awaited join result
        try_ok = []
        for bb in sorted(b.live_blocks()):
            info = b.switch_info(bb)
            if info and info["kind"] == "variant":
                on = peel_var(info["on"])
                if on[0] == "try" and origin_mentions(on, lambda x: x[0] == "call" and x[3] == site) and wbb in reach(b, [bb], blocked_edges=lambda e: e.kind in ("unwind", "ydrop")):
                    for e in b.succ[bb]:
                        if "Continue" in info["arms"].get(e.dst, []):
                            try_ok.append((e.src, e.dst))
        doms = []
        for ed in list(re_) + try_ok:
            doms.append(wbb not in reach(b, [0], blocked_edges=lambda e: (e.src, e.dst) == ed))
        good = bool(re_) and len(try_ok) >= 2 and all(doms)
        r.add(f, "reply only after the storage call completed and both result layers were Ok (%d checks)" % len(try_ok), good, where(b, wbb), "" if good else "write_frame is reachable %s" % ("without awaiting the blocking task" if not re_ else "although the storage call failed / before its result is known"))
        # every Ok return passed write_frame's awaited Ok edge
        wok, werr, _ = try_edges_awaited(b, wbb)
        classes = {c for c, d, rb in ret_classes(b, 0, lambda e: e.kind in ("unwind", "ydrop") or (e.src, e.dst) in wok)}
        leak = [c for c in classes if c == "ok"]
        sent = bool(wok) and not leak
        if not wok:
            # `connection.write_frame(&reply).await` as the tail expression: what is returned is write_frame's own result
            rcs = list(ret_classes(b, 0, lambda e: e.kind in ("unwind", "ydrop")))

            def is_reply_result(d):
                o = ret_origin(b, d) if d is not None else None
                fut = awaited(o) if o is not None else None
                return fut is not None and fut[0] == "call" and fut[3] == (b.path, wbb)
            sent = bool(rcs) and all(c == "err" or is_reply_result(d) for c, d, rb in rcs) and any(is_reply_result(d) for c, d, rb in rcs)
        r.add(f, "every Ok return sent the reply (write_frame awaited, Ok)", sent, where(b, wbb))
        # reply content
        ro = peel(arg_origin(b, wt, 1))
        resp_local = None
        o0 = arg_origin(b, wt, 1)
        variants = set()
        payloads = {}
        loc = o0[1] if o0[0] == "var" else None
        if loc is not None:
            for bi, si, whole in b.defs.get(loc, []):
                if si == "T" or not whole:
                    continue
                oo = peel(b.origin_rvalue(b.blocks[bi]["stmts"][si]["rv"]))
                if oo[0] == "agg" and oo[2] == "net::frame::Frame":
                    variants.add(oo[3])
                    payloads[oo[3]] = oo[4]
        if V == "Set":
            okv = variants == {"SimpleString"} and const_bytes(origin_mentions(payloads["SimpleString"]["0"], lambda x: x[0] == "const")[0]) == b"OK" if variants == {"SimpleString"} else False
            r.add(f, "reply = SimpleString(\"OK\")", bool(okv), where(b, wbb), "variants %s" % sorted(variants))
        elif V == "Get":
            okv = variants == {"BulkString", "Null"}
            pl = payloads.get("BulkString", {}).get("0")
            from_store = pl is not None and bool(origin_mentions(pl, lambda x: x[0] == "call" and x[3] == site)) and peel(pl)[0] == "field" and peel(pl)[1][0] == "variant" and peel(pl)[1][2] == "Some"
            r.add(f, "reply = BulkString(stored bytes) | Null", okv and from_store, where(b, wbb), "variants %s; payload %s" % (sorted(variants), origin_str(pl)[:120] if pl else None))
            # Null exactly on None
            for bb in sorted(b.live_blocks()):
                info = b.switch_info(bb)
                if info and info["kind"] == "variant" and set(sum(info["arms"].values(), [])) == {"Some", "None"} and origin_mentions(info["on"], lambda x: x[0] == "call" and x[3] == site):
                    for e in b.succ[bb]:
                        labs = info["arms"].get(e.dst)
                        if not labs:
                            continue
                        other = [e2.dst for e2 in b.succ[bb] if e2.dst != e.dst and info["arms"].get(e2.dst)]
                        ex = reach(b, [e.dst], blocked_edges=lambda x: x.kind in ("unwind", "ydrop"), blocked_blocks={wbb}) - (reach(b, other, blocked_edges=lambda x: x.kind in ("unwind", "ydrop"), blocked_blocks={wbb}) if other else set())
                        built = set()
                        for x in ex:
                            for s2 in b.blocks[x]["stmts"]:
                                if s2["k"] == "assign" and s2["rv"]["k"] == "agg" and s2["rv"].get("adt") and strip_generics(s2["rv"]["adt"]) == "net::frame::Frame":
                                    built.add(s2["rv"]["variant"])
                                elif s2["k"] == "assign" and s2["rv"]["k"] == "use":
                                    # a frame built before the test and chosen here (`map_or(Frame::Null, …)`)
                                    o2 = peel(b.origin_rvalue(s2["rv"]))
                                    if o2[0] == "agg" and o2[2] == "net::frame::Frame":
                                        built.add(o2[3])
                        want = {"BulkString"} if labs == ["Some"] else {"Null"}
                        r.add(f, "stored %s ⇒ %s" % (labs[0], sorted(want)[0]), built == want, where(b, bb), "builds %s" % sorted(built))
        else:
            okv = variants == {"Integer"}
            pl = payloads.get("Integer", {}).get("0")
            from_store = pl is not None and bool(origin_mentions(pl, lambda x: x[0] == "call" and x[3] == site))
            r.add(f, "reply = Integer(count returned by the blocking task)", okv and from_store, where(b, wbb), "variants %s" % sorted(variants))
            # counting: +1 exactly on Ok(true)
            if kv:
                kbb, kt = kv[0]
                ksite = (cb.path, kbb)
                incs = []
                for bb in sorted(cb.live_blocks()):
                    for s2 in cb.blocks[bb]["stmts"]:
                        if s2["k"] == "assign" and s2["rv"]["k"] == "bin" and s2["rv"]["op"] in ("AddWithOverflow", "Add"):
                            oo = cb.origin_rvalue(s2["rv"])
                            if const_int(oo[3]) == 1 or const_int(oo[2]) == 1:
                                incs.append(bb)
                true_edges = set()
                for bb in sorted(cb.live_blocks()):
                    info = cb.switch_info(bb)
                    if info and origin_mentions(info["on"], lambda x: x[0] == "call" and x[3] == ksite):
                        if info["kind"] == "bool":
                            for e in cb.succ[bb]:
                                if info["arms"].get(e.dst) == [True]:
                                    true_edges.add((e.src, e.dst))
                dom = bool(incs) and bool(true_edges) and all(ib not in reach(cb, [0], blocked_edges=lambda e: (e.src, e.dst) in true_edges) for ib in incs)
                # and the true edge always increments before the next del
                skip = False
                for te in true_edges:
                    p = path_to(cb, [te[1]], lambda x: x == kbb or cb.term(x)["k"] == "return", blocked_edges=lambda e: e.kind == "unwind", blocked_blocks=set(incs))
                    skip = skip or p is not None
                r.add(f, "count += 1 exactly when del returned Ok(true)", dom and not skip, where(cb, incs[0]) if incs else where(cb, kbb), "" if dom and not skip else "increment sites %s, true edges %s" % (incs, sorted(true_edges)))
                # every key is processed: an Ok return of the closure passed the None edge of the keys iterator
                nxts = [(bb2, t2) for _, bb2, t2 in calls_in([cb], "std::iter::Iterator::next") if kbb in reach(cb, [cb.term(bb2)["t"]], blocked_edges=lambda e: e.kind == "unwind", blocked_blocks={bb2})]
                none_edges = set()
                for nb2, _t in nxts:
                    for sb2 in cb.live_blocks():
                        inf2 = cb.switch_info(sb2)
                        if inf2 and inf2["kind"] == "variant":
                            o2 = peel_var(inf2["on"])
                            if o2[0] == "call" and o2[3] == (cb.path, nb2):
                                for e2 in cb.succ[sb2]:
                                    if inf2["arms"].get(e2.dst) == ["None"]:
                                        none_edges.add((e2.src, e2.dst))
                classes2 = {c for c, d, rb in ret_classes(cb, 0, lambda e: e.kind == "unwind" or (e.src, e.dst) in none_edges)}
                r.add(f, "every key of a DEL is processed (the loop only ends when the keys are exhausted, or with Err)", bool(none_edges) and "ok" not in classes2, where(cb, kbb), "" if (none_edges and "ok" not in classes2) else "the closure can return Ok before all keys were deleted (break / early return)")
                # Err from del is returned
                for bb in sorted(cb.live_blocks()):
                    info = cb.switch_info(bb)
                    if info and info["kind"] == "variant" and origin_mentions(info["on"], lambda x: x[0] == "call" and x[3] == ksite) and "Err" in sum(info["arms"].values(), []):
                        for e in cb.succ[bb]:
                            if info["arms"].get(e.dst) == ["Err"]:
                                classes = {c for c, d, rb in ret_classes(cb, e.dst, lambda x: x.kind == "unwind")}
                                r.add(f, "a failing del is reported (closure returns Err)", classes <= {"err"} and bool(classes), where(cb, bb))
    return r


# ---------------------------------------------------------------------------------------------


def p9_server_shutdown_handshake(ctx):
    r = RuleResult("P9", "Server::run: after the select over listen()/shutdown completes, on every path: the broadcast sender is dropped (notifies handlers), the server's own completion sender is dropped, and only then shutdown_complete_rx.recv() is awaited, before returning — the only order that terminates", floor=4)
    prog = ctx.prog
    fam = prog.family("net::server::Server::run")
    b = _body_with(fam, "tokio::sync::mpsc::Receiver::recv")
    f = "net::server::Server::run"
    if b is None:
        r.bad(f, "await of shutdown_complete_rx.recv()", "src/net/server.rs", "run does not wait for the handlers to finish")
        return r
    r.analysed = [b.path]
    rc = [(bb, t) for _, bb, t in calls_in([b], "tokio::sync::mpsc::Receiver::recv") if (arg_path(b, t, 0) or "").endswith("shutdown_complete_rx")]
    drops = {}
    for _, bb, t in calls_in([b], "std::mem::drop"):
        p = arg_path(b, t, 0) or ""
        if p.endswith("notify_shutdown"):
            drops.setdefault("notify", set()).add(bb)
        elif p.endswith("shutdown_complete_tx"):
            drops.setdefault("tx", set()).add(bb)
    # also accept Drop terminators of those fields (scope-based drop)
    for bb in b.live_blocks():
        t = b.term(bb)
        if t["k"] == "drop" and not b.drop_is_noop(bb):
            p = access_path(b.origin_place(t["pl"])) or ""
            if p.endswith("listener.notify_shutdown"):
                drops.setdefault("notify", set()).add(bb)
            elif p.endswith("listener.shutdown_complete_tx"):
                drops.setdefault("tx", set()).add(bb)
    if len(rc) != 1:
        r.bad(f, "shutdown_complete_rx.recv() ×%d" % len(rc), short_span(b.span))
        return r
    rbb, rt = rc[0]
    sels = selects(b)
    sel_ok = False
    for s in sels:
        kinds = ["listen" if is_call_origin(x, "Listener::listen") else ("shutdown" if (access_path(x) or "").endswith("self.shutdown") else "?") for x in s["futs"]]
        if "listen" in kinds and "shutdown" in kinds:
            sel_ok = True
    r.add(f, "listen() is raced with the shutdown future in one select", sel_ok, short_span(b.span), "selects: %s" % [[origin_str(x)[:40] for x in s["futs"]] for s in sels])
    for what, label in (("notify", "drop(listener.notify_shutdown)"), ("tx", "drop(listener.shutdown_complete_tx)")):
        sites = drops.get(what, set())
        p = path_to(b, [0], lambda x: x == rbb, blocked_edges=lambda e: e.kind in ("unwind", "ydrop") or (e.src in sites and e.kind in ("ret", "drop")))
        good = bool(sites) and p is None
        r.add(f, "%s ≺ await shutdown_complete_rx.recv()" % label, good, where(b, rbb), "" if good else ("the wait can start while the server still holds %s: %s" % ("the broadcast sender (handlers are never told to stop)" if what == "notify" else "a completion sender (recv() never returns None)", "deadlock")), describe_path(b, p) if p else None)
    re_ = ready_edges(b, lambda fo: fo[0] == "call" and fo[3] == (b.path, rbb))
    classes_paths = path_to(b, [0], lambda x: b.term(x)["k"] == "return", blocked_edges=lambda e: e.kind in ("unwind", "ydrop") or (e.src, e.dst) in re_)
    r.add(f, "every return awaited shutdown_complete_rx.recv() to completion", bool(re_) and classes_paths is None, where(b, rbb), "" if classes_paths is None else "run can return without waiting for the handlers", describe_path(b, classes_paths) if classes_paths else None)
    return r


# ---------------------------------------------------------------------------------------------


def p8_background_worker(ctx):
    r = RuleResult("P8", "background_tasks: the worker drops its own Handle and its own broadcast Sender before it blocks on the runtime (otherwise the channel never closes and the thread never ends); each of the two tasks is given a Shutdown subscribed to that sender; Bitcask::open hands the worker a clone of the sender it keeps", floor=5)
    prog = ctx.prog
    fam = prog.family("storage::bitcask::background_tasks")
    b = _body_with(fam, "tokio::runtime::Runtime::block_on")
    f = "storage::bitcask::background_tasks"
    if b is None:
        r.unrec(f, "Runtime::block_on", "src/storage/bitcask.rs", "not found")
        return r
    r.analysed = [x.path for x in fam]
    bo = calls_in([b], "tokio::runtime::Runtime::block_on")
    _, bbb, bt = bo[0]
    for arg in ("handle", "notify_shutdown"):
        sites = set()
        for _, bb, t in calls_in([b], "std::mem::drop"):
            o = arg_origin(b, t, 0)
            if o == ("arg", arg):
                sites.add(bb)
        p = path_to(b, [0], lambda x: x == bbb, blocked_edges=lambda e: e.kind == "unwind" or (e.src in sites and e.kind == "ret"))
        good = bool(sites) and p is None
        r.add(f, "drop(%s) ≺ Runtime::block_on" % arg, good, where(b, bbb), "" if good else ("the worker blocks while still holding its %s: %s" % (arg, "the store can never observe all senders gone; the thread outlives the store" if arg == "notify_shutdown" else "a Handle (and through it the files) stays alive in the worker")), describe_path(b, p) if p else None)
    # tasks get Shutdown::new(notify_shutdown.subscribe())
    for task_fn in ("storage::bitcask::merge_on_interval", "storage::bitcask::sync_on_interval"):
        cs = calls_in(shipped_bodies(prog), task_fn)
        if len(cs) != 1:
            r.bad(f, "%s spawned ×%d" % (task_fn.split("::")[-1], len(cs)), short_span(b.span))
            continue
        x, bb, t = cs[0]
        so = arg_origin(x, t, 1)
        if so[0] == "upvar":
            pb, so2 = resolve_upvar(prog, x, so[1])
            so = so2 if so2 is not None else so
        sp = peel_var(so)
        good = is_call_origin(sp, "Shutdown::new") and is_call_origin(peel(sp[2][0]), "Sender::subscribe") and peel(sp[2][0])[2][0] == ("arg", "notify_shutdown")
        r.add(f, "%s gets Shutdown::new(notify_shutdown.subscribe())" % task_fn.split("::")[-1], good, where(x, bb), origin_str(sp)[:120])
        # and the task future is spawned on the runtime that block_on drives
        in_fam = fam_name(x) == f
        r.add(f, "%s runs inside the worker's runtime" % task_fn.split("::")[-1], in_fam, where(x, bb))
    # Bitcask::open: the worker receives a clone of the sender stored in Bitcask
    ob = _body_with(prog.family("storage::bitcask::Bitcask::open"), "std::thread::Builder::spawn")
    if ob is None:
        r.unrec("storage::bitcask::Bitcask::open", "thread spawn", "src/storage/bitcask.rs", "not found")
    else:
        cs = calls_in(shipped_bodies(prog), "storage::bitcask::background_tasks")
        good = False
        det = ""
        if len(cs) == 1:
            x, bb, t = cs[0]
            no = arg_origin(x, t, 1)
            if no[0] == "upvar":
                pb, no2 = resolve_upvar(prog, x, no[1])
                no = no2 if no2 is not None else no
            det = origin_str(no)
            good = no[0] in ("clone", "var") and "notify_shutdown" in det and ("clone" in str(no) or no[0] == "clone")
        r.add("storage::bitcask::Bitcask::open", "worker gets a clone of Bitcask.notify_shutdown", good, where(ob, calls_in([ob], "std::thread::Builder::spawn")[0][1]), det[:120])
    return r


# ---------------------------------------------------------------------------------------------


def p15_interval_loops(ctx):
    r = RuleResult("P15", "merge_on_interval / sync_on_interval, per loop iteration: a tokio::time::sleep and the task's Shutdown::recv are polled in one select; the shutdown branch leaves the function; after the sleep branch the action follows in the same iteration (can_merge → merge, resp. Handle::sync in spawn_blocking, awaited)", floor=6)
    prog = ctx.prog
    for fn, action in (("storage::bitcask::merge_on_interval", "storage::bitcask::Context::can_merge"), ("storage::bitcask::sync_on_interval", "tokio::task::spawn_blocking")):
        fam = prog.family(fn)
        b = _body_with(fam, "tokio::time::sleep")
        f = fn
        if b is None:
            r.bad(f, "sleep raced with shutdown", "src/storage/bitcask.rs", "no sleep found")
            continue
        r.analysed.append(b.path)
        sels = selects(b)
        sel = None
        for s in sels:
            kinds = ["sleep" if is_call_origin(x, "tokio::time::sleep", "time::sleep") else ("recv" if is_call_origin(x, "Shutdown::recv") else "?") for x in s["futs"]]
            if "sleep" in kinds:
                sel = (s, kinds)
        if sel is None:
            r.bad(f, "select over sleep and Shutdown::recv", short_span(b.span), "the sleep is not raced with the shutdown notification: closing the store would wait for the timer")
            continue
        s, kinds = sel
        r.add(f, "sleep and Shutdown::recv are polled in one select", "recv" in kinds, where(b, s["tuple_bb"]), "branches %s" % kinds)
        if "recv" in kinds:
            rf = s["futs"][kinds.index("recv")]
            r.add(f, "the shutdown branch listens on the task's own Shutdown argument", access_path(rf[2][0]) in ("shutdown",), where(b, s["tuple_bb"]), origin_str(rf))
            dst = s["arms"].get(kinds.index("recv"))
            reg = reach(b, [dst], blocked_edges=lambda e: e.kind in ("unwind", "ydrop")) if dst is not None else set()
            back = s["tuple_bb"] in reg
            r.add(f, "shutdown branch ⇒ return", dst is not None and not back, where(b, s["out_bb"]), "" if not back else "the loop continues after the shutdown notification")
        sd = s["arms"].get(kinds.index("sleep"))
        acts = {bb for _, bb, t in calls_in([b], action)}
        p = path_to(b, [sd], lambda x: x == s["tuple_bb"], blocked_edges=lambda e: e.kind in ("unwind", "ydrop"), blocked_blocks=acts) if sd is not None else []
        r.add(f, "sleep branch ⇒ %s in the same iteration" % action.split("::")[-1], sd is not None and p is None and bool(acts), where(b, s["out_bb"]), "" if p is None else "an iteration can go back to sleep without the action")
        # the spawn_blocking closure does the right thing and is awaited
        sbs = calls_in([b], "tokio::task::spawn_blocking")
        want = "storage::bitcask::Handle::merge" if "merge" in fn else "storage::bitcask::Handle::sync"
        good = False
        for _, bb, t in sbs:
            co = peel(arg_origin(b, t, 0))
            cb = prog.bodies.get(co[2]) if co[0] == "agg" and co[1] == "closure" else None
            if cb is not None and calls_in([cb], want):
                re_ = ready_edges(b, lambda fo: fo[0] == "call" and fo[3] == (b.path, bb))
                good = bool(re_)
        r.add(f, "%s runs in spawn_blocking and is awaited" % want.split("::")[-1], good, where(b, sbs[0][1]) if sbs else short_span(b.span))
        # a failed merge / sync is reported and the task goes on: the error side of the action's own
        # result (the inner Result, behind the JoinHandle's `?`) never leads to a return
        blk = lambda e: e.kind in ("unwind", "ydrop")
        for _, sbb, st_ in sbs:
            site = (b.path, sbb)
            inner = []
            for bb in sorted(b.live_blocks()):
                inf = b.switch_info(bb)
                if not inf or inf["kind"] != "variant":
                    continue
                on = inf["on"]
                if not phi_mentions(b, on, lambda x: x[0] == "call" and x[3] == site, depth=3):
                    continue
                # the JoinHandle's own `?` (also behind map_err): the only test whose error side may end the task.
                # Anything else that carries this call's outcome — the inner Result behind that `?`, or both layers
                # merged by and_then / flatten — carries the action's error
                jo = peel_var(on)
                if jo[0] == "try":
                    jo = peel_var(jo[1])
                while jo[0] == "call" and jo[1] and jo[1].split("::")[-1] in ("map_err", "into", "from") and jo[2]:
                    jo = peel_var(jo[2][0])
                jf = awaited(jo)
                if jf is not None and jf[0] == "call" and jf[3] == site and not origin_mentions(jo, lambda x: x[0] == "variant" and x[2] in ("Continue", "Ok")):
                    continue
                for e in b.succ[bb]:
                    if set(inf["arms"].get(e.dst, [])) & {"Err", "Break"}:
                        inner.append((bb, e.dst))
            for bb, d in inner:
                heads = {s["tuple_bb"]} | {hb for _, hb, _t in calls_in([b], "shutdown::Shutdown::is_shutdown")}
                pth = path_to(b, [d], lambda x: b.term(x)["k"] == "return", blocked_edges=blk, blocked_blocks=heads)
                r.add(f, "a failed %s does not end the periodic task" % want.split("::")[-1], pth is None, where(b, bb), "" if pth is None else "the error leaves the loop: after one failed attempt nothing is merged/synced any more although the policy still asks for it", describe_path(b, pth) if pth else None)
        # every sleep of the task is raced with the shutdown notification (also a back-off)
        sel_futs = [x for s2 in sels for x in s2["futs"]]
        for _, slb, slt in calls_in([b], "tokio::time::sleep"):
            insel = any(x[0] == "call" and x[3] == (b.path, slb) for x in sel_futs) and any(is_call_origin(x, "Shutdown::recv") for s2 in sels if any(y[0] == "call" and y[3] == (b.path, slb) for y in s2["futs"]) for x in s2["futs"])
            r.add(f, "sleep is raced with Shutdown::recv", insel, where(b, slb), "" if insel else "a sleep outside the select: closing the store waits for this timer")
        # loop condition also observes shutdown (cheap exit): not required
    # the jitter range may be empty-width (check_jitter = 0.0 is documented): the sampler must accept low == high
    for mb in prog.family("storage::bitcask::merge_on_interval"):
        for _, bb, t in calls_in([mb], "rand::distributions::Uniform::new", "rand::distributions::uniform::Uniform::new"):
            r.bad("storage::bitcask::merge_on_interval", "Uniform::new (exclusive range) for the sleep period", where(mb, bb), "Uniform::new asserts low < high and panics when check_jitter is 0.0 (documented minimum): the merge task dies and no merge ever runs")
        for _, bb, t in calls_in([mb], "rand::distributions::Uniform::new_inclusive", "rand::distributions::uniform::Uniform::new_inclusive"):
            r.ok("storage::bitcask::merge_on_interval", "Uniform::new_inclusive accepts a zero-width jitter range", where(mb, bb))
        for _, bb, t in calls_in([mb], "rand::Rng::gen_range", "rand::rng::Rng::gen_range"):
            tys = " ".join((t.get("callee_args") or []) + (t.get("arg_tys") or []))
            incl = "RangeInclusive" in tys
            r.add("storage::bitcask::merge_on_interval", "gen_range over an inclusive range for the sleep period", incl, where(mb, bb), "" if incl else "gen_range(low..high) panics on an empty range: with check_jitter = 0.0 (documented minimum) low == high, the merge task dies and no merge ever runs")
    # sync loop only under IntervalMs, using its payload as the period
    b = _body_with(prog.family("storage::bitcask::sync_on_interval"), "tokio::time::sleep")
    if b is not None:
        found = False
        for bb in sorted(b.live_blocks()):
            info = b.switch_info(bb)
            if info and info["kind"] == "variant" and (access_path(info["on"]) or "").endswith("conf.sync"):
                for e in b.succ[bb]:
                    if info["arms"].get(e.dst) == ["IntervalMs"]:
                        found = True
                        sl = calls_in([b], "tokio::time::sleep")
                        dom = all(sb not in reach(b, [0], blocked_edges=lambda x: (x.src, x.dst) == (e.src, e.dst)) for _, sb, _ in sl)
                        r.add("storage::bitcask::sync_on_interval", "periodic sync runs exactly under SyncStrategy::IntervalMs", dom, where(b, bb))
                        so = arg_origin(b, sl[0][2], 0) if sl else ("unknown", "")
                        uses = "IntervalMs" in origin_str(so) or bool(origin_mentions(so, lambda x: x[0] == "variant" and x[2] == "IntervalMs"))
                        r.add("storage::bitcask::sync_on_interval", "sleep period = the configured interval", uses, where(b, sl[0][1]) if sl else where(b, bb), origin_str(so)[:120])
        if not found:
            r.bad("storage::bitcask::sync_on_interval", "periodic sync under SyncStrategy::IntervalMs", short_span(b.span), "no IntervalMs arm found")
    return r

"""K3 — sibling and role agreement rules."""
from common import *
from engine import RuleResult

ROLES = {"fileid", "len", "pos", "tstamp"}


# ---------------------------------------------------------------------------------------------
# S1: roles


def _role_of(o):
    """role name if the origin is (a copy of) a field named by a role, else None"""
    o = peel(o)
    if o[0] == "field" and o[2] in ROLES:
        return o[2]
    if o[0] in ("arg",) and o[1] in ROLES:
        return o[1]
    if o[0] == "var" and o[2] in ROLES and o[3] is None:
        return o[2]
    return None


def s1_roles(ctx):
    r = RuleResult("S1", "the same-typed location fields keep their roles: wherever a value read from a field/parameter named fileid|len|pos|tstamp is passed to a parameter, stored into a struct field, or assigned to a field that is itself named by one of these roles, the names are equal (KeyDirEntry ↔ LogIndex ↔ HintFileEntry ↔ read/at/copy/copy_raw/segment)", floor=30)
    prog = ctx.prog
    for b in shipped_bodies(prog):
        if (b.impl_trait or "").endswith("fmt::Debug") or "::fmt" in b.name:
            continue
        f = fam_name(b)
        for bb in sorted(b.live_blocks()):
            blk = b.blocks[bb]
            for st in blk["stmts"]:
                if st["k"] != "assign" or "macro:" in st.get("exp", ""):
                    continue
                rv = st["rv"]
                if rv["k"] == "agg" and rv["ak"] == "adt" and strip_generics(rv["adt"]).split("::")[0] in ("storage", "net"):
                    o = b.origin_rvalue(rv)
                    for fld, fo in o[4].items():
                        if fld in ROLES:
                            src = _role_of(fo)
                            if src is not None:
                                r.add(f, "%s{%s: <%s>}" % (o[2].split("::")[-1], fld, src), src == fld, short_span(st.get("span")), "" if src == fld else "field %s is initialised from a %s value" % (fld, src))
                pl = st["pl"]
                if pl["p"] and pl["p"][-1][0] == "f" and pl["p"][-1][2] in ROLES and rv["k"] != "agg":
                    fld = pl["p"][-1][2]
                    src = _role_of(b.origin_rvalue(rv))
                    if src is not None:
                        r.add(f, "<entry>.%s = <%s>" % (fld, src), src == fld, short_span(st.get("span")), "" if src == fld else "field %s is assigned a %s value" % (fld, src))
            t = blk["term"]
            if t and t["k"] == "call" and "macro:" not in (t.get("fn_exp") or ""):
                cb = prog.callee_body(t)
                params = t.get("params") or (cb.params if cb else None)
                if cb is None or not params:
                    continue
                for i, pn in enumerate(params):
                    if pn in ROLES and i < len(t["args"]):
                        src = _role_of(b.origin_operand(t["args"][i]))
                        if src is not None:
                            r.add(f, "%s(%s: <%s>)" % (cb.name.split("::")[-1], pn, src), src == pn, where(b, bb), "" if src == pn else "parameter %s receives a %s value" % (pn, src))
    return r


# ---------------------------------------------------------------------------------------------
# S2 / S3: index effects of writing a record vs. replaying it; displaced-entry accounting


def _effects_in(b, blocks, prog):
    """set of (map, op) index effects of the calls in the given blocks"""
    out = set()
    for bb in blocks:
        t = b.term(bb)
        if not t or t["k"] != "call":
            continue
        cn, rn = callee_names(t)
        if not cn:
            continue
        if cn.startswith("dashmap::DashMap::"):
            m = cn.split("::")[-1]
            p = arg_path(b, t, 0) or ""
            which = "keydir" if p.endswith("keydir") else ("stats" if p.endswith("stats") else None)
            if which == "keydir" and m not in ("get", "iter", "contains_key", "len", "is_empty"):
                out.add(("keydir", m))
        elif cn.startswith("storage::bitcask::log::LogStatistics::"):
            m = cn.split("::")[-1]
            if m == "overwrite":
                o = arg_origin(b, t, 0)
                ents = origin_mentions(o, lambda x: x[0] == "call" and x[1] == "dashmap::DashMap::entry")
                keyed = any(peel(e[2][1])[0] == "field" and peel(e[2][1])[2] == "fileid" for e in ents if len(e[2]) > 1)
                ln = peel(arg_origin(b, t, 1))
                out.add(("stats", "overwrite(displaced.len)@displaced.fileid" if keyed and ln[0] == "field" and ln[2] == "len" else "overwrite(?)"))
            elif m in ("add_live", "add_dead"):
                out.add(("stats", m))
    return out


def _exclusive(b, edge_dst, other_dsts, stop):
    mine = reach(b, [edge_dst], blocked_edges=lambda e: e.kind == "unwind", blocked_blocks=stop)
    others = set()
    for d in other_dsts:
        others |= reach(b, [d], blocked_edges=lambda e: e.kind == "unwind", blocked_blocks=stop)
    return mine - others


def written_value_switch(wr):
    """the test in Writer::write that tells a value from a tombstone: (block, [Some-side dsts],
    [None-side dsts]) for `match value`, `value.is_some()`, `value.is_none()` (also through a
    `let is_tombstone = …`, negated or not)"""
    for bb in sorted(wr.live_blocks()):
        info = wr.switch_info(bb)
        if not info:
            continue
        if info["kind"] == "variant" and (access_path(info["on"]) or "").endswith("value") and set(sum(info["arms"].values(), [])) >= {"Some", "None"}:
            return bb, [e.dst for e in wr.succ[bb] if info["arms"].get(e.dst) == ["Some"]], [e.dst for e in wr.succ[bb] if info["arms"].get(e.dst) == ["None"]]
        if info["kind"] == "bool":
            o = peel_var(info["on"])
            neg = False
            while o[0] == "un" and o[1] == "Not":
                o, neg = peel_var(o[2]), not neg
            if o[0] == "call" and o[1] and o[1].split("::")[-1] in ("is_some", "is_none") and o[1].split("::")[-2] == "Option" and o[2] and (access_path(o[2][0]) or "").endswith("value"):
                some_when = (o[1].split("::")[-1] == "is_some") != neg
                return bb, [e.dst for e in wr.succ[bb] if info["arms"].get(e.dst) == [some_when]], [e.dst for e in wr.succ[bb] if info["arms"].get(e.dst) == [not some_when]]
    return None, [], []


def _value_switch(b, pred_on):
    for bb in sorted(b.live_blocks()):
        info = b.switch_info(bb)
        if info and pred_on(info):
            return bb, info
    return None, None


def s2_live_vs_recovery(ctx):
    r = RuleResult("S2", "replaying a record during recovery performs the same index effects as writing it did: live record ⇒ {keydir.insert, displaced entry → overwrite(len) on its file, add_live}; tombstone ⇒ {keydir.remove, displaced entry → overwrite, add_dead}. Compared between Writer::put/delete (+ the matching side of Writer::write), the data-file scanner's arms, and the hint loader", floor=4)
    prog = ctx.prog
    sigs = {}
    # live path
    put = prog.one("storage::bitcask::Writer::put")
    dele = prog.one("storage::bitcask::Writer::delete")
    wr = prog.one("storage::bitcask::Writer::write")
    wbb, t_dst, f_dst = written_value_switch(wr)
    if wbb is None:
        r.unrec(fam_name(wr), "test of the written value (Some/None)", short_span(wr.span), "not found")
        return r
    rets = {bb for bb in wr.live_blocks() if wr.term(bb)["k"] == "return"}
    w_some = _effects_in(wr, _exclusive(wr, t_dst[0], f_dst, rets), prog) if t_dst else set()
    w_none = _effects_in(wr, _exclusive(wr, f_dst[0], t_dst, rets), prog) if f_dst else set()
    sigs[("live", "Writer::put + write[Some]")] = (_effects_in(put, put.live_blocks(), prog) | w_some, short_span(put.span))
    sigs[("tomb", "Writer::delete + write[None]")] = (_effects_in(dele, dele.live_blocks(), prog) | w_none, short_span(dele.span))
    # scanner
    sc = [x for x in prog.family("storage::bitcask::populate_keydir_with_datafile") if calls_in([x], "storage::bitcask::log::LogIterator::next")]
    if len(sc) != 1:
        r.unrec("storage::bitcask::populate_keydir_with_datafile", "scanner body", "src/storage/bitcask.rs", "not found")
        return r
    sc = sc[0]
    nxt = {bb for _, bb, t in calls_in([sc], "storage::bitcask::log::LogIterator::next")}
    sbb, sinfo = _value_switch(sc, lambda i: i["kind"] == "variant" and origin_str(i["on"]).endswith(".value") and set(sum(i["arms"].values(), [])) >= {"Some", "None"})
    if sbb is None:
        r.unrec(fam_name(sc), "match on the scanned entry's value", short_span(sc.span), "not found")
        return r
    s_some = [e.dst for e in sc.succ[sbb] if sinfo["arms"].get(e.dst) == ["Some"]]
    s_none = [e.dst for e in sc.succ[sbb] if sinfo["arms"].get(e.dst) == ["None"]]
    sigs[("live", "scanner[Some]")] = (_effects_in(sc, _exclusive(sc, s_some[0], s_none, nxt), prog), where(sc, sbb))
    sigs[("tomb", "scanner[None]")] = (_effects_in(sc, _exclusive(sc, s_none[0], s_some, nxt), prog), where(sc, sbb))
    # hint loader
    hl = [x for x in prog.family("storage::bitcask::populate_keydir_with_hintfile") if calls_in([x], "storage::bitcask::log::LogIterator::next")]
    if len(hl) == 1:
        hl = hl[0]
        hn = {bb for _, bb, t in calls_in([hl], "storage::bitcask::log::LogIterator::next")}
        body_blocks = set()
        for nb in hn:
            body_blocks |= reach(hl, [hl.term(nb)["t"]], blocked_edges=lambda e: e.kind == "unwind", blocked_blocks=hn)
        sigs[("live", "hint loader")] = (_effects_in(hl, body_blocks, prog), short_span(hl.span))
    else:
        r.unrec("storage::bitcask::populate_keydir_with_hintfile", "hint loader body", "src/storage/bitcask.rs", "not found")
    want = {
        "live": {("keydir", "insert"), ("stats", "overwrite(displaced.len)@displaced.fileid"), ("stats", "add_live")},
        "tomb": {("keydir", "remove"), ("stats", "overwrite(displaced.len)@displaced.fileid"), ("stats", "add_dead")},
    }
    ref = {}
    for (kind, name), (sig, wh) in sigs.items():
        if kind not in ref:
            ref[kind] = (name, sig)
    for (kind, name), (sig, wh) in sorted(sigs.items()):
        rname, rsig = ref[kind]
        same = sig == rsig
        exp = sig == want[kind]
        det = ""
        if not same:
            det = "%s does %s but %s does %s" % (name, sorted(sig - rsig) or "nothing extra", rname, sorted(rsig - sig))
            det += " — missing here: %s" % sorted(rsig - sig)
        elif not exp:
            det = "effects %s differ from the record kind's meaning %s" % (sorted(sig), sorted(want[kind]))
        r.add("storage::bitcask", "%s record: %s" % ("live" if kind == "live" else "tombstone", name), same and exp, wh, det)
    r.analysed = [put.path, dele.path, wr.path, sc.path]
    return r


def s3_displaced_accounting(ctx):
    r = RuleResult("S3", "every keydir.insert / keydir.remove routes the entry it displaced to LogStatistics::overwrite(prev.len) on stats.entry(prev.fileid), on every path; every append is counted (add_live/add_dead) on the stats entry of the file it went to (read before any rollover), with the appended length for dead entries", floor=7)
    prog = ctx.prog
    n = 0
    for b in shipped_bodies(prog):
        for bb, t in b.calls():
            if bb not in b.live_blocks():
                continue
            cn, rn = callee_names(t)
            if cn not in ("dashmap::DashMap::insert", "dashmap::DashMap::remove", "dashmap::DashMap::remove_if"):
                continue
            p = arg_path(b, t, 0) or ""
            if not p.endswith("keydir"):
                continue
            n += 1
            f = fam_name(b)
            site = (b.path, bb)
            # switch on the result
            sw = None
            for sb in b.live_blocks():
                info = b.switch_info(sb)
                if info and info["kind"] == "variant":
                    o = peel_var(info["on"])
                    if o[0] == "call" and o[3] == site:
                        sw = (sb, info)
            m = cn.split("::")[-1]
            if sw is None:
                r.bad(f, "keydir.%s: displaced entry → overwrite" % m, where(b, bb), "the displaced entry (the Option returned) is not examined: the file that held the old value never learns it is dead")
                continue
            sb, info = sw
            for e in b.succ[sb]:
                if info["arms"].get(e.dst) == ["Some"]:
                    ows = []
                    for xb in reach(b, [e.dst], blocked_edges=lambda x: x.kind == "unwind"):
                        xt = b.term(xb)
                        if xt["k"] == "call" and is_call_to(xt, "storage::bitcask::log::LogStatistics::overwrite"):
                            recv = arg_origin(b, xt, 0)
                            ents = origin_mentions(recv, lambda x: x[0] == "call" and x[1] == "dashmap::DashMap::entry")
                            key_ok = any(len(en[2]) > 1 and peel(en[2][1])[0] == "field" and peel(en[2][1])[2] == "fileid" and origin_mentions(en[2][1], lambda y: y[0] == "call" and y[3] == site) for en in ents)
                            ln = peel(arg_origin(b, xt, 1))
                            len_ok = ln[0] == "field" and ln[2] == "len" and bool(origin_mentions(ln, lambda y: y[0] == "call" and y[3] == site))
                            if key_ok and len_ok:
                                ows.append(xb)
                    # every non-unwind path from the Some edge to a return / loop continuation passes one of them
                    ends = lambda x: b.term(x)["k"] == "return" or (b.term(x)["k"] == "call" and is_call_to(b.term(x), "storage::bitcask::log::LogIterator::next"))
                    p2 = path_to(b, [e.dst], ends, blocked_edges=lambda x: x.kind == "unwind" or (x.src in ows and x.kind == "ret"))
                    good = bool(ows) and p2 is None
                    r.add(f, "keydir.%s: displaced entry → overwrite(prev.len) @ stats[prev.fileid]" % m, good, where(b, bb), "" if good else ("no overwrite keyed by the displaced entry's fileid with its len" if not ows else "a path skips the overwrite"), describe_path(b, p2) if p2 else None)
    # appends counted on the file they went to
    wr = prog.one("storage::bitcask::Writer::write")
    f = fam_name(wr)
    apps = [(bb, t) for _, bb, t in calls_in([wr], "storage::bitcask::log::LogWriter::append") if arg_path(wr, t, 0) == "self.writer"]
    rolls = [bb for _, bb, t in calls_in([wr], "storage::bitcask::Writer::new_active_datafile")]
    after_roll = set()
    for rb in rolls:
        after_roll |= reach(wr, [e.dst for e in wr.succ[rb]])
    cnt = []
    for _, bb, t in calls_in([wr], "storage::bitcask::log::LogStatistics::add_live", "storage::bitcask::log::LogStatistics::add_dead"):
        recv = arg_origin(wr, t, 0)
        ents = origin_mentions(recv, lambda x: x[0] == "call" and x[1] == "dashmap::DashMap::entry")
        keyed = bool(ents) and all(access_path(en[2][1]) == "self.active_fileid" for en in ents if len(en[2]) > 1)
        ent_bbs = [en[3][1] for en in ents]
        before = all(eb not in after_roll for eb in ent_bbs)
        which = strip_generics(t["callee"]).split("::")[-1]
        ok = keyed and before
        det = ""
        if which == "add_dead" and apps:
            ln = peel(arg_origin(wr, t, 1))
            lok = ln[0] == "field" and ln[2] == "len" and bool(origin_mentions(ln, lambda y: y[0] == "call" and y[3] == (wr.path, apps[0][0])))
            ok = ok and lok
            det = "" if lok else "dead bytes are not the appended length"
        r.add(f, "append counted by %s on stats[self.active_fileid] before rollover" % which, ok, where(wr, bb), det or ("" if ok else "counted on %s" % origin_str(recv)))
        cnt.append(which)
    r.add(f, "both record kinds are counted (add_live, add_dead)", set(cnt) >= {"add_live", "add_dead"}, short_span(wr.span), "found %s" % cnt)
    # every Ok path after the append passes a count
    if apps:
        abb = apps[0][0]
        ok_e, _, _ = try_edges(wr, abb)
        cbbs = {bb for _, bb, t in calls_in([wr], "storage::bitcask::log::LogStatistics::add_live", "storage::bitcask::log::LogStatistics::add_dead")}
        leak = False
        for e in ok_e or []:
            classes = {c for c, d, rb in ret_classes(wr, e.dst, lambda x: x.kind == "unwind" or (x.src in cbbs and x.kind == "ret"))}
            leak = leak or bool([c for c in classes if c not in ("err", "unwind")])
        r.add(f, "every Ok path after the append counts the record", not leak, where(wr, abb))
    return r


# ---------------------------------------------------------------------------------------------
# S5: trigger / threshold roles


def s5_trigger_threshold_roles(ctx):
    r = RuleResult("S5", "Context::can_merge (whether to merge) compares statistics only with conf.merge.triggers.*, Context::fileids_to_merge (which files) only with conf.merge.thresholds.*; each comparison pairs a statistic with the like-named limit in the selecting direction (dead_bytes > dead_bytes, fragmentation() > fragmentation, file length < small_file)", floor=5)
    prog = ctx.prog
    for fname, group in (("storage::bitcask::Context::can_merge", "triggers"), ("storage::bitcask::Context::fileids_to_merge", "thresholds")):
        b0 = prog.one(fname)
        f = fam_name(b0)
        seen = []
        # the function and its closures (`stats.iter().any(|entry| …)` is the same comparison)
        fam_bodies = sorted(prog.families[b0.root], key=lambda x: x.path)
        for b, bb, st in [(x, bb, st) for x in fam_bodies for bb in sorted(x.live_blocks()) for st in x.blocks[bb]["stmts"]]:
            if True:
                if st["k"] != "assign" or st["rv"]["k"] != "bin" or st["rv"]["op"] not in ("Gt", "Lt", "Ge", "Le"):
                    continue
                if "macro:" in st.get("exp", ""):
                    continue
                o = b.origin_rvalue(st["rv"])
                sides = [o[2], o[3]]
                # (inside a closure the limits may come in as a captured `thresholds`: resolve the capture)
                rap = lambda s_: resolved_access_path(prog, b, s_) or access_path(s_)
                conf = [(i, rap(s)) for i, s in enumerate(sides) if (rap(s) or "").find("conf.merge.t") >= 0]
                if not conf:
                    continue
                ci, cp = conf[0]
                stat = sides[1 - ci]
                ss = origin_str(stat)
                if "fragmentation" in ss and origin_mentions(stat, lambda x: x[0] == "call" and x[1] and x[1].endswith("LogStatistics::fragmentation")):
                    tag = "fragmentation"
                elif peel(stat)[0] == "field" and peel(stat)[2] == "dead_bytes":
                    tag = "dead_bytes"
                elif origin_mentions(stat, lambda x: x[0] == "call" and x[1] and x[1].endswith("Metadata::len")):
                    tag = "small_file"
                else:
                    tag = "?" + ss
                parts = cp.split("conf.merge.")[-1].split(".")
                g, nm = (parts[0], parts[1]) if len(parts) >= 2 else (parts[0], "")
                op = st["rv"]["op"]
                # normalise to "stat OP limit"
                if ci == 0:
                    op = {"Gt": "Lt", "Lt": "Gt", "Ge": "Le", "Le": "Ge"}[op]
                want_op = "Lt" if tag == "small_file" else "Gt"
                good = g == group and nm == tag and op in (want_op,)
                seen.append(tag)
                r.add(f, "%s %s conf.merge.%s.%s" % (tag, op, g, nm), good, short_span(st.get("span")), "" if good else "expected %s %s conf.merge.%s.%s" % (tag, want_op, group, tag))
        exp = {"dead_bytes", "fragmentation"} | ({"small_file"} if group == "thresholds" else set())
        b = b0
        r.add(f, "compares %s" % sorted(exp), set(seen) >= exp, short_span(b.span), "found %s" % sorted(seen))
        # no other conf.merge.* group is read
        other = "thresholds" if group == "triggers" else "triggers"
        bad = []
        for x in fam_bodies:
            for bb in x.live_blocks():
                for st in x.blocks[bb]["stmts"]:
                    if st["k"] == "assign":
                        s = origin_str(x.origin_rvalue(st["rv"]))
                        if "conf.merge." + other in s:
                            bad.append((x, bb))
        r.add(f, "does not read conf.merge.%s" % other, not bad, where(bad[0][0], bad[0][1]) if bad else short_span(b.span))
        # the statistic compared belongs to the file being decided (fileids_to_merge: inserted id = entry key)
        if group == "thresholds":
            ins = calls_in([b], "std::collections::BTreeSet::insert", "std::collections::HashSet::insert")
            md = calls_in([b], "std::fs::metadata")
            for _, bb, t in ins:
                io = arg_origin(b, t, 1)
                good = bool(origin_mentions(io, lambda x: x[0] == "call" and x[1] and x[1].split("::")[-1] == "key"))
                r.add(f, "selected id = key of the accounting entry tested", good, where(b, bb), origin_str(io))
            for _, bb, t in md:
                mo = arg_origin(b, t, 0)
                nm = origin_mentions(mo, lambda x: x[0] == "call" and x[1] and x[1].endswith("datafile_name"))
                good = bool(nm) and bool(origin_mentions(nm[0][2][1], lambda x: x[0] == "call" and x[1] and x[1].split("::")[-1] == "key")) if nm and len(nm[0][2]) > 1 else False
                r.add(f, "size tested is that of the same file's data file", good, where(b, bb), origin_str(mo))
    return r


# ---------------------------------------------------------------------------------------------
# S4: RESP tag tables


def s4_resp_tag_tables(ctx):
    r = RuleResult("S4", "the encoder's variant→tag table, the parser's tag→variant table and the completeness check's accepted tag set are mutually consistent: parse∘write is the identity on frame variants, check and parse accept the same tags, and the Null literal written is `$` + the literal the parser compares + CRLF", floor=8)
    prog = ctx.prog
    # ---- encoder
    enc = {}
    wfam = prog.family("net::connection::Connection::write_single_value")
    wb = [x for x in wfam if x.coroutine]
    if not wb:
        r.unrec("net::connection::Connection::write_single_value", "encoder body", "src/net/connection.rs", "not found")
        return r
    wb = wb[0]
    sbb, sinfo = None, None
    for bb in sorted(wb.live_blocks()):
        info = wb.switch_info(bb)
        if info and info["kind"] == "variant" and set(sum(info["arms"].values(), [])) >= {"SimpleString", "Integer", "BulkString"}:
            sbb, sinfo = bb, info
            break
    if sbb is None:
        r.unrec(fam_name(wb), "match on the frame variant", short_span(wb.span), "not found")
        return r
    dsts = {e.dst: sinfo["arms"].get(e.dst, []) for e in wb.succ[sbb]}
    rets = {bb for bb in wb.live_blocks() if wb.term(bb)["k"] == "return"}
    null_lit = None
    for dst, labs in dsts.items():
        if len(labs) != 1:
            continue
        others = [d for d in dsts if d != dst]
        ex = _exclusive(wb, dst, others, rets)
        # first write on the stream in this arm
        first = None
        order = []
        dq = [dst]
        seen = set()
        while dq:
            x = dq.pop(0)
            if x in seen or x not in ex:
                continue
            seen.add(x)
            t = wb.term(x)
            if t["k"] == "call" and is_call_to(t, "tokio::io::AsyncWriteExt::write_u8", "tokio::io::AsyncWriteExt::write_all"):
                order.append((x, t))
                break
            for e in wb.succ[x]:
                if e.kind != "unwind":
                    dq.append(e.dst)
        if order:
            x, t = order[0]
            if is_call_to(t, "tokio::io::AsyncWriteExt::write_u8"):
                v = const_int(arg_origin(wb, t, 1))
                enc[labs[0]] = chr(v) if v is not None else None
            else:
                bs = const_bytes(arg_origin(wb, t, 1))
                if bs is None:
                    o = peel(arg_origin(wb, t, 1))
                    # &[u8; N] literal: rendered in the display string
                    if o[0] == "const":
                        bs = _lit_from_display(o[1].get("v"))
                if bs:
                    enc[labs[0]] = chr(bs[0])
                    if labs[0] == "Null":
                        null_lit = bs
                else:
                    enc[labs[0]] = None
        else:
            enc[labs[0]] = "unimplemented" if labs[0] == "Array" else None
    # Array is written by write_array
    ab, a0, astop = array_writer_region(prog)
    if ab is not None:
        region = reach(ab, [a0], blocked_edges=lambda e: e.kind in ("unwind", "ydrop"), blocked_blocks=astop)
        for _, bb, t in calls_in([ab], "tokio::io::AsyncWriteExt::write_u8"):
            if bb not in region:
                continue
            v = const_int(arg_origin(ab, t, 1))
            if v is not None and "Array" not in enc or enc.get("Array") == "unimplemented":
                enc["Array"] = chr(v)
    # ---- parser
    dec = {}
    pb = None
    for cand in ("net::frame::Frame::parse_nested", "net::frame::Frame::parse"):
        c = prog.find(cand)
        if c and calls_in(c, "net::frame::get_byte"):
            pb = c[0]
            break
    cb = None
    for cand in ("net::frame::Frame::check_nested", "net::frame::Frame::check"):
        c = prog.find(cand)
        if c and calls_in(c, "net::frame::get_byte"):
            cb = c[0]
            break
    if pb is None or cb is None:
        r.unrec("net::frame::Frame", "parse / check bodies", "src/net/frame.rs", "not found")
        return r

    def tag_switch(b):
        for bb in sorted(b.live_blocks()):
            info = b.switch_info(bb)
            if info and info["kind"] == "int" and origin_mentions(info["on"], lambda x: x[0] == "call" and x[1] and x[1].endswith("get_byte")):
                return bb, info
        return None, None

    pbb, pinfo = tag_switch(pb)
    cbb, cinfo = tag_switch(cb)
    if pbb is None or cbb is None:
        r.unrec("net::frame::Frame", "switch on the tag byte", "src/net/frame.rs", "not found in parse=%s check=%s" % (pbb is not None, cbb is not None))
        return r
    prets = {bb for bb in pb.live_blocks() if pb.term(bb)["k"] == "return"}
    pd = {e.dst: pinfo["arms"].get(e.dst, []) for e in pb.succ[pbb]}
    null_cmp = None
    for dst, labs in pd.items():
        if labs == ["otherwise"] or not labs:
            continue
        others = [d for d in pd if d != dst]
        ex = _exclusive(pb, dst, others, prets)
        vs = set()
        for x in ex:
            for st in pb.blocks[x]["stmts"]:
                if st["k"] == "assign" and st["rv"]["k"] == "agg" and st["rv"]["ak"] == "adt" and strip_generics(st["rv"]["adt"]) == "net::frame::Frame":
                    vs.add(st["rv"]["variant"])
            t = pb.term(x)
            if t["k"] == "call" and is_call_to(t, "std::cmp::PartialEq::ne", "std::cmp::PartialEq::eq"):
                for i in (0, 1):
                    o = peel(arg_origin(pb, t, i))
                    if o[0] == "const":
                        lit = const_bytes(o) or _lit_from_display(o[1].get("v"))
                        if lit:
                            null_cmp = lit
        for lab in labs:
            dec[chr(int(lab))] = vs
    ctags = set()
    for e in cb.succ[cbb]:
        for lab in cinfo["arms"].get(e.dst, []):
            if lab != "otherwise":
                ctags.add(chr(int(lab)))
    # the otherwise arm of both must be an error
    for b, bb, info, nm in ((pb, pbb, pinfo, "parse"), (cb, cbb, cinfo, "check")):
        classes = {c for c, d, rb in ret_classes(b, info["otherwise"], lambda e: e.kind == "unwind")}
        r.add(fam_name(b), "%s: unknown tag byte ⇒ Err" % nm, classes <= {"err"} and bool(classes), where(b, bb))
    r.note("encoder: %s; parser: %s; check accepts: %s; Null literal written %r, compared %r" % (enc, {k: sorted(v) for k, v in dec.items()}, sorted(ctags), null_lit, null_cmp))
    for var in ("SimpleString", "Error", "Integer", "BulkString", "Null", "Array"):
        tag = enc.get(var)
        good = tag is not None and tag in dec and var in dec[tag]
        r.add("net::connection::Connection", "%s is written with tag %r, which the parser maps back to %s" % (var, tag, var), good, short_span(wb.span), "" if good else "parser maps %r to %s" % (tag, sorted(dec.get(tag, [])) if tag else "?"))
    r.add("net::frame::Frame", "check and parse accept the same tag bytes", ctags == set(dec.keys()), where(cb, cbb), "check %s vs parse %s" % (sorted(ctags), sorted(dec)))
    for tag, vs in sorted(dec.items()):
        allowed = {"+": {"SimpleString"}, "-": {"Error"}, ":": {"Integer"}, "$": {"BulkString", "Null"}, "*": {"Array"}}.get(tag)
        r.add("net::frame::Frame", "tag %r ⇒ %s" % (tag, sorted(vs)), allowed is not None and vs == allowed, where(pb, pbb), "" if allowed is not None and vs == allowed else "RESP assigns %r to %s" % (tag, sorted(allowed) if allowed else "nothing"))
    good = null_lit is not None and null_cmp is not None and null_lit == b"$" + null_cmp + b"\r\n"
    r.add("net::frame::Frame", "Null literal written = '$' + literal compared by the parser + CRLF", good, short_span(wb.span), "%r vs %r" % (null_lit, null_cmp))
    return r


def _lit_from_display(v):
    """parse rustc's display of a byte-string constant: `const b"$-1\\r\\n"` / `b"-1"`"""
    if not v:
        return None
    import ast
    import re

    m = re.search(r'b"((?:[^"\\]|\\.)*)"', v)
    if not m:
        return None
    try:
        return ast.literal_eval('b"' + m.group(1) + '"')
    except Exception:
        return None


# ---------------------------------------------------------------------------------------------
# S9: command-name table


def s9_command_table(ctx):
    r = RuleResult("S9", "Command::try_from dispatches on full equality of the command name with a literal, and each literal selects the command of the same name (\"SET\"→Set, \"GET\"→Get, \"DEL\"→Del); anything else is an error — stored data changes only through well-formed SET and DEL", floor=4)
    prog = ctx.prog
    b = [x for x in shipped_bodies(prog) if x.name == "<net::command::Command as std::convert::TryFrom<net::frame::Frame>>::try_from"]
    if len(b) != 1:
        r.unrec("net::command::Command", "TryFrom<Frame> impl", "src/net/command.rs", "found %d" % len(b))
        return r
    b = b[0]
    f = fam_name(b)
    aggs = []
    for bb in sorted(b.live_blocks()):
        for st in b.blocks[bb]["stmts"]:
            if st["k"] == "assign" and st["rv"]["k"] == "agg" and st["rv"]["ak"] == "adt" and strip_generics(st["rv"]["adt"]) == "net::command::Command":
                aggs.append((bb, st["rv"]["variant"]))
    if len(aggs) < 3:
        r.unrec(f, "Command::{Set,Get,Del} construction sites", short_span(b.span), "found %s" % aggs)
        return r
    # guards: bool switches on PartialEq::eq(<literal>, <name bytes>)
    guards = {}
    for bb in sorted(b.live_blocks()):
        info = b.switch_info(bb)
        if not info or info["kind"] != "bool":
            continue
        o = peel_var(info["on"])
        if o[0] == "call" and (o[1] in ("std::cmp::PartialEq::eq",) or (o[1] or "").endswith("::eq_ignore_ascii_case")):
            lit = None
            for a in o[2]:
                bs = const_bytes(a)
                if bs is not None:
                    lit = bs
            if lit is not None:
                for e in b.succ[bb]:
                    if info["arms"].get(e.dst) == [True]:
                        guards[(e.src, e.dst)] = (lit, b.term(o[3][1]).get("resolved"))
    # the same test as a pattern: `match name { b"DEL" => … }` compiles to a length test and one switch per byte
    len_edges, byte_edges = {}, {}
    for bb in sorted(b.live_blocks()):
        t = b.term(bb)
        info = b.switch_info(bb)
        if not info:
            continue
        if info["kind"] == "bool":
            o = peel_var(info["on"])
            if o[0] == "bin" and o[1] == "Eq":
                for x, y in ((o[2], o[3]), (o[3], o[2])):
                    x = peel_var(x)
                    if x[0] == "un" and x[1] == "PtrMetadata" and const_int(y) is not None:
                        for e in b.succ[bb]:
                            if info["arms"].get(e.dst) == [True]:
                                len_edges[(e.src, e.dst)] = (origin_str(x[2]), const_int(y))
        elif info["kind"] == "int" and t["op"].get("k") in ("move", "copy"):
            pr = t["op"]["pl"]["p"]
            if pr and pr[-1][0] == "ci" and not pr[-1][2]:
                base = origin_str(b.origin_place({"l": t["op"]["pl"]["l"], "p": pr[:-1]}))
                for e in b.succ[bb]:
                    labs = info["arms"].get(e.dst, [])
                    if len(labs) == 1 and labs[0] != "otherwise" and str(labs[0]).lstrip("-").isdigit():
                        byte_edges[(e.src, e.dst)] = (base, pr[-1][1], int(labs[0]))
    for bb, var in aggs:
        # which guard edges dominate this site?
        doms = []
        for ge, (lit, res) in guards.items():
            if bb not in reach(b, [0], blocked_edges=lambda e: (e.src, e.dst) == ge):
                doms.append((lit, res))
        pat = {}
        for ge, (base, n) in len_edges.items():
            if bb not in reach(b, [0], blocked_edges=lambda e: (e.src, e.dst) == ge):
                pat.setdefault(base, {})["len"] = n
        for ge, (base, k, v) in byte_edges.items():
            if bb not in reach(b, [0], blocked_edges=lambda e: (e.src, e.dst) == ge):
                pat.setdefault(base, {})[k] = v
        for base, d in pat.items():
            n = d.get("len")
            if n is not None and all(i in d for i in range(n)):
                doms.append((bytes(d[i] for i in range(n)), "core::slice pattern"))
        want = var.upper().encode()
        good = len(doms) >= 1 and all(l.upper() == want for l, _ in doms)
        # equality must be the library's (str/Bytes) equality, not a crate-local helper
        lib = all(res and not res.startswith("net::") and not res.startswith("storage::") for _, res in doms)
        r.add(f, "Command::%s only behind name == %r" % (var, want.decode()), good and lib, where(b, bb), "" if good and lib else ("guards: %s" % [(l, rs) for l, rs in doms] if doms else "no literal equality test dominates this dispatch (custom comparison?)"))
    # the tested name is the first element
    have = {v for bb, v in aggs}
    r.add(f, "dispatch sites found", {"Set", "Get", "Del"} <= have, short_span(b.span), "%s" % aggs)
    # every other path is an error
    site_bbs = {bb for bb, v in aggs}
    classes = {c for c, d, rb in ret_classes(b, 0, lambda e: e.kind == "unwind" or e.dst in site_bbs)}
    r.add(f, "no command is produced without passing a dispatch site", not [c for c in classes if c == "ok"], short_span(b.span), "return classes avoiding the dispatch sites: %s" % sorted(classes))
    return r


# ---------------------------------------------------------------------------------------------
# S10: the completeness check and the parser consume a line / an integer with the same readers


def s10_check_parse_readers(ctx):
    r = RuleResult("S10", "per tag byte, Frame::check and Frame::parse advance over lines and integers with the same reader helpers (get_line for + and -, get_integer for : and for the $ and * headers): the length check accepts is the length parse consumes for those parts", floor=5)
    prog = ctx.prog
    pb = cb = None
    for cand in ("net::frame::Frame::parse_nested", "net::frame::Frame::parse"):
        c = prog.find(cand)
        if c and calls_in(c, "net::frame::get_byte"):
            pb = c[0]
            break
    for cand in ("net::frame::Frame::check_nested", "net::frame::Frame::check"):
        c = prog.find(cand)
        if c and calls_in(c, "net::frame::get_byte"):
            cb = c[0]
            break
    if pb is None or cb is None:
        r.unrec("net::frame::Frame", "parse / check bodies", "src/net/frame.rs", "not found")
        return r

    BASE_READERS = {"get_line", "get_integer", "get_byte", "peek_byte", "skip", "ascii_to_i64"}

    def arms(b):
        for bb in sorted(b.live_blocks()):
            info = b.switch_info(bb)
            if info and info["kind"] == "int" and origin_mentions(info["on"], lambda x: x[0] == "call" and x[1] and x[1].endswith("get_byte")):
                rets = {x for x in b.live_blocks() if b.term(x)["k"] == "return"}
                dsts = {e.dst: info["arms"].get(e.dst, []) for e in b.succ[bb]}
                out = {}
                for dst, labs in dsts.items():
                    if not labs or labs == ["otherwise"]:
                        continue
                    others = [d for d in dsts if d != dst]
                    ex = _exclusive(b, dst, others, rets)
                    called = set()
                    for x in ex:
                        t = b.term(x)
                        if t["k"] == "call":
                            cbody = prog.callee_body(t)
                            if cbody is not None and cbody.name.startswith("net::frame::") and cbody.path not in (b.path,):
                                nm = cbody.name.split("::")[-1]
                                if nm in BASE_READERS or nm in ("parse_nested", "parse", "check_nested", "check"):
                                    called.add(nm)
                                else:
                                    # a wrapper (`get_utf8_line`): what counts is the readers it reaches
                                    for x2, bb2, t2 in transitive_calls(prog, [cbody]):
                                        c2 = prog.callee_body(t2)
                                        if c2 is not None and c2.name.split("::")[-1] in BASE_READERS and c2.name.startswith("net::frame::"):
                                            called.add(c2.name.split("::")[-1])
                    for lab in labs:
                        out[chr(int(lab))] = called
                return bb, out
        return None, {}

    pbb, pa = arms(pb)
    cbb, ca = arms(cb)
    if pbb is None or cbb is None:
        r.unrec("net::frame::Frame", "tag switches", "src/net/frame.rs", "not found")
        return r
    LINE = {"get_line", "get_integer"}
    want = {"+": {"get_line"}, "-": {"get_line"}, ":": {"get_integer"}}
    for tag in sorted(set(pa) | set(ca)):
        p_r = {x for x in pa.get(tag, set()) if x not in ("peek_byte", "skip", "get_byte", "ascii_to_i64")} - {pb.name.split("::")[-1], "parse_nested", "parse"}
        c_r = {x for x in ca.get(tag, set()) if x not in ("peek_byte", "skip", "get_byte", "ascii_to_i64")} - {cb.name.split("::")[-1], "check_nested", "check"}
        if tag in want:
            good = p_r == c_r == want[tag]
            r.add("net::frame::Frame", "tag %r: check and parse both read with %s" % (tag, sorted(want[tag])), good, where(cb, cbb), "" if good else "check uses %s, parse uses %s: the two can disagree on where the line ends" % (sorted(c_r), sorted(p_r)))
        else:
            # $ and *: the header integer is read by get_integer in both; parse may additionally use get_line for the null literal
            good = "get_integer" in p_r and "get_integer" in c_r and (c_r - LINE) == set() and (p_r - LINE) == set()
            r.add("net::frame::Frame", "tag %r: header length read by get_integer in both" % tag, good, where(cb, cbb), "" if good else "check uses %s, parse uses %s" % (sorted(c_r), sorted(p_r)))
    return r


def s11_empty_number_guard(ctx):
    r = RuleResult("S11", "get_integer rejects a number without digits: the test that guards the NotInteger return compares the digit cursor with the very value the digit loops started from (the position after an optional sign) — a bare sign has no value", floor=1)
    b = ctx.prog.one("net::frame::get_integer")
    f = fam_name(b)
    # the digit cursor: a user variable that is incremented by 1 in loops and indexes the buffer
    cands = {}
    for l, defs in b.defs.items():
        if not b.locals[l].get("user") or b.local_ty(l) != "usize":
            continue
        inc = init = None
        for bi, si, whole in defs:
            if si == "T" or not whole or bi not in b.live_blocks():
                continue
            o = b.origin_rvalue(b.blocks[bi]["stmts"][si]["rv"])
            po = peel(o)
            if po[0] == "field" and po[2] == "0":
                po = peel(po[1])
            if po[0] == "bin" and po[1] in ("Add", "AddWithOverflow") and const_int(po[3]) == 1 and peel_var(po[2])[0] == "var" and peel_var(po[2])[1] == l:
                inc = bi
            elif o[0] == "var" or peel(o)[0] in ("var", "call", "cast"):
                init = o
        if inc is not None and init is not None:
            cands[l] = init
    if len(cands) != 1:
        r.unrec(f, "digit cursor variable", short_span(b.span), "found %d candidates" % len(cands))
        return r
    idx, init = list(cands.items())[0]

    def root_local(o):
        """follow `let a = b;` chains of single-assignment variables to the first variable"""
        seen = 0
        while o[0] == "var" and o[3] is not None and o[3][0] == "var" and seen < 8:
            o = o[3]
            seen += 1
        return o[1] if o[0] == "var" else None

    init_local = root_local(init)
    found = False
    cands_ = []
    for bb in sorted(b.live_blocks()):
        info = b.switch_info(bb)
        if not info or info["kind"] != "bool":
            continue
        o = peel_var(info["on"])
        if o[0] == "bin" and o[1] in ("Eq", "Ne"):
            eq_arm = o[1] == "Eq"  # the edge on which cursor == x
            sides = [o[2], o[3]]
            vs = [s_ for s_ in sides if s_[0] == "var" and s_[1] == idx]
            others = [s_ for s_ in sides if not (s_[0] == "var" and s_[1] == idx)]
            if vs and others:
                # does the true edge lead to an Err(NotInteger) return?
                for e in b.succ[bb]:
                    if info["arms"].get(e.dst) == [eq_arm]:
                        rs = ret_classes(b, e.dst, lambda x: x.kind == "unwind")
                        if rs and all(c == "err" for c, d, rb in rs):
                            found = True
                            ot = others[0]
                            cands_.append((init_local is not None and root_local(ot) == init_local, bb, ot))
    if cands_:
        # several `cursor == x ⇒ Err` tests may exist (`== end` ⇒ Incomplete): one of them must be the start
        good = any(g for g, bb, ot in cands_)
        g0 = [c for c in cands_ if c[0]] or cands_
        r.add(f, "'no digits' test compares the cursor with its starting value", good, where(b, g0[0][1]), "" if good else "compares with %s but the digit loops start at %s: a bare sign would be accepted as 0" % (origin_str(g0[0][2]), origin_str(init)))
    if not found:
        r.bad(f, "'no digits' test", short_span(b.span), "no test `cursor == start` guarding an error return: an empty digit string is accepted")
    return r

"""K4 — variant routing: "in f, when enum value e has variant V, every path returns R"."""
from common import *
from engine import RuleResult


def rets_from(body, bb, no_unwind=True, infeasible=()):
    out = []
    inf = set(infeasible)
    blk = (lambda e: e.kind == "unwind" or (e.src, e.dst) in inf) if no_unwind else (lambda e: (e.src, e.dst) in inf)
    for c, d, rb in ret_classes(body, bb, blk):
        out.append((c, ret_origin(body, d), rb))
    return out


def continue_edges_of(body, value_pred):
    """the success edges of every `?` applied to a value satisfying value_pred: infeasible on a path
    on which that value is already known to be an error (`match r { Err(Io(e)) if … => …, r => r? }`)"""
    out = set()
    for bb in body.live_blocks():
        info = body.switch_info(bb)
        if info and info["kind"] == "variant":
            on = peel_var(info["on"])
            if on[0] == "try" and (value_pred(on[1]) or (len(on) > 2 and value_pred(on[2]))):
                for e in body.succ[bb]:
                    if "Continue" in info["arms"].get(e.dst, []):
                        out.add((e.src, e.dst))
    return out


def is_ok_none(c, o):
    if c != "ok" or o is None:
        return False
    o = peel_var(o)
    if o[0] != "agg":
        return False
    inner = peel_var(list(o[4].values())[0]) if o[4] else None
    return inner is not None and inner[0] == "agg" and inner[3] == "None"


def is_ok_some(c, o):
    if c != "ok" or o is None:
        return False
    o = peel_var(o)
    inner = peel_var(list(o[4].values())[0]) if o[0] == "agg" and o[4] else None
    return inner is not None and inner[0] == "agg" and inner[3] == "Some"


def variant_switches(body, on_pred):
    for bb in sorted(body.live_blocks()):
        info = body.switch_info(bb)
        if info and info["kind"] == "variant" and on_pred(info["on"]):
            yield bb, info


def check_edge_returns(r, body, func, sw_bb, dst, label, pred, want, floor_note="", infeasible=()):
    rs = rets_from(body, dst, infeasible=infeasible)
    bad = [(c, o, rb) for c, o, rb in rs if not pred(c, o)]
    ok = bool(rs) and not bad
    wit = None
    if bad:
        p = path_to(body, [dst], lambda b: b == bad[0][2], blocked_edges=lambda e: e.kind == "unwind")
        wit = describe_path(body, [sw_bb] + (p or []))
    r.add(func, "%s ⇒ %s" % (label, want), ok, where(body, sw_bb), "" if ok else ("no return reachable" if not rs else "a path on this edge returns %s" % bad[0][0]), wit)


# ---------------------------------------------------------------------------------------------


def v1_log_iterator_eof(ctx):
    r = RuleResult("V1", "LogIterator::next: an I/O error of kind UnexpectedEof (end of file, also inside a torn last record) ⇒ Ok(None) on every path; every other decode error ⇒ Err", floor=3)
    b = ctx.prog.one("storage::bitcask::log::LogIterator::next")
    f = fam_name(b)
    r.analysed = [b.path]

    def from_deser(o):
        return bool(origin_mentions(o, lambda x: x[0] == "call" and x[1] and x[1].endswith("deserialize_from")))

    # the error value: Err payload of deserialize_from. In MIR `e` is a user variable assigned from it.
    err_locals = set()
    for bb in b.live_blocks():
        for st in b.blocks[bb]["stmts"]:
            if st["k"] == "assign" and not st["pl"]["p"]:
                o = b.origin_rvalue(st["rv"])
                if o[0] == "field" and o[1][0] == "variant" and o[1][2] == "Err" and from_deser(o[1][1]):
                    err_locals.add(st["pl"]["l"])

    def is_err_value(o):
        o2 = o
        while o2[0] in ("field", "variant"):
            o2 = o2[1]
        if o2[0] == "var" and o2[1] in err_locals:
            return True
        return from_deser(o)

    got_kind = False
    got_outer = False
    for bb, info in variant_switches(b, lambda o: True):
        on = info["on"]
        # inner: switch on io::Error::kind(<Io payload of e>)
        pk = peel_var(on)
        if pk[0] == "call" and pk[1] and pk[1].endswith("io::Error::kind") and is_err_value(pk[2][0]):
            got_kind = True
            for e in b.succ[bb]:
                labs = info["arms"].get(e.dst, [])
                if not labs:
                    continue
                if "UnexpectedEof" in labs:
                    if len(labs) == 1:
                        check_edge_returns(r, b, f, bb, e.dst, "io::ErrorKind::UnexpectedEof", is_ok_none, "Ok(None)")
                    else:
                        r.bad(f, "UnexpectedEof shares an arm with %d other kinds" % (len(labs) - 1), where(b, bb), "other I/O errors would be treated as a clean end of file")
                else:
                    check_edge_returns(r, b, f, bb, e.dst, "other io::ErrorKind (%d kinds)" % len(labs), lambda c, o: c == "err", "Err")
        elif is_err_value(on) and "Io" in sum(info["arms"].values(), []):
            got_outer = True
            for e in b.succ[bb]:
                labs = info["arms"].get(e.dst, [])
                if labs and "Io" not in labs:
                    check_edge_returns(r, b, f, bb, e.dst, "non-I/O decode error (%d variants)" % len(labs), lambda c, o: c == "err", "Err")
    # guard form: `Io(ioe) if ioe.kind() == io::ErrorKind::UnexpectedEof`
    for bb in sorted(b.live_blocks()):
        info = b.switch_info(bb)
        if not info or info["kind"] != "bool":
            continue
        on = peel_var(info["on"])
        neg = False
        while on[0] == "un" and on[1] == "Not":
            on, neg = peel_var(on[2]), not neg
        if on[0] == "call" and on[1].split("::")[-1] in ("eq", "ne") and len(on[2]) == 2:
            if on[1].split("::")[-1] == "ne":
                neg = not neg
            sides = [peel(x) for x in on[2]]
            ks = [x for x in sides if x[0] == "call" and x[1].endswith("io::Error::kind") and x[2] and is_err_value(x[2][0])]
            es = [x for x in sides if x[0] == "agg" and x[3] == "UnexpectedEof"]
            if ks and es:
                got_kind = True
                for e in b.succ[bb]:
                    lab = info["arms"].get(e.dst)
                    if lab == [not neg]:
                        check_edge_returns(r, b, f, bb, e.dst, "io::ErrorKind::UnexpectedEof", is_ok_none, "Ok(None)")
                    elif lab == [neg]:
                        check_edge_returns(r, b, f, bb, e.dst, "other io::ErrorKind", lambda c, o: c == "err", "Err")
    if not got_kind:
        r.unrec(f, "test of io::Error::kind() of the decoder's error", short_span(b.span), "no switch on kind() of the Io payload of deserialize_from's error found")
    if not got_outer:
        r.unrec(f, "test of the decoder's error variant", short_span(b.span), "no switch on the bincode error variant found")
    # success edge returns Some
    for bb, info in variant_switches(b, lambda o: peel_var(o)[0] == "call" and peel_var(o)[1].endswith("deserialize_from")):
        for e in b.succ[bb]:
            if "Ok" in info["arms"].get(e.dst, []):
                check_edge_returns(r, b, f, bb, e.dst, "decoded an entry", is_ok_some, "Ok(Some(..))")
    return r


def v2_parse_frame(ctx):
    r = RuleResult("V2", "Connection::parse_frame: Frame::check says Incomplete ⇒ Ok(None) (read more); any other check error ⇒ Err; check Ok ⇒ Frame::parse on the same buffer from position 0, and exactly the checked length (Cursor::position read before the reset) is consumed (D-len)", floor=5)
    b = ctx.prog.one("net::connection::Connection::parse_frame")
    f = fam_name(b)
    r.analysed = [b.path]
    checks = calls_in([b], "net::frame::Frame::check")
    if len(checks) != 1:
        r.unrec(f, "call Frame::check ×%d" % len(checks), short_span(b.span), "expected exactly one")
        return r
    _, cbb, ct = checks[0]
    site = (b.path, cbb)

    def on_check(o):
        o = peel_var(o)
        return o[0] == "call" and o[3] == site

    def on_check_err(o):
        o = peel_var(o)
        while o[0] == "field":
            o = peel_var(o[1])
        return o[0] == "variant" and o[2] == "Err" and on_check(o[1])

    ok_dst = None
    seen_inner = False
    for bb, info in variant_switches(b, lambda o: True):
        if on_check(info["on"]):
            for e in b.succ[bb]:
                if "Ok" in info["arms"].get(e.dst, []):
                    ok_dst = (bb, e.dst)
        elif on_check_err(info["on"]):
            seen_inner = True
            for e in b.succ[bb]:
                labs = info["arms"].get(e.dst, [])
                if not labs:
                    continue
                if "Incomplete" in labs:
                    if len(labs) == 1:
                        check_edge_returns(r, b, f, bb, e.dst, "frame::Error::Incomplete", is_ok_none, "Ok(None)")
                    else:
                        r.bad(f, "Incomplete shares an arm with other errors", where(b, bb), "malformed input would be treated as 'need more bytes' (or the reverse)")
                else:
                    check_edge_returns(r, b, f, bb, e.dst, "other frame::Error (%s)" % ",".join(labs), lambda c, o: c == "err", "Err")
    if not seen_inner:
        r.unrec(f, "test of Frame::check's error variant", where(b, cbb), "no switch on the Err payload of Frame::check found")
    # "need more bytes" is only ever declared by the completeness check
    inc_edges = set()
    for bb, info in variant_switches(b, lambda o: True):
        if on_check_err(info["on"]):
            for e in b.succ[bb]:
                if info["arms"].get(e.dst) == ["Incomplete"]:
                    inc_edges.add((e.src, e.dst))
    stray = [(c, o, rb) for c, d, rb in ret_classes(b, 0, lambda e: e.kind == "unwind" or (e.src, e.dst) in inc_edges) for o in [ret_origin(b, d)] if is_ok_none(c, o)]
    r.add(f, "Ok(None) ('read more') is returned only on Frame::check's Incomplete edge", bool(inc_edges) and not stray, where(b, stray[0][2]) if stray else where(b, cbb), "" if not stray else "a path returns Ok(None) without the completeness check having said Incomplete: a complete frame can sit in the buffer undecoded (short frames such as `+\\r\\n`)")
    if ok_dst is None:
        r.unrec(f, "Ok edge of Frame::check", where(b, cbb), "not found")
        return r
    sw_bb, okb = ok_dst
    region = reach(b, [okb], blocked_edges=lambda e: e.kind == "unwind")
    parses = [(bb, t) for _, bb, t in calls_in([b], "net::frame::Frame::parse", "net::frame::Frame::parse_nested") if bb in region]
    setpos = [(bb, t) for _, bb, t in calls_in([b], "std::io::Cursor::set_position") if bb in region]
    poss = [(bb, t) for _, bb, t in calls_in([b], "std::io::Cursor::position") if bb in region]
    advs = [(bb, t) for _, bb, t in calls_in([b], "bytes::Buf::advance", "bytes::BytesMut::advance") if bb in region]
    buf_check = arg_path(b, ct, 0)
    if len(parses) != 1:
        r.bad(f, "Frame::parse after check Ok ×%d" % len(parses), where(b, sw_bb), "a checked frame must be parsed exactly once")
    else:
        pbb, pt = parses[0]
        same = arg_path(b, pt, 0) == buf_check and buf_check is not None
        r.add(f, "Frame::parse reads the buffer Frame::check accepted", same, where(b, pbb), "check on %s, parse on %s" % (buf_check, arg_path(b, pt, 0)))
        # reset to 0 before parse
        z = [sb for sb, st in setpos if const_int(arg_origin(b, st, 1)) == 0 and arg_path(b, st, 0) == buf_check]
        before = bool(z) and all(pbb not in reach(b, [okb], blocked_edges=lambda e: e.kind == "unwind", blocked_blocks=set(z)) for _ in [0])
        r.add(f, "cursor reset to 0 before Frame::parse", before, where(b, pbb), "" if before else "a path reaches parse without set_position(0) on the checked buffer")
        # Ok returns carry parse's frame
        oks = [(c, o, rb) for c, o, rb in rets_from(b, okb) if c == "ok"]
        good = bool(oks) and all(is_ok_some(c, o) and origin_mentions(o, lambda x: x[0] == "call" and x[3] == (b.path, pbb)) for c, o, rb in oks)
        r.add(f, "returns Ok(Some(frame parsed))", good, where(b, pbb))
    if len(advs) != 1:
        r.bad(f, "consume (advance) after check Ok ×%d" % len(advs), where(b, sw_bb), "the checked frame must be consumed exactly once")
    else:
        abb, at = advs[0]
        o = peel(arg_origin(b, at, 1))
        is_pos = o[0] == "call" and o[1].endswith("Cursor::position") and access_path(o[2][0]) == buf_check
        ok = False
        detail = "consumed length is %s" % origin_str(o)
        if is_pos:
            pos_bb = o[3][1]
            # position read after check's ok edge and before any reset
            after_reset = set()
            for sb, st in setpos:
                after_reset |= reach(b, [b.term(sb)["t"]], blocked_edges=lambda e: e.kind == "unwind")
            ok = pos_bb in region and pos_bb not in after_reset
            if not ok:
                detail = "Cursor::position is read after the cursor was reset / moved by parse"
        r.add(f, "D-len: consumed length = Cursor::position after check", ok, where(b, abb), "" if ok else detail)
        tgt = arg_path(b, at, 0)
        r.add(f, "consumes from self.buffer", tgt == "self.buffer", where(b, abb), "advance on %s" % tgt)
        # every Ok(Some) path consumed the frame
        classes = {c for c, d, rb in ret_classes(b, okb, lambda e: e.kind == "unwind" or (e.src == abb and e.kind == "ret"))}
        leak = [c for c in classes if c not in ("err", "unwind")]
        r.add(f, "every path that returns the frame consumed exactly its bytes (advance on all Ok paths)", not leak, where(b, abb), "" if not leak else "a frame can be returned while the buffer is handled differently (bytes of following frames lost or the frame parsed twice)")
    # the read buffer is never replaced: unconsumed bytes of following frames live there
    for cb in shipped_bodies(ctx.prog):
        if cb.name.endswith("Connection::new") or not cb.name.startswith("net::connection::"):
            continue
        for bb in sorted(cb.live_blocks()):
            for st in cb.blocks[bb]["stmts"]:
                if st["k"] == "assign" and st["pl"]["p"] and st["pl"]["p"][-1][0] == "f" and st["pl"]["p"][-1][2] == "buffer" and "Connection" in cb.local_ty(st["pl"]["l"]):
                    r.bad(fam_name(cb), "self.buffer is replaced", short_span(st.get("span")), "the read buffer holds the unconsumed bytes of pipelined frames; replacing it drops them")
            t = cb.term(bb)
            if t["k"] == "call" and is_call_to(t, "bytes::BytesMut::clear", "bytes::BytesMut::truncate", "bytes::BytesMut::split", "bytes::BytesMut::split_to", "bytes::BytesMut::split_off", "std::mem::take", "std::mem::replace") and (arg_path(cb, t, 0) or "").endswith("self.buffer"):
                r.bad(fam_name(cb), "%s on self.buffer" % strip_generics(t["callee"]).split("::")[-1], where(cb, bb), "buffered bytes are discarded other than by consuming a checked frame")
    return r


def v6_write_frame_flushes(ctx):
    r = RuleResult("V6", "Connection::write_frame: every Ok return wrote the frame (write_array / write_single_value, error propagated) and then flushed the stream with the flush result on its Ok edge, unconditionally — a reply never waits in the write buffer for later traffic", floor=2)
    from asyncx import ready_edges
    from k2s import try_edges_awaited

    fam = ctx.prog.family("net::connection::Connection::write_frame")
    b = None
    for x in fam:
        if calls_in([x], "net::connection::Connection::write_single_value") and b is None:
            b = x
    f = "net::connection::Connection::write_frame"
    if b is None:
        r.unrec(f, "body", "src/net/connection.rs", "not found")
        return r
    r.analysed = [b.path]
    ws = calls_in([b], "net::connection::Connection::write_single_value", "net::connection::Connection::write_array")
    # an array written in place (write_array inlined by hand): its header writes on the stream
    ws += [(x_, bb_, t_) for x_, bb_, t_ in calls_in([b], "tokio::io::AsyncWriteExt::write_u8", "tokio::io::AsyncWriteExt::write_all") if (arg_path(b, t_, 0) or "").endswith("self.stream")]
    fl = [(bb, t) for _, bb, t in calls_in([b], "tokio::io::AsyncWriteExt::flush") if (arg_path(b, t, 0) or "").endswith("self.stream")]
    wok = set()
    for _, bb, t in ws:
        ok, err, sw = try_edges_awaited(b, bb)
        wok |= ok
    fok = set()
    for bb, t in fl:
        ok, err, sw = try_edges_awaited(b, bb)
        fok |= ok
    c1 = {c for c, d, rb in ret_classes(b, 0, lambda e: e.kind in ("unwind", "ydrop") or (e.src, e.dst) in wok)}
    r.add(f, "every Ok return wrote the frame (Ok edge of the writer)", bool(wok) and "ok" not in c1, short_span(b.span))
    c2 = {c for c, d, rb in ret_classes(b, 0, lambda e: e.kind in ("unwind", "ydrop") or (e.src, e.dst) in fok)}
    p = None
    r.add(f, "every Ok return flushed the stream (flush awaited, Ok edge) — unconditionally", bool(fok) and "ok" not in c2, where(b, fl[0][0]) if fl else short_span(b.span), "" if (fok and "ok" not in c2) else "write_frame can return Ok with the reply still in the BufWriter")
    # nothing is written with a partial-write API whose count is dropped
    for cb in shipped_bodies(ctx.prog):
        if not cb.name.startswith("net::connection::"):
            continue
        for _, bb, t in calls_in([cb], "tokio::io::AsyncWriteExt::write", "tokio::io::AsyncWriteExt::write_buf", "tokio::io::AsyncWriteExt::write_vectored", "tokio::io::AsyncWrite::poll_write"):
            r.bad(fam_name(cb), "partial write (%s) on the stream" % strip_generics(t["callee"]).split("::")[-1], where(cb, bb), "`write` may accept only a prefix (large payloads bypass the BufWriter): the tail is silently dropped while header and CRLF are still sent; use write_all")
    n_wa = len(calls_in([x for x in shipped_bodies(ctx.prog) if x.name.startswith("net::connection::")], "tokio::io::AsyncWriteExt::write_all", "tokio::io::AsyncWriteExt::write_u8"))
    r.add("net::connection::Connection", "all stream writes use write_all / write_u8 (%d sites)" % n_wa, n_wa >= 10, "src/net/connection.rs")
    # flush after the writes
    for bb, t in fl:
        before = all(bb in reach(b, [wb], blocked_edges=lambda e: e.kind in ("unwind", "ydrop")) for _, wb, _ in ws)
        r.add(f, "flush follows the writes", before, where(b, bb))
    return r


def kdec_decimal_buffer(ctx):
    r = RuleResult("K-dec", "Connection::write_decimal formats into a stack buffer whose length (read from the local's array type) is at least 20, the widest rendering of an i64 (\"-9223372036854775808\")", floor=1)
    prog = ctx.prog
    roots = [r_ for r_ in prog.families if strip_generics(r_) == "net::connection::Connection::write_decimal"]
    if roots:
        fam = [x for x in prog.families[roots[0]]]
    else:
        # the decimal formatter under another name: the code of the connection module that formats into a cursor
        fam = [x for x in shipped_bodies(prog) if x.name.startswith("net::connection::") and [1 for _, bb, t in calls_in([x], "std::io::Write::write_fmt") if "macro:debug_assert" not in (t.get("fn_exp") or "") + (t.get("exp") or "")]]
    import re

    found = False
    for b in fam:
        for i, l in enumerate(b.locals):
            m = re.match(r"^\[u8; (\d+)\]$", l["ty"])
            if m and l.get("user"):
                found = True
                n = int(m.group(1))
                r.add("net::connection::Connection::write_decimal", "scratch buffer [u8; %d] ≥ 20" % n, n >= 20, short_span(b.span), "" if n >= 20 else "i64::MIN needs 20 bytes; write! into a shorter buffer fails with WriteZero after the type byte was already queued")
        # heap idioms are fine
        if calls_in([b], "std::string::ToString::to_string", "alloc::fmt::format", "std::fmt::format", "itoa::Buffer::new"):
            found = True
            r.ok("net::connection::Connection::write_decimal", "growable / library formatting buffer", short_span(b.span))
    if not found:
        r.unrec("net::connection::Connection::write_decimal", "formatting buffer", "src/net/connection.rs", "no [u8; N] scratch buffer and no known growable idiom found")
    return r


def v3_read_frame_eof(ctx):
    r = RuleResult("V3", "Connection::read_frame: end of stream with an empty buffer ⇒ Ok(None) (clean end); end of stream with buffered bytes ⇒ Err (ended inside a frame); otherwise read again", floor=3)
    fam = ctx.prog.family("net::connection::Connection::read_frame")
    f = "net::connection::Connection::read_frame"
    b = None
    for x in fam:
        if calls_in([x], "net::connection::Connection::parse_frame") and b is None:
            b = x
    if b is None:
        r.unrec(f, "body calling parse_frame", "src/net/connection.rs", "not found")
        return r
    r.analysed = [b.path]

    def zero_test(o):
        """(is a test of the read count against 0, value of the switch operand that means `count == 0`)"""
        o = peel_var(o)
        neg = False
        while o[0] == "un" and o[1] == "Not":
            o, neg = peel_var(o[2]), not neg
        if o[0] != "bin" or o[1] not in ("Eq", "Ne", "Gt", "Lt", "Ge", "Le"):
            return False, None
        l, r_ = o[2], o[3]
        from_read = lambda s_: bool(origin_mentions(s_, lambda x: x[0] == "call" and x[1] and "read_buf" in x[1]) or origin_mentions(s_, lambda x: x[0] == "var"))
        zero_when = None
        if const_int(r_) == 0 and const_int(l) is None and from_read(l):
            zero_when = {"Eq": True, "Ne": False, "Gt": False, "Le": True}.get(o[1])
        elif const_int(l) == 0 and const_int(r_) is None and from_read(r_):
            zero_when = {"Eq": True, "Ne": False, "Lt": False, "Ge": True}.get(o[1])
        elif const_int(r_) == 1 and const_int(l) is None and from_read(l):
            zero_when = {"Lt": True, "Ge": False}.get(o[1])
        if zero_when is None:
            return False, None
        return True, (zero_when != neg)

    def empty_test(o):
        """(is a test of self.buffer.is_empty(), value of the operand that means `empty`)"""
        o = peel_var(o)
        neg = False
        while o[0] == "un" and o[1] == "Not":
            o, neg = peel_var(o[2]), not neg
        if o[0] == "call" and o[1] and o[1].endswith("is_empty") and (access_path(o[2][0]) or "").endswith("self.buffer"):
            return True, (not neg)
        return False, None

    zero_sw = None
    empty_sw = None
    for bb in sorted(b.live_blocks()):
        info = b.switch_info(bb)
        if not info or info["kind"] != "bool":
            continue
        ise, ev = empty_test(info["on"])
        isz, zv = zero_test(info["on"])
        if ise:
            empty_sw = (bb, info, ev)
        elif isz:
            zero_sw = (bb, info, zv)
    if zero_sw is None or empty_sw is None:
        r.unrec(f, "tests `read == 0` and `buffer.is_empty()`", short_span(b.span), "found zero-test=%s empty-test=%s" % (zero_sw is not None, empty_sw is not None))
        return r
    zbb, zinfo, zv = zero_sw
    ebb, einfo, ev = empty_sw
    ztrue = [e for e in b.succ[zbb] if zinfo["arms"].get(e.dst) == [zv]]
    zfalse = [e for e in b.succ[zbb] if zinfo["arms"].get(e.dst) == [not zv]]
    # the emptiness test is only on the read==0 edge
    tset = {(e.src, e.dst) for e in ztrue}
    dom = ebb not in reach(b, [0], blocked_edges=lambda e: (e.src, e.dst) in tset)
    r.add(f, "buffer.is_empty() is tested exactly when the read returned 0", dom, where(b, ebb))
    for e in b.succ[ebb]:
        labs = einfo["arms"].get(e.dst)
        if labs == [ev]:
            check_edge_returns(r, b, f, ebb, e.dst, "EOF ∧ buffer empty", is_ok_none, "Ok(None)")
        elif labs == [not ev]:
            check_edge_returns(r, b, f, ebb, e.dst, "EOF ∧ bytes buffered (inside a frame)", lambda c, o: c == "err", "Err")
    # Ok(None) ("the peer is done") is said nowhere else: a failed read (reset) is not a clean end
    et = {(e.src, e.dst) for e in b.succ[ebb] if einfo["arms"].get(e.dst) == [ev]}
    stray = [rb for c, d, rb in ret_classes(b, 0, lambda e: e.kind in ("unwind", "ydrop") or (e.src, e.dst) in et) if is_ok_none(c, ret_origin(b, d))]
    r.add(f, "Ok(None) only for read == 0 with an empty buffer", bool(et) and not stray, where(b, ebb), "" if not stray else "a clean end of stream is reported on another path (e.g. for a read error): a stream cut inside a frame looks like a normal close")
    # each iteration looks at the buffer before reading more: the read is reachable only after parse_frame said "nothing yet"
    pfc = calls_in([b], "net::connection::Connection::parse_frame")
    rbs = [bb for _, bb, t in calls_in([b], "tokio::io::AsyncReadExt::read_buf", "tokio::io::AsyncReadExt::read")]
    none_edges = set()
    for _, pbb, pt in pfc:
        for sb in b.live_blocks():
            inf = b.switch_info(sb)
            if inf and inf["kind"] == "variant" and set(sum(inf["arms"].values(), [])) >= {"Some", "None"} and origin_mentions(inf["on"], lambda x: x[0] == "call" and x[3] == (b.path, pbb)):
                for e in b.succ[sb]:
                    if inf["arms"].get(e.dst) == ["None"]:
                        none_edges.add((e.src, e.dst))
    dom = bool(rbs) and bool(none_edges) and all(rb not in reach(b, [0], blocked_edges=lambda e: e.kind in ("unwind", "ydrop") or (e.src, e.dst) in none_edges) for rb in rbs)
    r.add(f, "the stream is read only after parse_frame found no complete frame in the buffer", dom, where(b, rbs[0]) if rbs else short_span(b.span), "" if dom else "read_frame can go to the socket while a complete frame is already buffered (frames delivered in one segment: the second one blocks or is reported as a reset)")
    # read > 0: back to parse_frame without returning
    pf = {bb for _, bb, _ in calls_in([b], "net::connection::Connection::parse_frame")}
    for e in zfalse:
        p = path_to(b, [e.dst], lambda x: b.term(x)["k"] == "return", blocked_edges=lambda e2: e2.kind in ("unwind", "ydrop"), blocked_blocks=pf)
        r.add(f, "read > 0 ⇒ try to parse again", p is None, where(b, zbb), "" if p is None else "a path returns without re-parsing", describe_path(b, p) if p else None)
    return r


def v4_never_policy(ctx):
    r = RuleResult("V4", "Context::can_merge: policy Never ⇒ false on every path; merge_on_interval returns before its loop on the Never edge", floor=2)
    b = ctx.prog.one("storage::bitcask::Context::can_merge")
    f = fam_name(b)
    found = False
    from pathauto import explore, witness

    sws = list(variant_switches(b, lambda o: (access_path(o) or "").endswith("merge.policy")))
    never_edges, other_edges = set(), set()
    for bb, info in sws:
        for e in b.succ[bb]:
            labs = info["arms"].get(e.dst, [])
            if labs == ["Never"]:
                never_edges.add((e.src, e.dst))
                found = True
            elif labs and "Never" not in labs:
                other_edges.add((e.src, e.dst))

    def events(bb, e):
        if e is None:
            return []
        k = (e.src, e.dst)
        if k in never_edges:
            return ["never"]
        if k in other_edges:
            return ["other"]
        return []

    def delta(s_, ev):
        if ev == "never":
            return "never" if s_ != "other" else "#prune"  # Never after not-Never on one path: infeasible
        if ev == "other":
            return "other" if s_ != "never" else "#prune"
        return s_

    def on_exit(s_, kind, rc, bb):
        if kind == "return" and s_ == "never":
            d = explore.last0
            o = ret_origin(b, d)
            if o is None or const_int(o) != 0:
                return "policy Never, but can_merge returns %s" % (origin_str(o) if o is not None else "something other than false")
        if kind == "return" and s_ is None and found:
            # a return without any policy test: allowed only if some test exists on every path — reported below
            return "returns without having examined the merge policy"
        return None

    if found:
        vs = explore(b, None, events, delta, on_exit, follow=lambda e: e.kind != "unwind")
        if vs:
            for v in vs:
                r.bad(f, "MergePolicy::Never ⇒ false", where(b, v.path[-1]), v.msg, witness(b, v))
        else:
            r.ok(f, "MergePolicy::Never ⇒ false", where(b, sws[0][0]), "%d policy test(s)" % len(sws))
    if not found:
        r.bad(f, "MergePolicy::Never ⇒ false", short_span(b.span), "can_merge has no arm for policy Never: with Never the triggers are evaluated like with Always and a merge can run")
    # merge_on_interval: Never edge returns without reaching can_merge / merge
    fam = ctx.prog.family("storage::bitcask::merge_on_interval")
    found2 = False
    for mb in fam:
        for bb, info in variant_switches(mb, lambda o: (access_path(o) or "").endswith("merge.policy")):
            for e in mb.succ[bb]:
                labs = info["arms"].get(e.dst, [])
                if labs == ["Never"]:
                    found2 = True
                    reg = reach(mb, [e.dst], blocked_edges=lambda e2: e2.kind == "unwind")
                    bad = [x for x in reg if mb.term(x)["k"] == "call" and (is_call_to(mb.term(x), "storage::bitcask::Context::can_merge", "tokio::task::spawn_blocking", "storage::bitcask::Handle::merge"))]
                    r.add("storage::bitcask::merge_on_interval", "MergePolicy::Never ⇒ no path to can_merge / merge", not bad, where(mb, bb))
    if not found2:
        # can_merge's own Never arm is then the only barrier; W6 requires every merge to sit behind can_merge
        r.note("merge_on_interval has no early return on Never; Never is enforced by can_merge (V4) + W6 only")
    return r


def v5_hint_fallback(ctx):
    r = RuleResult("V5", "rebuild_storage: only an I/O error of kind NotFound from the hint loader falls back to scanning the data file of the same id; every other hint error is returned", floor=3)
    fam = ctx.prog.family("storage::bitcask::rebuild_storage")
    f = "storage::bitcask::rebuild_storage"
    b = None
    for x in fam:
        if calls_in([x], "storage::bitcask::populate_keydir_with_hintfile") and b is None:
            b = x
    if b is None:
        r.unrec(f, "call populate_keydir_with_hintfile", "src/storage/bitcask.rs", "not found")
        return r
    r.analysed = [b.path]
    hint = calls_in([b], "storage::bitcask::populate_keydir_with_hintfile")
    data = calls_in([b], "storage::bitcask::populate_keydir_with_datafile")
    if len(hint) != 1 or len(data) != 1:
        r.unrec(f, "hint loader ×%d, data scanner ×%d" % (len(hint), len(data)), short_span(b.span), "expected one of each")
        return r
    _, hbb, ht = hint[0]
    _, dbb, dt = data[0]
    same = all((arg_path(b, ht, i) == arg_path(b, dt, i) and arg_path(b, ht, i) is not None) or (arg_path(b, ht, i) is None and arg_origin(b, ht, i)[0] != "unknown" and arg_origin(b, ht, i) == arg_origin(b, dt, i)) for i in range(4))
    r.add(f, "fallback scans the same (path, id, keydir, stats) the hint loader was given", same, where(b, dbb), "hint(%s) vs data(%s)" % ([arg_path(b, ht, i) for i in range(4)], [arg_path(b, dt, i) for i in range(4)]))
    site = (b.path, hbb)

    def from_hint_err(o):
        # the error value is bound to a user variable assigned from the Err payload of the hint call
        return bool(origin_mentions(o, lambda x: x[0] == "call" and x[3] == site)) or any(x for x in origin_mentions(o, lambda x: x[0] == "var" and x[1] in err_locals))

    err_locals = set()
    for bb in b.live_blocks():
        for st in b.blocks[bb]["stmts"]:
            if st["k"] == "assign" and not st["pl"]["p"]:
                o = b.origin_rvalue(st["rv"])
                if o[0] == "field" and o[1][0] == "variant" and o[1][2] == "Err" and origin_mentions(o, lambda x: x[0] == "call" and x[3] == site):
                    err_locals.add(st["pl"]["l"])
    notfound_edges = set()
    seen_kind = seen_var = False
    # on an edge where the hint loader's result is known to be an error, `result?` cannot continue
    hint_q_ok = continue_edges_of(b, lambda o: peel_var(o)[0] == "call" and peel_var(o)[3] == site)
    for bb, info in variant_switches(b, from_hint_err):
        on = peel_var(info["on"])
        all_labs = sum(info["arms"].values(), [])
        if on[0] == "call" and on[1].endswith("io::Error::kind"):
            seen_kind = True
            for e in b.succ[bb]:
                labs = info["arms"].get(e.dst, [])
                if not labs:
                    continue
                if "NotFound" in labs:
                    if len(labs) == 1:
                        notfound_edges.add((e.src, e.dst))
                    else:
                        r.bad(f, "NotFound shares an arm with %d other kinds" % (len(labs) - 1), where(b, bb), "other I/O errors on a hint file would be silently treated as 'no hint'")
                else:
                    check_edge_returns(r, b, f, bb, e.dst, "hint error: other io::ErrorKind", lambda c, o: c == "err", "Err", infeasible=hint_q_ok)
        elif "Io" in all_labs and "Serialization" in all_labs:
            seen_var = True
            for e in b.succ[bb]:
                labs = info["arms"].get(e.dst, [])
                if labs and "Io" not in labs:
                    check_edge_returns(r, b, f, bb, e.dst, "hint error: %s" % ",".join(labs), lambda c, o: c == "err", "Err", infeasible=hint_q_ok)
    # guard form: `Err(Error::Io(ref ioe)) if ioe.kind() == io::ErrorKind::NotFound`
    for bb in sorted(b.live_blocks()):
        info = b.switch_info(bb)
        if not info or info["kind"] != "bool":
            continue
        on = peel_var(info["on"])
        neg = False
        if on[0] == "un" and on[1] == "Not":
            on, neg = peel_var(on[2]), True
        if on[0] == "call" and on[1].split("::")[-1] in ("eq", "ne") and len(on[2]) == 2:
            if on[1].split("::")[-1] == "ne":
                neg = not neg
            sides = [peel(x) for x in on[2]]
            kind_side = [x for x in sides if x[0] == "call" and x[1].endswith("io::Error::kind") and from_hint_err(x)]
            nf_side = [x for x in sides if x[0] == "agg" and x[3] == "NotFound"]
            if kind_side and nf_side:
                seen_kind = True
                for e in b.succ[bb]:
                    lab = info["arms"].get(e.dst)
                    if lab == [not neg]:
                        notfound_edges.add((e.src, e.dst))
                    elif lab == [neg]:
                        check_edge_returns(r, b, f, bb, e.dst, "hint error: other io::ErrorKind", lambda c, o: c == "err", "Err", infeasible=hint_q_ok)
    if not (seen_kind and seen_var):
        r.unrec(f, "routing of the hint loader's error", where(b, hbb), "switch on error variant=%s, on io kind=%s" % (seen_var, seen_kind))
    dom = bool(notfound_edges) and dbb not in reach(b, [0], blocked_edges=lambda e: (e.src, e.dst) in notfound_edges)
    r.add(f, "data-file scan only on hint error NotFound", dom, where(b, dbb), "" if dom else "the scan is reachable without the hint file being absent (or never)")
    # the scan's own error is propagated
    ok_e, err_e, sw = try_edges(b, dbb)
    r.add(f, "data-file scan error is propagated", bool(err_e) and all(all(c == "err" for c, o, rb in rets_from(b, e.dst)) for e in err_e), where(b, dbb))
    return r

"""K5 bounded recursion (R1), K7 error discipline (E1), K8 guards (G-hint), P17 read-under-guard,
O1 recovery order."""
from collections import defaultdict

import re

from common import *
from engine import RuleResult

# ---------------------------------------------------------------------------------------------
# R1


def _sccs(graph, nodes):
    index = {}
    low = {}
    stack = []
    on = set()
    out = []
    counter = [0]

    def strong(v):
        index[v] = low[v] = counter[0]
        counter[0] += 1
        stack.append(v)
        on.add(v)
        for w in graph.get(v, ()):
            if w not in nodes:
                continue
            if w not in index:
                strong(w)
                low[v] = min(low[v], low[w])
            elif w in on:
                low[v] = min(low[v], index[w])
        if low[v] == index[v]:
            comp = []
            while True:
                w = stack.pop()
                on.discard(w)
                comp.append(w)
                if w == v:
                    break
            out.append(comp)

    for v in sorted(nodes):
        if v not in index:
            strong(v)
    return out


def _bounding_edges(b, pname):
    """edges on which parameter pname is known to be below a constant (d < M or d <= M)"""
    out = {}
    for bb in b.live_blocks():
        info = b.switch_info(bb)
        if not info or info["kind"] != "bool":
            continue
        o = peel_var(info["on"])
        if o[0] != "bin" or o[1] not in ("Lt", "Le", "Gt", "Ge"):
            continue
        l, rr = peel(o[2]), peel(o[3])
        lc, rc = const_int(o[2]), const_int(o[3])
        # constants may be `const` items: shown as uneval consts → treat any const operand as a constant
        lconst = lc is not None or l[0] == "const"
        rconst = rc is not None or rr[0] == "const"
        want = None
        if l == ("arg", pname) and rconst:
            want = {"Lt": True, "Le": True, "Gt": False, "Ge": False}[o[1]]
            bound = rc if rc is not None else origin_str(rr)
        elif rr == ("arg", pname) and lconst:
            want = {"Gt": True, "Ge": True, "Lt": False, "Le": False}[o[1]]
            bound = lc if lc is not None else origin_str(l)
        if want is None:
            continue
        for e in b.succ[bb]:
            if info["arms"].get(e.dst) == [want]:
                out[(e.src, e.dst)] = bound
    return out


# deepest nesting that is certainly within a 2 MiB worker stack: 1024 levels × at most 1 KiB per level of the recursive parser
R1_MAX_DEPTH = 1024


def r1_bounded_recursion(ctx):
    r = RuleResult("R1", "every cycle of the crate-local call graph carries a ranking argument: an integer parameter that each cycle-closing call passes on increased by a constant ≥ 1, with the call dominated by a comparison of that parameter against a constant that bounds it (so nesting depth — hence stack use — is bounded whatever the input); no cycle at all is trivially fine", floor=1)
    prog = ctx.prog
    cg = prog.call_graph()
    nodes = {b.path for b in shipped_bodies(prog)}
    comps = _sccs(cg, nodes)
    cyc = [c for c in comps if len(c) > 1 or (c[0] in cg.get(c[0], ()))]
    r.note("%d bodies, %d strongly connected components, %d recursive" % (len(nodes), len(comps), len(cyc)))
    for comp in cyc:
        cset = set(comp)
        for p in sorted(comp):
            b = prog.bodies[p]
            for bb, t in b.calls():
                if bb not in b.live_blocks():
                    continue
                cb = prog.callee_body(t)
                if cb is None or cb.path not in cset:
                    continue
                f = fam_name(b)
                ranked = False
                detail = "no integer argument of the form <param> + k is passed"
                for i, a in enumerate(t["args"]):
                    o = peel(b.origin_operand(a))
                    if o[0] == "field" and o[2] == "0":
                        o = peel(o[1])
                    if o[0] == "bin" and o[1] in ("Add", "AddWithOverflow"):
                        base, k = peel(o[2]), const_int(o[3])
                        if base[0] == "arg" and k is not None and k >= 1:
                            pname = base[1]
                            # for self-recursion the rank must be passed in the same position
                            if cb.path == b.path and b.params and (i >= len(b.params) or b.params[i] != pname):
                                detail = "rank %s is passed in a different parameter position" % pname
                                continue
                            be = _bounding_edges(b, pname)
                            if not be:
                                detail = "parameter %s grows by %d per level but is never compared with a constant bound" % (pname, k)
                                continue
                            dom = bb not in reach(b, [0], blocked_edges=lambda e: (e.src, e.dst) in be)
                            bounds = sorted(set(str(x) for x in be.values()))
                            nums = [int(x) for x in bounds if re.match(r"^-?\d+$", x)]
                            if dom and (len(nums) != len(bounds)):
                                detail = "%s + %d is compared with %s, whose value the extractor could not evaluate: the depth bound is unknown" % (pname, k, bounds)
                            elif dom and max(nums) > R1_MAX_DEPTH:
                                detail = "%s + %d, bounded by %s — more than %d levels: each level is a stack frame of the recursive parser (several hundred bytes), a tokio worker has 2 MiB; a bound this large bounds nothing and a deeply nested frame overflows the stack, which aborts the process" % (pname, k, bounds, R1_MAX_DEPTH)
                            elif dom:
                                ranked = True
                                detail = "%s + %d, bounded by %s (≤ %d levels)" % (pname, k, bounds, R1_MAX_DEPTH)
                            else:
                                detail = "the recursive call is reachable without the bound on %s having been checked" % pname
                r.add(f, "recursive call %s → %s has a bounded ranking argument" % (b.name.split("::")[-1], cb.name.split("::")[-1]), ranked, where(b, bb), detail)
    if not cyc:
        r.ok("<crate>", "call graph is acyclic (no recursion)", "src/lib.rs")
    return r


# ---------------------------------------------------------------------------------------------
# E1


def _uses(b):
    if hasattr(b, "_use_index"):
        return b._use_index
    uses = defaultdict(int)

    def op(o):
        if o and o.get("k") in ("copy", "move"):
            uses[o["pl"]["l"]] += 1
            for el in o["pl"]["p"]:
                if el[0] == "i":
                    uses[el[1]] += 1

    def pl(p):
        uses[p["l"]] += 1

    for bb in b.live_blocks():
        blk = b.blocks[bb]
        for st in blk["stmts"]:
            if st["k"] == "assign":
                rv = st["rv"]
                k = rv["k"]
                if k in ("use", "cast", "repeat"):
                    op(rv["op"])
                elif k == "bin":
                    op(rv["a"])
                    op(rv["b"])
                elif k == "un":
                    op(rv["a"])
                elif k == "agg":
                    for o in rv["ops"]:
                        op(o)
                elif k in ("ref", "copyderef", "rawptr", "discr"):
                    pl(rv["pl"])
                if st["pl"]["p"]:
                    uses[st["pl"]["l"]] += 1
        t = blk["term"]
        if not t:
            continue
        if t["k"] == "call":
            for a in t["args"]:
                op(a)
            if t.get("fnop"):
                op(t["fnop"])
        elif t["k"] == "switch":
            op(t["op"])
        elif t["k"] == "assert":
            op(t["cond"])
        elif t["k"] == "yield":
            op(t["val"])
    b._use_index = uses
    return uses


DISCARD_SINKS = ("std::mem::drop", "std::result::Result::ok", "std::result::Result::err", "std::result::Result::is_ok", "std::result::Result::is_err", "std::result::Result::unwrap_or_default", "std::result::Result::unwrap_or", "std::option::Option::is_some", "std::option::Option::is_none", "std::mem::forget")


def _use_sites(b):
    if hasattr(b, "_use_sites"):
        return b._use_sites
    sites = defaultdict(list)
    for bb in b.live_blocks():
        blk = b.blocks[bb]
        for si, st in enumerate(blk["stmts"]):
            if st["k"] == "assign":
                rv = st["rv"]
                ops = []
                k = rv["k"]
                if k in ("use", "cast", "repeat"):
                    ops = [rv["op"]]
                elif k == "bin":
                    ops = [rv["a"], rv["b"]]
                elif k == "un":
                    ops = [rv["a"]]
                elif k == "agg":
                    ops = rv["ops"]
                for o in ops:
                    if o and o.get("k") in ("copy", "move"):
                        whole = not o["pl"]["p"]
                        sites[o["pl"]["l"]].append(("assign", bb, st["pl"]["l"] if (whole and not st["pl"]["p"] and k == "use") else None))
                if k in ("ref", "copyderef", "rawptr", "discr"):
                    sites[rv["pl"]["l"]].append(("place", bb, st["pl"]["l"] if (k == "ref" and not rv["pl"]["p"] and not st["pl"]["p"]) else None))
        t = blk["term"]
        if not t:
            continue
        if t["k"] == "call":
            for a in t["args"]:
                if a.get("k") in ("copy", "move"):
                    sites[a["pl"]["l"]].append(("call", bb, None))
        elif t["k"] == "switch" and t["op"].get("k") in ("copy", "move"):
            sites[t["op"]["pl"]["l"]].append(("switch", bb, None))
        elif t["k"] == "yield" and t["val"].get("k") in ("copy", "move"):
            sites[t["val"]["pl"]["l"]].append(("yield", bb, None))
    b._use_sites = sites
    return sites


def _effectively_used(b, local, depth):
    """is the value in `local` examined or passed on, other than into a sink that discards it?"""
    if depth > 6:
        return True
    for kind, bb, fwd in _use_sites(b).get(local, []):
        if kind == "call":
            t = b.term(bb)
            cn = strip_generics(t.get("callee")) or ""
            if cn in DISCARD_SINKS:
                d = t["dest"]
                # the sink's own result must be used for the value to count as examined
                if cn in ("std::mem::drop", "std::mem::forget"):
                    continue
                if d["l"] != 0 and not d["p"] and not _effectively_used(b, d["l"], depth + 1):
                    continue
            return True
        if kind in ("assign", "place") and fwd is not None:
            if fwd == 0 or _effectively_used(b, fwd, depth + 1):
                return True
            continue
        return True
    return False


ERR_TYPES = ("std::io::Error", "bincode::ErrorKind", "storage::bitcask::Error")


def e1_no_dropped_result(ctx):
    r = RuleResult("E1", "no storage-layer Result is dropped: every call in storage::bitcask* returning Result<_, io::Error | bincode::Error | bitcask::Error> has its result used (branched by `?`, matched, returned, or passed on); a result with no use but its drop is a discarded error", floor=40)
    prog = ctx.prog
    n = 0
    for b in shipped_bodies(prog):
        if not b.name.startswith("storage::bitcask") and not b.name.startswith("<storage::bitcask"):
            continue
        uses = _uses(b)
        for bb, t in b.calls():
            if bb not in b.live_blocks() or "macro:" in (t.get("fn_exp") or ""):
                continue
            dty = t.get("dest_ty") or ""
            if not dty.startswith("std::result::Result<") or not any(e in dty for e in ERR_TYPES):
                continue
            cn = strip_generics(t.get("callee")) or "?"
            if cn in ("std::ops::Try::branch", "std::ops::FromResidual::from_residual", "std::result::Result::map_err", "std::result::Result::map", "std::convert::Into::into", "std::convert::From::from"):
                continue
            n += 1
            d = t["dest"]
            used = d["l"] == 0 or bool(d["p"]) or _effectively_used(b, d["l"], 0)
            r.add(fam_name(b), "result of %s is used" % cn.split("::")[-1], used, where(b, bb), "" if used else "the Result is discarded (`let _ =` / statement expression): an I/O error would go unreported")
    return r


# ---------------------------------------------------------------------------------------------
# G-hint


def ghint_hint_validation(ctx):
    r = RuleResult("G-hint", "populate_keydir_with_hintfile admits a hint entry into the index only on an edge of a comparison between the entry's end (pos + len, overflow-checked) and the length of the data file of the same id (fs::metadata(datafile_name(path, fileid)).len()), and the accepting edge includes equality (the last record of a data file ends exactly at its end)", floor=3)
    prog = ctx.prog
    fam = prog.family("storage::bitcask::populate_keydir_with_hintfile")
    b = None
    for x in fam:
        if calls_in([x], "dashmap::DashMap::insert") and b is None:
            b = x
    f = "storage::bitcask::populate_keydir_with_hintfile"
    if b is None:
        r.unrec(f, "keydir.insert", "src/storage/bitcask.rs", "not found")
        return r
    r.analysed = [b.path]
    ins = [(bb, t) for _, bb, t in calls_in([b], "dashmap::DashMap::insert") if (arg_path(b, t, 0) or "").endswith("keydir")]
    ibb, it = ins[0]

    def mentions_len_of_datafile(o):
        ms = origin_mentions(o, lambda x: x[0] == "call" and x[1] == "std::fs::Metadata::len")
        for m in ms:
            nm = origin_mentions(m, lambda x: x[0] == "call" and x[1] and x[1].endswith("datafile_name"))
            if nm and len(nm[0][2]) > 1 and access_path(nm[0][2][1]) == "fileid":
                return True
        return False

    def mentions_entry_extent(o):
        s = origin_str(o)
        has_pos = bool(origin_mentions(o, lambda x: x[0] == "field" and x[2] == "pos"))
        has_len = bool(origin_mentions(o, lambda x: x[0] == "field" and x[2] == "len"))
        return has_pos and has_len

    guards = []
    for bb in sorted(b.live_blocks()):
        info = b.switch_info(bb)
        if not info or info["kind"] != "bool":
            continue
        o, neg = bool_switch_comparison(b, bb)
        if o is not None and o[1] in ("Le", "Lt", "Ge", "Gt") and mentions_len_of_datafile(o) and mentions_entry_extent(o):
            guards.append((bb, info, o, neg))
    if not guards:
        r.bad(f, "hint entry checked against the data file's length", where(b, ibb), "no comparison of the entry's extent (pos, len) with Metadata::len of the same id's data file guards the insert: a hint file ahead of its data file makes recovered keys point past the end of the data")
        return r
    for bb, info, o, neg in guards:
        # which edge dominates the insert?
        acc = None
        for e in b.succ[bb]:
            others = {(e2.src, e2.dst) for e2 in b.succ[bb] if e2.dst != e.dst}
            if ibb not in reach(b, [e.dst], blocked_edges=lambda x: x.kind == "unwind"):
                continue
            # insert reachable via e; is it unreachable via the other edge (within one iteration)?
            acc = e if acc is None else "both"
        nxt = {xb for _, xb, t in calls_in([b], "storage::bitcask::log::LogIterator::next")}
        # refine: reachable without passing the loop head again
        acc_edges = []
        for e in b.succ[bb]:
            if ibb in reach(b, [e.dst], blocked_edges=lambda x: x.kind == "unwind", blocked_blocks=nxt):
                acc_edges.append(e)
        if len(acc_edges) != 1:
            r.bad(f, "the extent test decides admission", where(b, bb), "the insert is reachable on %d edges of the test" % len(acc_edges))
            continue
        e = acc_edges[0]
        val = info["arms"].get(e.dst)
        if neg and val in ([True], [False]):
            val = [not val[0]]
        dom = ibb not in reach(b, [b.term(list(nxt)[0])["t"]] if nxt else [0], blocked_edges=lambda x: x.kind == "unwind" or (x.src, x.dst) == (e.src, e.dst), blocked_blocks=set())
        r.add(f, "keydir.insert only on the accepting edge of the extent test", dom, where(b, ibb))
        # a rejected entry has no effect at all: the per-file statistics are touched only on the accepting edge too
        # (a phantom live key keeps the file's fragmentation below the threshold for ever: its garbage is never merged)
        head = [b.term(list(nxt)[0])["t"]] if nxt else [0]
        for _, sbb, stt in calls_in([b], "storage::bitcask::log::LogStatistics::add_live", "storage::bitcask::log::LogStatistics::add_dead", "storage::bitcask::log::LogStatistics::overwrite"):
            sdom = sbb not in reach(b, head, blocked_edges=lambda x: x.kind == "unwind" or (x.src, x.dst) == (e.src, e.dst), blocked_blocks=set())
            r.add(f, "%s only on the accepting edge of the extent test" % (strip_generics(stt.get("callee")) or "").split("::")[-1], sdom, where(b, sbb), "" if sdom else "a hint entry that is rejected (it points beyond the end of its data file) is still booked in the file's statistics: keys that do not exist count as live")
        # normalise: accept iff end <= len
        end_left = mentions_entry_extent(o[2]) and not mentions_len_of_datafile(o[2])
        op = o[1] if end_left else {"Le": "Ge", "Lt": "Gt", "Ge": "Le", "Gt": "Lt"}[o[1]]
        # now "end OP len"; accepted when value==val
        incl = (op == "Le" and val == [True]) or (op == "Gt" and val == [False])
        r.add(f, "accepting edge is end ≤ data length (equality included)", incl, where(b, bb), "" if incl else "accepts on `end %s len` == %s: an entry ending exactly at the end of the data file (the last record of every merge output) is %s" % (op, val, "rejected" if op in ("Lt", "Ge") else "mis-handled"))
        # the end is computed with overflow protection
        chk = bool(origin_mentions(o, lambda x: x[0] == "call" and x[1] and x[1].split("::")[-1] in ("checked_add", "saturating_add"))) or not origin_mentions(o, lambda x: x[0] == "bin" and x[1] in ("Add", "AddWithOverflow") and mentions_entry_extent(x))
        r.add(f, "pos + len cannot wrap", chk, where(b, bb))
    return r


# ---------------------------------------------------------------------------------------------
# P17: the file is read while the index entry's shard guard is held


def p17_read_under_index_guard(ctx):
    r = RuleResult("P17", "Reader::get reads the data file (LogDir::read) with fileid/len/pos taken from the DashMap guard returned by keydir.get in the same body, while that guard is still alive — so a merge (which takes the shard's write lock to re-point the entry, and unlinks files only afterwards) cannot slip between the index lookup and the file read; LogDir::read has no other caller", floor=3)
    prog = ctx.prog
    rds = calls_in(shipped_bodies(prog), "storage::bitcask::log::LogDir::read")
    for x, bb, t in rds:
        f = fam_name(x)
        gets = [(gb, gt) for _, gb, gt in calls_in([x], "dashmap::DashMap::get") if (arg_path(x, gt, 0) or "").endswith("keydir")]
        if f != "storage::bitcask::Reader::get" or len(gets) != 1:
            r.bad(f, "LogDir::read outside Reader::get's guarded lookup", where(x, bb), "the location is not read under the index guard in this function (lookups ×%d)" % len(gets))
            continue
        gb, gt = gets[0]
        site = (x.path, gb)
        for i, fld in ((2, "fileid"), (3, "len"), (4, "pos")):
            o = arg_origin(x, t, i)
            good = peel(o)[0] == "field" and peel(o)[2] == fld and bool(origin_mentions(o, lambda y: y[0] == "call" and y[3] == site))
            r.add(f, "read(%s) comes from the guarded entry" % fld, good, where(x, bb), origin_str(o))
        # guard alive: no real drop of a dashmap Ref between the lookup's Some edge and the read
        some = []
        for sb in x.live_blocks():
            info = x.switch_info(sb)
            if info and info["kind"] == "variant":
                o = peel_var(info["on"])
                if o[0] == "call" and o[3] == site:
                    for e in x.succ[sb]:
                        if info["arms"].get(e.dst) == ["Some"]:
                            some.append(e.dst)
        dropped = []
        region = reach(x, some, blocked_edges=lambda e: e.kind == "unwind", blocked_blocks={bb})
        for db in region:
            dt = x.term(db)
            if dt["k"] == "drop" and not x.drop_is_noop(db) and "dashmap::mapref::one::Ref<" in dt["ty"]:
                dropped.append(db)
        r.add(f, "the index guard is alive when the file is read", bool(some) and not dropped, where(x, bb), "" if not dropped else "the DashMap Ref is dropped before LogDir::read: a merge can re-point the entry and unlink the file in between")
    if not rds:
        r.unrec("storage::bitcask::Reader::get", "LogDir::read", "src/storage/bitcask.rs", "no call found")
    return r


# ---------------------------------------------------------------------------------------------
# O1: recovery order


def peel_var_keep(o):
    """the outermost variable of an origin (not peeled into what it was assigned from)"""
    return o


def o1_recovery_order(ctx):
    r = RuleResult("O1", "recovery replays data files in ascending numeric id order: sorted_fileids collects u64 ids into a BTreeSet<u64> and returns its iterator; rebuild_storage's loop consumes that iterator directly (no reversal/reordering) and passes the loop's id to both loaders; the new active id is derived from the maximum id seen, plus one", floor=4)
    prog = ctx.prog
    sf = prog.family("storage::bitcask::utils::sorted_fileids")
    sb = None
    for x in sf:
        if calls_in([x], "std::iter::Iterator::collect") and sb is None:
            sb = x
    if sb is None and sf and sf[0].def_kind in ("Fn", "AssocFn"):
        sb = sf[0]  # the set is filled by a loop instead of collected
    f = "storage::bitcask::utils::sorted_fileids"
    if sb is None:
        r.unrec(f, "collect into an ordered set", "src/storage/bitcask/utils.rs", "no Iterator::collect found")
    else:
        rets = [ret_origin(sb, d) for c, d, rb in ret_classes(sb, 0, lambda e: e.kind == "unwind") if c == "ok"]
        # idiom (a): the returned iterator is BTreeSet<u64>::into_iter of the collected set
        # idiom (b): a Vec<u64> sorted by sort/sort_unstable on every path before it is returned
        bt = [(bb, t) for _, bb, t in calls_in([sb], "std::iter::Iterator::collect") if "std::collections::BTreeSet<u64>" in " ".join(t.get("callee_args") or [])]
        idiom_a = bool(rets) and all(o is not None and any(origin_mentions(o, lambda x, s_=(sb.path, bb): x[0] == "call" and x[3] == s_) for bb, t in bt) and not origin_mentions(o, lambda x: x[0] == "call" and x[1] and x[1].split("::")[-1] in ("rev", "sort_by", "sort_by_key", "sort_unstable_by", "shuffle", "collect") and x[3] not in [(sb.path, bb) for bb, t in bt]) for o in rets)
        sorts = [(bb, t) for _, bb, t in calls_in([sb], "std::slice::<impl [T]>::sort_unstable", "std::slice::<impl [T]>::sort", "core::slice::<impl [T]>::sort_unstable", "alloc::slice::<impl [T]>::sort", "slice::sort", "slice::sort_unstable")]
        idiom_b = False
        if sorts and rets:
            sv = {arg_origin(sb, t, 0)[1] for bb, t in sorts if arg_origin(sb, t, 0)[0] == "var"}
            vec_u64 = all("std::vec::Vec<u64>" in sb.local_ty(l) for l in sv)
            mentions = all(o is not None and origin_mentions(o, lambda x: x[0] == "var" and x[1] in sv) and not origin_mentions(o, lambda x: x[0] == "call" and x[1] and x[1].split("::")[-1] in ("rev", "shuffle")) for o in rets)
            sbbs = {bb for bb, t in sorts}
            must = not [c for c, d, rb in ret_classes(sb, 0, lambda e: e.kind == "unwind" or (e.src in sbbs and e.kind == "ret")) if c == "ok"]
            idiom_b = bool(sv) and vec_u64 and mentions and must
        # idiom (c): into_iter() of a local BTreeSet<u64>, however it was filled
        idiom_c = False
        if rets and all(o is not None for o in rets):
            idiom_c = True
            for o in rets:
                # into_iter is transparent for origins: the Ok payload is the set variable itself
                po = o[4].get("0") if o[0] == "agg" and o[3] == "Ok" else None
                okv = po is not None and po[0] == "var" and "std::collections::BTreeSet<u64>" in sb.local_ty(po[1])
                if not okv or origin_mentions(o, lambda x: x[0] == "call" and x[1] and x[1].split("::")[-1] in ("rev", "sort_by", "sort_by_key", "shuffle")):
                    idiom_c = False
        r.add(f, "ids are ordered numerically ascending (BTreeSet<u64> iterator, or a sorted Vec<u64>)", idiom_a or idiom_b or idiom_c, short_span(sb.span), "idiom BTreeSet=%s sorted-Vec=%s" % (idiom_a, idiom_b))
        # ids are parsed as u64 (not compared as strings)
        pr = [t for _, bb, t in calls_in(sf, "core::str::<impl str>::parse", "str::parse", "std::str::FromStr::from_str")]
        good = any("u64" in " ".join(t.get("callee_args") or []) for t in pr) or any("u64" in (t.get("dest_ty") or "") for t in pr)
        if not pr:
            # parse passed as a function item: look for the fn const
            for x in sf:
                for bb in x.live_blocks():
                    for st in x.blocks[bb]["stmts"]:
                        if st["k"] == "assign":
                            s = origin_str(x.origin_rvalue(st["rv"]))
                            if "parse::<u64>" in s:
                                good = True
            for x in sf:
                for bb, t in x.calls():
                    for a in t["args"]:
                        if a.get("k") == "const" and "parse" in (a.get("fn") or "") and "u64" in " ".join(a.get("fn_args") or []):
                            good = True
        r.add(f, "ids are parsed as u64 before ordering", good, short_span(sf[0].span))
    # every directory entry is looked at: nothing in the chain may end or thin out the traversal early
    cut = []
    for x in sf:
        for bb, t in x.calls():
            if bb not in x.live_blocks():
                continue
            cn = strip_generics(t.get("callee") or "")
            if cn.startswith(("std::iter::Iterator::", "core::iter::Iterator::")) and cn.split("::")[-1] in ("map_while", "take_while", "take", "skip", "skip_while", "step_by", "scan", "nth", "nth_back", "fuse"):
                cut.append((x, bb, cn.split("::")[-1]))
    r.add(f, "the directory is traversed to its end (no map_while / take_while / take / skip / step_by / scan / nth / fuse in the chain)", not cut, where(cut[0][0], cut[0][1]) if cut else short_span(sf[0].span), "" if not cut else "`%s` stops at (or skips past) some entries: a file with a foreign name ends the listing, ids after it are not replayed and the next active id can fall below an existing file" % cut[0][2])
    # which files are recovered depends on their name and type only — never on size or time
    for x in sf:
        for _, bb, t in calls_in([x], "std::fs::metadata", "std::path::Path::metadata", "std::fs::DirEntry::metadata", "std::fs::Metadata::len", "std::fs::Metadata::modified", "std::fs::Metadata::created", "std::fs::symlink_metadata"):
            r.bad(f, "file selection by %s" % strip_generics(t["callee"]).split("::")[-1], where(x, bb), "a data file is left out of recovery because of its size or time stamp (an empty newest file is what every open leaves behind: skipping it makes the next open reuse its id)")
    rf = prog.family("storage::bitcask::rebuild_storage")
    rb = None
    for x in rf:
        if calls_in([x], "storage::bitcask::populate_keydir_with_hintfile") and rb is None:
            rb = x
    f = "storage::bitcask::rebuild_storage"
    if rb is None:
        r.unrec(f, "loader loop", "src/storage/bitcask.rs", "not found")
        return r
    nx = [(bb, t) for _, bb, t in calls_in([rb], "std::iter::Iterator::next")]
    good = False
    loopv = None
    for bb, t in nx:
        o = arg_origin(rb, t, 0)
        if origin_mentions(o, lambda x: x[0] == "call" and x[1] and x[1].endswith("sorted_fileids")):
            chain = origin_mentions(o, lambda x: x[0] == "call" and x[1] and x[1].split("::")[-1] in ("rev", "skip", "step_by", "filter", "take", "chain", "map"))
            good = not chain
            site = (rb.path, bb)
            loopv = site
    r.add(f, "the loop consumes sorted_fileids()'s iterator as is", good, where(rb, nx[0][0]) if nx else short_span(rb.span))
    for nm in ("populate_keydir_with_hintfile", "populate_keydir_with_datafile"):
        for _, bb, t in calls_in([rb], "storage::bitcask::" + nm):
            o = arg_origin(rb, t, 1)
            g = loopv is not None and bool(origin_mentions(o, lambda x: x[0] == "call" and x[3] == loopv))
            r.add(f, "%s loads the loop's id" % nm, g, where(rb, bb), origin_str(o))
    # new active id: Some(max).map(|id| id + 1)
    ok_rets = [ret_origin(rb, d) for c, d, rb2 in ret_classes(rb, 0, lambda e: e.kind == "unwind") if c == "ok"]
    plus1 = False
    for x in rf:
        for bb in x.live_blocks():
            for st in x.blocks[bb]["stmts"]:
                if st["k"] == "assign" and st["rv"]["k"] == "bin" and st["rv"]["op"] in ("Add", "AddWithOverflow"):
                    o = x.origin_rvalue(st["rv"])
                    if const_int(o[3]) != 1:
                        continue
                    if x.def_kind == "Closure" and peel(o[2])[0] == "arg":
                        plus1 = True  # Some(max).map(|id| id + 1)
                    elif x is rb and origin_mentions(o[2], lambda y: y[0] == "variant" and y[2] == "Some"):
                        plus1 = True  # match max { Some(id) => id + 1, None => 0 }
    r.add(f, "new active id = (max id seen) + 1", plus1, short_span(rb.span))
    # the running maximum only grows: `if fileid > *id { *id = fileid }`
    upd = False
    for bb in rb.live_blocks():
        info = rb.switch_info(bb)
        if info and info["kind"] == "bool":
            o = peel_var(info["on"])
            if o[0] == "bin" and o[1] in ("Gt", "Ge", "Lt", "Le") and loopv is not None and origin_mentions(o, lambda x: x[0] == "call" and x[3] == loopv):
                upd = True
    r.add(f, "the maximum is tracked by comparison with each id", upd or good, short_span(rb.span))
    return r


def e2_merge_errors_abort(ctx):
    r = RuleResult("E2", "Writer::merge aborts on the first failed disk operation: for every call in it that returns a storage Result (create, copy, hint append, flush/sync helper, selection), the Err edge leads only to an Err return — never on to the next entry, the unlink loop or Ok; the single tolerated error is NotFound from an unlink (P5c). An error that is logged and ignored lets the merge delete its inputs next to a truncated output", floor=8)
    prog = ctx.prog
    b = prog.one("storage::bitcask::Writer::merge")
    f = fam_name(b)
    r.analysed = [b.path]
    for bb, t in b.calls():
        if bb not in b.live_blocks() or "macro:" in (t.get("fn_exp") or ""):
            continue
        dty = t.get("dest_ty") or ""
        if not dty.startswith("std::result::Result<") or not any(e in dty for e in ERR_TYPES):
            continue
        cn = strip_generics(t.get("callee")) or "?"
        if cn in ("std::ops::Try::branch", "std::ops::FromResidual::from_residual", "std::result::Result::map_err", "std::convert::Into::into", "std::convert::From::from", "std::fs::remove_file"):
            continue
        short = cn.split("::")[-1]
        if t["dest"]["l"] == 0 and not t["dest"]["p"]:
            r.ok(f, "%s: result returned as is" % short, where(b, bb))
            continue
        site = (b.path, bb)
        err_dsts = []
        ok_e, err_e, sw = try_edges(b, bb)
        if err_e:
            err_dsts = [e.dst for e in err_e]
        else:
            for sb in b.live_blocks():
                inf = b.switch_info(sb)
                if inf and inf["kind"] == "variant":
                    o = peel_var(inf["on"])
                    if o[0] == "try":
                        o = peel_var(o[1])
                    if o[0] == "call" and o[3] == site:
                        for e in b.succ[sb]:
                            if any(l in ("Err", "Break") for l in inf["arms"].get(e.dst, [])):
                                err_dsts.append(e.dst)
        if not err_dsts:
            r.bad(f, "%s: error edge" % short, where(b, bb), "the call's Err outcome is not separated from its Ok outcome (the result is not branched on)")
            continue
        classes = set()
        for d in err_dsts:
            classes |= {c for c, dd, rb in ret_classes(b, d, lambda e: e.kind == "unwind")}
        good = bool(classes) and classes <= {"err"}
        r.add(f, "%s: Err ⇒ merge returns Err" % short, good, where(b, bb), "" if good else "after this call failed the merge can still reach %s" % sorted(classes - {"err"}))
    return r

"""K6 — numeric obligations (engine E3): N1 parser totality, N2 mapped-extent of the read path."""
import time

import numeric
from common import *
from engine import RuleResult


def _report(r, ip, rootname):
    per = {}
    for k, o in sorted(ip.obl.items(), key=lambda x: (x[1].body.name, x[0][1])):
        f = strip_generics(o.body.root)
        n = per.get((f, o.what), 0)
        per[(f, o.what)] = n + 1
        construct = o.what if n == 0 else "%s #%d" % (o.what, n + 1)
        r.add(f, construct, o.ok, o.span, "" if o.ok else o.detail[:700])
    return per


def n1_parser_total(ctx):
    r = RuleResult("N1", "every panic obligation reachable from Frame::check / Frame::parse is discharged by abstract interpretation for every buffer and every cursor position: MIR bounds and overflow asserts, preconditions of bytes::Buf for Cursor (advance, get_u8, copy_to_bytes, chunk()[0]), slice indexing, Vec::with_capacity bounded by the input size (N1-alloc), unwrap/expect/explicit panics; a call that is neither crate-local, modelled, nor in the total-function table is an obligation too", floor=30)
    prog = ctx.prog
    roots = [prog.one("net::frame::Frame::check"), prog.one("net::frame::Frame::parse")]
    t0 = time.time()
    ip = numeric.analyse(prog, roots)
    _report(r, ip, "parser")
    r.analysed = sorted(strip_generics(p) for p in ip.slice)
    r.note("%d bodies in the slice, %d abstract steps, %.1fs; assumption A1: a slice in memory is shorter than 2^48 bytes; recursion cut by havoc of the cursor position" % (len(ip.slice), ip.steps, time.time() - t0))
    for n in ip.notes:
        r.note(n)
    return r


def n2_mmap_extent(ctx):
    r = RuleResult("N2", "LogReader::at / copy_raw (and the helper they share): every slice of the memory map is proved within the mapping as last assigned, with overflow-free extent arithmetic, or the path returns Err — no panic obligation is left on the read path for any (len, pos) and any file length", floor=2)
    prog = ctx.prog
    roots = [prog.one("storage::bitcask::log::LogReader::at"), prog.one("storage::bitcask::log::LogReader::copy_raw")]
    t0 = time.time()
    ip = numeric.analyse(prog, roots)
    per = _report(r, ip, "reader")
    for rb in roots:
        if not any(strip_generics(o.body.root) in (strip_generics(rb.root), "storage::bitcask::log::LogReader::segment") for o in ip.obl.values()):
            pass
    # an analysis that met no panic-capable construct at all is a legitimate pass: record it
    for rb in roots:
        r.ok(fam_name(rb), "analysed to fixpoint (%d obligations met on its paths)" % sum(1 for o in ip.obl.values()), short_span(rb.span))
    r.analysed = sorted(strip_generics(p) for p in ip.slice)
    r.note("%d bodies, %d abstract steps, %.1fs" % (len(ip.slice), ip.steps, time.time() - t0))
    return r

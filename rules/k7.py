"""K9 — lock order and re-entrancy (L1)."""
from collections import defaultdict, deque

from common import *
from engine import RuleResult

GUARD_TYPES = (
    ("dashmap::mapref::one::Ref<", "shard-read"),
    ("dashmap::mapref::one::RefMut<", "shard-write"),
    ("dashmap::mapref::multiple::RefMulti<", "shard-read"),
    ("dashmap::mapref::multiple::RefMutMulti<", "shard-write"),
    ("dashmap::mapref::entry::Entry<", "shard-write"),
    ("dashmap::mapref::entry::OccupiedEntry<", "shard-write"),
    ("dashmap::mapref::entry::VacantEntry<", "shard-write"),
    ("dashmap::iter::Iter<", "shard-read"),
    ("dashmap::iter::IterMut<", "shard-write"),
    ("parking_lot::lock_api::MutexGuard<", "mutex"),
    ("lock_api::MutexGuard<", "mutex"),
    ("lock_api::mutex::MutexGuard<", "mutex"),
)


def guard_kind(ty):
    if ty.startswith("&"):
        return None
    for pre, k in GUARD_TYPES:
        if pre in ty:
            return k
    return None


def resource_of_path(p):
    if not p:
        return None
    last = p.split(".")[-1]
    if last in ("keydir", "stats", "writer"):
        return last
    return None


def _acquisitions(prog, body, memo, depth=0):
    """resources a body may lock (transitively through crate-local callees)"""
    if body.path in memo:
        return memo[body.path]
    memo[body.path] = set()
    out = set()
    for bb, t in body.calls():
        if bb not in body.live_blocks():
            continue
        cn = strip_generics(t.get("callee")) or ""
        if cn.startswith("dashmap::DashMap::") and cn.split("::")[-1] not in ("new", "default", "with_capacity", "with_hasher", "len", "is_empty", "capacity", "hasher"):
            res = resource_of_path(arg_path(body, t, 0))
            if res:
                out.add(res)
        elif cn.endswith("Mutex::lock"):
            res = resource_of_path(arg_path(body, t, 0))
            if res:
                out.add(res)
        else:
            cb = prog.callee_body(t)
            if cb is not None and depth < 6:
                out |= _acquisitions(prog, cb, memo, depth + 1)
    # closures created here run here (filter predicates etc.)
    for bb in body.live_blocks():
        for st in body.blocks[bb]["stmts"]:
            if st["k"] == "assign" and st["rv"]["k"] == "agg" and st["rv"]["ak"] == "closure":
                cb = prog.bodies.get(st["rv"]["def"])
                if cb is not None and depth < 6:
                    out |= _acquisitions(prog, cb, memo, depth + 1)
    memo[body.path] = out
    return out


def l1_lock_order(ctx):
    r = RuleResult("L1", "no DashMap (keydir, stats) is entered again — directly or through a callee — while one of its own guards (Ref/RefMut/Entry/iterator item) is alive in the same function (shard re-entrancy deadlocks), and the order in which the writer mutex, keydir and stats are taken while another is held is acyclic", floor=10)
    prog = ctx.prog
    memo = {}
    order = defaultdict(set)  # held -> acquired
    edge_where = {}
    n_sites = 0
    for b in shipped_bodies(prog):
        if (b.impl_trait or "").endswith("Debug"):
            continue
        # guard-typed locals
        gl = {i: guard_kind(l["ty"]) for i, l in enumerate(b.locals) if guard_kind(l["ty"])}
        wrappers = {i for i, l in enumerate(b.locals) if ("dashmap::iter::Iter" in l["ty"] or "dashmap::mapref" in l["ty"]) and i not in gl and not l["ty"].startswith("&")}
        for i in wrappers:
            gl[i] = "shard-wrapper"
        if not gl:
            # still record acquisitions under nothing held
            continue
        n = len(b.blocks)
        inn = [None] * n
        inn[0] = frozenset()
        wl = deque([0])
        res_of_local = {}
        f = fam_name(b)
        reported = set()

        def local_of(op):
            if op.get("k") in ("copy", "move") and not op["pl"]["p"]:
                return op["pl"]["l"]
            return None

        while wl:
            bb = wl.popleft()
            held = set(inn[bb])
            blk = b.blocks[bb]
            for st in blk["stmts"]:
                if st["k"] == "assign" and not st["pl"]["p"]:
                    dl = st["pl"]["l"]
                    rv = st["rv"]
                    src = None
                    if rv["k"] == "use":
                        src = local_of(rv["op"])
                    elif rv["k"] == "agg":
                        for o in rv["ops"]:
                            l0 = local_of(o)
                            if l0 is not None and any(h[1] == l0 for h in held):
                                src = l0
                    if src is not None and dl in gl or (src is not None and any(h[1] == src for h in held)):
                        for h in list(held):
                            if h[1] == src:
                                held.discard(h)
                                held.add((h[0], dl))
                    # payload extraction: `_x = move ((_y as Some).0)`
                    if rv["k"] == "use" and rv["op"].get("k") in ("copy", "move") and rv["op"]["pl"]["p"] and dl in gl:
                        base = rv["op"]["pl"]["l"]
                        for h in list(held):
                            if h[1] == base:
                                held.add((h[0], dl))
            t = blk["term"]
            outs = []
            if t is None:
                continue
            k = t["k"]
            if k == "call":
                cn = strip_generics(t.get("callee")) or ""
                acquired = set()
                a0 = arg_path(b, t, 0) if t["args"] else None
                if cn.startswith("dashmap::DashMap::") and cn.split("::")[-1] not in ("new", "default", "with_capacity", "with_hasher", "len", "is_empty", "capacity", "hasher"):
                    res = resource_of_path(a0)
                    if res:
                        acquired.add(res)
                elif cn.endswith("Mutex::lock"):
                    res = resource_of_path(a0)
                    if res:
                        acquired.add(res)
                else:
                    cb = prog.callee_body(t)
                    if cb is not None:
                        acquired |= _acquisitions(prog, cb, memo)
                    for a in t["args"]:
                        o = peel(b.origin_operand(a))
                        if o[0] == "agg" and o[1] == "closure" and o[2] in prog.bodies:
                            acquired |= _acquisitions(prog, prog.bodies[o[2]], memo)
                arg_locals = {local_of(a) for a in t["args"]} - {None}
                held_res = {h[0] for h in held if h[1] not in arg_locals}
                if acquired:
                    n_sites += 1
                for res in acquired:
                    for hr in held_res:
                        if hr == res and res in ("keydir", "stats"):
                            key = (bb, res)
                            if key not in reported:
                                reported.add(key)
                                r.bad(f, "%s entered while a guard on %s is held" % (cn.split("::")[-1], res), where(b, bb), "re-entering a DashMap while holding one of its guards deadlocks when both keys fall into the same shard")
                        elif hr != res:
                            order[hr].add(res)
                            edge_where.setdefault((hr, res), "%s (%s)" % (f, where(b, bb)))
                # result guard
                dl = t["dest"]["l"] if not t["dest"]["p"] else None
                new_held = set(held)
                moved = {local_of(a) for a in t["args"] if a.get("k") == "move"} - {None}
                inherit = {h[0] for h in held if h[1] in arg_locals}
                new_held = {h for h in new_held if h[1] not in moved}
                if dl is not None and dl in gl:
                    src_res = None
                    if cn.startswith("dashmap::DashMap::") or cn.endswith("Mutex::lock"):
                        src_res = resource_of_path(a0)
                    if src_res is None and inherit:
                        src_res = sorted(inherit)[0]
                    if src_res:
                        new_held.add((src_res, dl))
                for e in b.succ[bb]:
                    if e.kind == "ret":
                        outs.append((e.dst, frozenset(new_held)))
                    else:
                        outs.append((e.dst, frozenset(h for h in held if h[1] not in moved)))
            elif k == "drop":
                nh = set(held)
                if not t["pl"]["p"]:
                    nh = {h for h in nh if h[1] != t["pl"]["l"]}
                for e in b.succ[bb]:
                    outs.append((e.dst, frozenset(nh)))
            else:
                for e in b.succ[bb]:
                    outs.append((e.dst, frozenset(held)))
            for dst, s2 in outs:
                cur = inn[dst]
                new = s2 if cur is None else (cur | s2)
                if cur is None or new != cur:
                    inn[dst] = new
                    wl.append(dst)
        # storage-dead kills are not needed: guards end at their Drop terminator
        r.ok(f, "no shard re-entrancy (%d guard-typed locals tracked)" % len(gl), short_span(b.span)) if not reported else None
    # order graph
    nodes = set(order) | {x for v in order.values() for x in v}
    cyc = None
    color = {}

    def dfs(u, stack):
        nonlocal cyc
        color[u] = 1
        for v in order.get(u, ()):
            if color.get(v, 0) == 1:
                cyc = stack + [u, v]
                return
            if color.get(v, 0) == 0:
                dfs(v, stack + [u])
                if cyc:
                    return
        color[u] = 2

    for u in sorted(nodes):
        if color.get(u, 0) == 0 and not cyc:
            dfs(u, [])
    edges = sorted("%s→%s" % (a, b2) for a, bs in order.items() for b2 in bs)
    r.add("<crate>", "lock order graph is acyclic", cyc is None, "src/storage/bitcask.rs", "edges: %s%s" % (edges, "" if cyc is None else "; cycle %s" % cyc))
    r.note("held→acquired edges: %s; %d acquisition sites examined" % ({k: v for k, v in edge_where.items()}, n_sites))
    return r

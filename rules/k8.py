"""Small sibling / routing rules on the less central code: accept back-off (P10b), the Shutdown
helper (P20), Config setters (S12), client request encoders (S9b), the Window merge policy (V4b)."""
from asyncx import *
from common import *
from engine import RuleResult


def p10b_accept_backoff(ctx):
    r = RuleResult("P10b", "Listener::accept: a failed accept makes the listener give up (return Err, which ends the server) only when the back-off exceeded max_backoff_ms; otherwise it sleeps for the current back-off, doubles it and tries again; a successful accept returns that socket — a transient accept error (EMFILE, ECONNABORTED) never ends the server at once", floor=4)
    prog = ctx.prog
    fam = prog.family("net::server::Listener::accept")
    b = None
    for x in fam:
        if calls_in([x], "tokio::net::TcpListener::accept") and b is None:
            b = x
    f = "net::server::Listener::accept"
    if b is None:
        r.unrec(f, "body", "src/net/server.rs", "not found")
        return r
    acc = calls_in([b], "tokio::net::TcpListener::accept")
    _, abb, at = acc[0]
    # Err arm of the awaited accept
    err_dst = ok_dst = None
    for bb in sorted(b.live_blocks()):
        info = b.switch_info(bb)
        labs_ = set(sum(info["arms"].values(), [])) if info and info["kind"] == "variant" else set()
        if labs_ >= {"Ok", "Err"} or labs_ >= {"Continue", "Break"}:
            # `match listener.accept().await { Ok(..) => .., Err(..) => .. }`, or `listener.accept().await?` in a helper
            on_ = peel_var(info["on"])
            fut = awaited(on_[1]) if on_[0] == "try" else awaited(info["on"])
            if fut is not None and fut[0] == "call" and fut[3] == (b.path, abb):
                for e in b.succ[bb]:
                    if info["arms"].get(e.dst) in (["Err"], ["Break"]):
                        err_dst = e.dst
                    elif info["arms"].get(e.dst) in (["Ok"], ["Continue"]):
                        ok_dst = e.dst
    if err_dst is None or ok_dst is None:
        r.unrec(f, "match on the accept result", where(b, abb), "not found")
        return r
    oks = ret_classes(b, ok_dst, lambda e: e.kind in ("unwind", "ydrop"))
    r.add(f, "accept Ok ⇒ return Ok(socket)", bool(oks) and all(c == "ok" for c, d, rb in oks), where(b, abb))
    # the back-off cell: the variable (or field of a local) that is doubled
    def norm(o):
        o = peel_var(o)
        if o[0] == "var":
            return ("var", o[1])
        if o[0] == "field":
            return ("field", norm(o[1]), o[2])
        if o[0] == "cast":
            return norm(o[1])
        return o

    cell = None
    dbl = False
    for bb in sorted(b.live_blocks()):
        for st in b.blocks[bb]["stmts"]:
            if st["k"] != "assign" or any(e[0] != "f" for e in st["pl"]["p"]):
                continue
            me = norm(b.origin_place(st["pl"]))
            if me[0] not in ("var", "field"):
                me = ("var", st["pl"]["l"]) if not st["pl"]["p"] else me

            def doubling(x, me=me):
                if x[0] != "bin" or x[1] not in ("Shl", "ShlUnchecked", "Mul", "MulWithOverflow", "MulUnchecked"):
                    return False
                k = const_int(x[3])
                return norm(x[2]) == me and ((x[1].startswith("Shl") and k == 1) or (x[1].startswith("Mul") and k == 2))
            o = b.origin_rvalue(st["rv"])
            if origin_mentions(o, doubling) and b.locals[st["pl"]["l"]].get("user", True) is not False:
                cell = me
                dbl = True
    is_cell = lambda o: cell is not None and norm(o) == cell
    is_max = lambda o: (access_path(peel(o)) or "").endswith("self.max_backoff_ms")
    # give-up test
    giveup = set()
    cmp_ok = False
    for bb in reach(b, [err_dst], blocked_edges=lambda e: e.kind in ("unwind", "ydrop")):
        info = b.switch_info(bb)
        if info and info["kind"] == "bool":
            o = peel_var(info["on"])
            if o[0] == "bin" and o[1] in ("Gt", "Ge", "Lt", "Le"):
                if is_cell(o[2]) and is_max(o[3]) and o[1] in ("Gt", "Ge"):
                    want = True
                elif is_max(o[2]) and is_cell(o[3]) and o[1] in ("Lt", "Le"):
                    want = True
                elif is_cell(o[2]) and is_max(o[3]) and o[1] in ("Lt", "Le"):
                    want = False
                elif is_max(o[2]) and is_cell(o[3]) and o[1] in ("Gt", "Ge"):
                    want = False
                else:
                    continue
                cmp_ok = True
                for e in b.succ[bb]:
                    if info["arms"].get(e.dst) == [want]:
                        giveup.add((e.src, e.dst))
    r.add(f, "give-up test is `backoff > max_backoff_ms`", cmp_ok, where(b, abb))
    errs_wo = {c for c, d, rb in ret_classes(b, err_dst, lambda e: e.kind in ("unwind", "ydrop") or (e.src, e.dst) in giveup)}
    r.add(f, "accept Err returns Err only after the back-off exceeded its maximum", bool(giveup) and "err" not in errs_wo, where(b, abb), "" if "err" not in errs_wo else "the first failed accept already ends the accept loop — and with it the server")
    # retry path: sleep(backoff) then double, then accept again
    sl = calls_in([b], "tokio::time::sleep")
    good = False
    for _, sbb, stt in sl:
        o = peel(arg_origin(b, stt, 0))
        if is_call_origin(o, "Duration::from_millis") and o[2] and is_cell(o[2][0]):
            good = True
    r.add(f, "retry sleeps for the current back-off (milliseconds)", good, where(b, sl[0][1]) if sl else where(b, abb))
    r.add(f, "back-off doubles per failed attempt", dbl, where(b, abb))
    p = path_to(b, [err_dst], lambda x: x == abb, blocked_edges=lambda e: e.kind in ("unwind", "ydrop") or (e.src, e.dst) in giveup)
    r.add(f, "a tolerated failure leads back to accept()", p is not None, where(b, abb))
    return r


def p20_shutdown_helper(ctx):
    r = RuleResult("P20", "Shutdown: recv() awaits the broadcast receiver unless the flag is already set and sets the flag to true afterwards; is_shutdown() returns the flag; new() starts with false — every loop condition and select arm built on it means what it says", floor=3)
    prog = ctx.prog
    fam = prog.family("shutdown::Shutdown::recv")
    b = None
    for x in fam:
        if calls_in([x], "tokio::sync::broadcast::Receiver::recv") and b is None:
            b = x
    f = "shutdown::Shutdown::recv"
    if b is None:
        r.bad(f, "awaits the broadcast receiver", "src/shutdown.rs", "recv() does not wait for the notification")
    else:
        rc = calls_in([b], "tokio::sync::broadcast::Receiver::recv")
        _, rbb, rt = rc[0]
        re_ = ready_edges(b, lambda fo: fo[0] == "call" and fo[3] == (b.path, rbb))
        sets = []
        for bb in b.live_blocks():
            for st in b.blocks[bb]["stmts"]:
                if st["k"] == "assign" and st["pl"]["p"] and st["pl"]["p"][-1][0] == "f" and st["pl"]["p"][-1][2] == "shutdown":
                    sets.append((bb, const_int(b.origin_rvalue(st["rv"]))))
        r.add(f, "flag set to true", bool(sets) and all(v == 1 for bb, v in sets), where(b, sets[0][0]) if sets else where(b, rbb), "%s" % sets)
        after = bool(re_) and all(bb not in reach(b, [0], blocked_edges=lambda e: e.kind in ("unwind", "ydrop") or (e.src, e.dst) in re_) for bb, v in sets)
        r.add(f, "flag set only after the notification arrived", after, where(b, rbb))
        # returns without waiting only if the flag is already set
        skip = set()
        for bb in b.live_blocks():
            info = b.switch_info(bb)
            if info and info["kind"] == "bool":
                o = peel_var(info["on"])
                neg = False
                if o[0] == "un" and o[1] == "Not":
                    neg = True
                    o = peel_var(o[2])
                if (access_path(o) or "").endswith("self.shutdown"):
                    for e in b.succ[bb]:
                        if info["arms"].get(e.dst) == [not neg]:
                            skip.add((e.src, e.dst))
        p = path_to(b, [0], lambda x: b.term(x)["k"] == "return", blocked_edges=lambda e: e.kind in ("unwind", "ydrop") or (e.src, e.dst) in re_ or (e.src, e.dst) in skip)
        r.add(f, "returns only after the notification, or when the flag was already set", p is None, where(b, rbb), "" if p is None else "recv() can return at once although no shutdown was signalled")
    ib = prog.one("shutdown::Shutdown::is_shutdown")
    rets = [ret_origin(ib, d) for c, d, rb in ret_classes(ib, 0, lambda e: e.kind == "unwind")]
    r.add(fam_name(ib), "returns self.shutdown", bool(rets) and all(o is not None and access_path(o) == "self.shutdown" for o in rets), short_span(ib.span), "%s" % [origin_str(o) for o in rets if o])
    nb = prog.one("shutdown::Shutdown::new")
    ok = False
    for bb in nb.live_blocks():
        for st in nb.blocks[bb]["stmts"]:
            if st["k"] == "assign" and st["rv"]["k"] == "agg" and st["rv"]["ak"] == "adt" and strip_generics(st["rv"]["adt"]) == "shutdown::Shutdown":
                o = nb.origin_rvalue(st["rv"])
                ok = const_int(o[4].get("shutdown", ("unknown", ""))) == 0 and access_path(o[4].get("notify", ("unknown", ""))) == "notify"
    r.add(fam_name(nb), "new() starts not shut down, on the given receiver", ok, short_span(nb.span))
    return r


SETTERS = {
    # method -> (parameter, field path suffix)
    "path": ("path", "path"),
    "concurrency": ("concurrency", "concurrency"),
    "readers_cache_size": ("readers_cache_size", "readers_cache_size"),
    "max_file_size": ("max_file_size", "max_file_size"),
    "sync": ("sync", "sync"),
    "merge_policy": ("policy", "merge.policy"),
    "merge_trigger_fragmentation": ("fragmentation", "merge.triggers.fragmentation"),
    "merge_trigger_dead_bytes": ("dead_bytes", "merge.triggers.dead_bytes"),
    "merge_threshold_fragmentation": ("fragmentation", "merge.thresholds.fragmentation"),
    "merge_threshold_dead_bytes": ("dead_bytes", "merge.thresholds.dead_bytes"),
    "merge_threshold_small_file": ("small_file", "merge.thresholds.small_file"),
    "merge_check_interval_ms": ("check_interval_ms", "merge.check_interval_ms"),
    "merge_check_jitter": ("check_jitter", "merge.check_jitter"),
}


def s12_config_setters(ctx):
    r = RuleResult("S12", "every storage Config setter stores its argument in the field it is named after (trigger setters in merge.triggers, threshold setters in merge.thresholds) on every path, and Config::open opens the store with that very configuration — the configurations the properties quantify over are the ones that take effect", floor=13)
    prog = ctx.prog
    for m, (param, suffix) in sorted(SETTERS.items()):
        c = prog.find("storage::bitcask::config::Config::%s" % m)
        if len(c) != 1:
            r.bad("storage::bitcask::config::Config::%s" % m, "setter exists", "src/storage/bitcask/config.rs", "found %d" % len(c))
            continue
        b = c[0]
        f = fam_name(b)
        writes = []
        for bb in b.live_blocks():
            for st in b.blocks[bb]["stmts"]:
                if st["k"] == "assign" and st["pl"]["p"] and st["pl"]["l"] == 1:
                    path = ".".join(el[2] for el in st["pl"]["p"] if el[0] == "f")
                    writes.append((bb, path, b.origin_rvalue(st["rv"])))
            t = b.term(bb)
            if t["k"] == "drop" and t.get("replace") and t["pl"]["l"] == 1:
                pass
        good_w = [w for w in writes if w[1] == suffix]
        src_ok = bool(good_w) and all(origin_mentions(o, lambda x: x == ("arg", param)) for bb, path, o in good_w)
        stray = [w for w in writes if w[1] != suffix]
        # assigned on every returning path
        wb = {bb for bb, path, o in good_w}
        p = path_to(b, [0], lambda x: b.term(x)["k"] == "return", blocked_edges=lambda e: e.kind == "unwind", blocked_blocks=wb)
        # blocks containing the write are blocked entirely: a return reachable around them means a path without the store
        r.add(f, "%s ↦ self.%s" % (param, suffix), src_ok and not stray and p is None, short_span(b.span), "" if (src_ok and not stray and p is None) else "writes %s%s" % ([(w[1], origin_str(w[2])[:40]) for w in writes], "; a path returns without storing" if p is not None else ""))
    # layering of the server's configuration sources: the environment overrides the file (config-rs: later sources win)
    cg = prog.find("conf::Configuration::get")
    if len(cg) == 1:
        b = cg[0]
        adds = [(bb, t) for _, bb, t in calls_in([b], "config::ConfigBuilder::add_source", "config::builder::ConfigBuilder::add_source")]
        order = []
        for bb, t in adds:
            so = " ".join(x[1] for x in origin_mentions(arg_origin(b, t, 1), lambda x: x[0] == "call" and x[1])) + " " + origin_str(arg_origin(b, t, 1))
            depth = len(origin_mentions(arg_origin(b, t, 0), lambda x: x[0] == "call" and x[1] and x[1].endswith("add_source")))
            kind = "env" if ("Environment" in so or "with_prefix" in so) else ("file" if ("File" in so or "with_name" in so) else "?")
            order.append((depth, kind))
        order.sort()
        kinds = [k for d, k in order]
        good = kinds == ["file", "env"]
        r.add(fam_name(b), "configuration file first, environment (BITCASK__…) last so that it overrides", good, short_span(b.span), "sources in order: %s" % kinds)
    ob = prog.find("storage::bitcask::config::Config::open")
    if len(ob) == 1:
        b = ob[0]
        cs = calls_in([b], "storage::bitcask::Bitcask::open")
        good = len(cs) == 1 and arg_origin(b, cs[0][2], 0) == ("arg", "self")
        r.add(fam_name(b), "Config::open(self) opens the store with self", good, short_span(b.span))
    # nothing rewrites a setting after the setters: the configuration in effect is the one given
    n_w = 0
    for b in shipped_bodies(prog):
        is_setter = b.name.startswith("storage::bitcask::config::Config::") and b.name.split("::")[-1] in SETTERS
        if is_setter or "_serde" in b.path or "Default" in b.path:
            continue
        for bb in sorted(b.live_blocks()):
            for st in b.blocks[bb]["stmts"]:
                if st["k"] != "assign" or not st["pl"]["p"]:
                    continue
                flds = [e[2] for e in st["pl"]["p"] if e[0] == "f"]
                if not flds:
                    continue
                base_ty = b.local_ty(st["pl"]["l"])
                through_conf = "conf" in flds[:-1]
                cfg_base = any(x in base_ty.split("<")[0] for x in ("storage::bitcask::config::Config", "storage::bitcask::config::MergeStrategy", "storage::bitcask::config::MergeTriggers", "storage::bitcask::config::MergeThresholds"))
                rvo = b.origin_rvalue(st["rv"])
                from_param = rvo[0] == "arg" or (bool(origin_mentions(rvo, lambda x: x[0] == "arg" and x[1] != "self")) and flds[-1] == b.name.split("::")[-1])
                if (through_conf or cfg_base) and b.name.startswith("storage::bitcask::config::Config::") and from_param:
                    continue  # a setter by shape (stores its own parameter, possibly converted), also one added later
                if through_conf or cfg_base:
                    n_w += 1
                    r.bad(fam_name(b), "writes setting %s" % ".".join(flds), short_span(st.get("span")), "a setting is rewritten outside the setters: the store does not run with the configuration it was given (a threshold or limit the user chose is silently replaced)")
    r.add("storage::bitcask::config", "no setting is rewritten outside the setters", n_w == 0, "src/storage/bitcask/config.rs")
    return r


def s9b_client_encoders(ctx):
    r = RuleResult("S9b", "the client encodes each command as an array of bulk strings whose first element is the literal the server dispatches on (SET/GET/DEL) followed by the command's own key (and value) in that order", floor=3)
    prog = ctx.prog
    for cmd, fields in (("Set", ["key", "value"]), ("Get", ["key"]), ("Del", None)):
        name = "net::command::%s::<impl std::convert::From<net::command::%s::%s> for net::frame::Frame>::from" % (cmd.lower(), cmd.lower(), cmd)
        cands = [b for b in shipped_bodies(prog) if b.path == name]
        if len(cands) != 1:
            r.unrec("net::command::%s" % cmd, "From<%s> for Frame" % cmd, "src/net/command/%s.rs" % cmd.lower(), "found %d" % len(cands))
            continue
        b = cands[0]
        f = "From<%s> for Frame" % cmd
        lits = []
        bulk = []
        arr = False
        for bb in sorted(b.live_blocks()):
            for st in b.blocks[bb]["stmts"]:
                if st["k"] == "assign" and st["rv"]["k"] == "agg" and st["rv"]["ak"] == "adt" and strip_generics(st["rv"]["adt"]) == "net::frame::Frame":
                    o = b.origin_rvalue(st["rv"])
                    if o[3] == "BulkString":
                        pl = o[4].get("0")
                        cs = origin_mentions(pl, lambda x: x[0] == "const")
                        bs = [const_bytes(c) for c in cs if const_bytes(c)]
                        if bs:
                            lits.append(bs[0])
                        else:
                            bulk.append(origin_str(pl))
                    elif o[3] == "Array":
                        arr = True
        want = cmd.upper().encode()
        r.add(f, "first element is the literal %r" % want.decode(), lits[:1] == [want] and len(lits) == 1, short_span(b.span), "literals %s" % lits)
        r.add(f, "encoded as an Array", arr, short_span(b.span))
        if fields:
            order_ok = len(bulk) == len(fields) and all(fld in bulk[i] for i, fld in enumerate(fields))
            r.add(f, "arguments in order %s" % fields, order_ok, short_span(b.span), "%s" % bulk)
    return r


def v4b_window_policy(ctx):
    r = RuleResult("V4b", "Context::can_merge under policy Window{start,end}: outside the window (hour < start or hour > end) it returns false; the hour is compared with `start` by < and with `end` by > (normalised), nothing else", floor=3)
    b = ctx.prog.one("storage::bitcask::Context::can_merge")
    f = fam_name(b)
    seen = {}
    for bb in sorted(b.live_blocks()):
        info = b.switch_info(bb)
        if not info or info["kind"] != "bool":
            continue
        o = peel_var(info["on"])
        if o[0] != "bin" or o[1] not in ("Lt", "Le", "Gt", "Ge"):
            continue
        l, rr = origin_str(o[2]), origin_str(o[3])
        fld = None
        for s_ in (l, rr):
            if s_.endswith("<Window>.start"):
                fld = "start"
            elif s_.endswith("<Window>.end"):
                fld = "end"
        if fld is None:
            continue
        hour_left = "hour" in l and "Window" not in l
        op = o[1] if hour_left else {"Lt": "Gt", "Gt": "Lt", "Le": "Ge", "Ge": "Le"}[o[1]]
        seen[fld] = op
        want = {"start": "Lt", "end": "Gt"}[fld]
        good_op = op == want
        # the true edge returns false
        fl = False
        for e in b.succ[bb]:
            if info["arms"].get(e.dst) == [True]:
                # either returns false directly or goes on to the other half of the `||`
                rs = [(c, ret_origin(b, d)) for c, d, rb in ret_classes(b, e.dst, lambda x: x.kind == "unwind")]
                fl = bool(rs) and all(c == "const" and const_int(o2) == 0 for c, o2 in rs)
        r.add(f, "hour %s %s ⇒ outside the window ⇒ false" % (op, fld), good_op and fl, where(b, bb), "" if (good_op and fl) else "expected `hour %s %s` returning false" % (want, fld))
    r.add(f, "both window bounds are tested", set(seen) == {"start", "end"}, short_span(b.span), "tested: %s" % seen)
    return r


def v7_argument_parsers(ctx):
    r = RuleResult("V7", "command argument readers (Parser::get_string / get_bytes): 'no more arguments' (Ok(None)) is reported only when the frame iterator is exhausted; a bulk string yields the argument; every other frame kind (null, integer, nested array, …) is an error — a malformed argument can neither end the argument list early nor be skipped; Get/Set insist that nothing follows (finish)", floor=6)
    from k4 import is_ok_none, is_ok_some

    prog = ctx.prog
    for fn in ("net::command::Parser::get_string", "net::command::Parser::get_bytes"):
        b = prog.one(fn)
        f = fam_name(b)
        nx = calls_in([b], "std::iter::Iterator::next")
        if len(nx) != 1:
            # one reader written in terms of the other: look at it with its sibling written out
            import inline
            b = inline.expanded_view(prog, b, {"Parser::get_string", "Parser::get_bytes"} - {"::".join(fn.split("::")[-2:])})
            nx = calls_in([b], "std::iter::Iterator::next")
        if len(nx) != 1:
            r.unrec(f, "frames.next() ×%d" % len(nx), short_span(b.span), "expected one")
            continue
        _, nbb, nt = nx[0]
        site = (b.path, nbb)
        none_e, some_dst = set(), None
        for bb in b.live_blocks():
            info = b.switch_info(bb)
            if info and info["kind"] == "variant":
                o = peel_var(info["on"])
                if o[0] == "call" and o[3] == site:
                    for e in b.succ[bb]:
                        if info["arms"].get(e.dst) == ["None"]:
                            none_e.add((e.src, e.dst))
                        elif info["arms"].get(e.dst) == ["Some"]:
                            some_dst = e.dst
        stray = [rb for c, d, rb in ret_classes(b, 0, lambda e: e.kind == "unwind" or (e.src, e.dst) in none_e) if is_ok_none(c, ret_origin(b, d))]
        r.add(f, "Ok(None) only when the iterator is exhausted", bool(none_e) and not stray, where(b, nbb), "" if not stray else "a frame that is present is reported as 'no more arguments': `DEL a $-1 …` would run as `DEL a`")
        # variant routing of the frame
        found = False
        for bb in sorted(b.live_blocks()):
            info = b.switch_info(bb)
            if info and info["kind"] == "variant" and "BulkString" in sum(info["arms"].values(), []) and origin_mentions(info["on"], lambda x: x[0] == "call" and x[3] == site):
                found = True
                for e in b.succ[bb]:
                    labs = info["arms"].get(e.dst, [])
                    if not labs:
                        continue
                    rs = [(c, ret_origin(b, d)) for c, d, rb in ret_classes(b, e.dst, lambda x: x.kind == "unwind")]
                    if labs == ["BulkString"]:
                        good = bool(rs) and all(is_ok_some(c, o) or c == "err" for c, o in rs) and any(is_ok_some(c, o) for c, o in rs)
                        r.add(f, "BulkString ⇒ Ok(Some(arg)) (or a conversion error)", good, where(b, bb))
                    else:
                        good = bool(rs) and all(c == "err" for c, o in rs)
                        r.add(f, "%s ⇒ Err" % "/".join(labs), good and "BulkString" not in labs, where(b, bb), "" if good else "a non-bulk argument is accepted or skipped")
        if not found:
            r.unrec(f, "match on the frame kind", where(b, nbb), "not found")
    # Get and Set reject trailing arguments
    for cmd in ("get::Get", "set::Set"):
        name = "net::command::<impl std::convert::TryFrom<net::command::Parser> for net::command::%s>::try_from" % cmd
        cands = [b for b in shipped_bodies(prog) if b.path == name]
        if len(cands) != 1:
            r.unrec("net::command::%s" % cmd, "TryFrom<Parser>", "src/net/command.rs", "found %d" % len(cands))
            continue
        b = cands[0]
        fin = calls_in([b], "net::command::Parser::finish")
        ok_wo = True
        if fin:
            _, fbb, ft = fin[0]
            good_edges = set()
            # finish() -> Result: `finish()?` / match on Ok
            ok_e, err_e, _sw = try_edges(b, fbb)
            for e in ok_e or []:
                good_edges.add((e.src, e.dst))
            for bb in b.live_blocks():
                info = b.switch_info(bb)
                if info and info["kind"] == "bool":
                    o = peel_var(info["on"])
                    neg = False
                    if o[0] == "un" and o[1] == "Not":
                        neg = True
                        o = peel_var(o[2])
                    if o[0] == "call" and o[3] == (b.path, fbb):
                        for e in b.succ[bb]:
                            if info["arms"].get(e.dst) == [not neg]:
                                good_edges.add((e.src, e.dst))
            classes = {c for c, d, rb in ret_classes(b, 0, lambda e: e.kind == "unwind" or (e.src, e.dst) in good_edges)}
            ok_wo = "ok" not in classes and bool(good_edges)
        r.add(fam_name(b), "succeeds only if Parser::finish() says nothing follows", bool(fin) and ok_wo, short_span(b.span))
    # finish() itself: 'nothing follows' (true / Ok) only when the iterator is exhausted
    fb = prog.find("net::command::Parser::finish")
    if len(fb) != 1:
        r.unrec("net::command::Parser::finish", "body", "src/net/command.rs", "found %d" % len(fb))
        return r
    fb = fb[0]
    f = fam_name(fb)
    nx = calls_in([fb], "std::iter::Iterator::next")
    if len(nx) != 1:
        r.unrec(f, "frames.next() ×%d" % len(nx), short_span(fb.span), "expected one")
        return r
    _, nbb, nt = nx[0]
    site = (fb.path, nbb)
    none_e = set()
    for bb in fb.live_blocks():
        info = fb.switch_info(bb)
        if info and info["kind"] == "variant":
            o = peel_var(info["on"])
            if o[0] == "call" and o[3] == site:
                for e in fb.succ[bb]:
                    if info["arms"].get(e.dst) == ["None"]:
                        none_e.add((e.src, e.dst))
    if not none_e:
        # `if self.frames.next().is_some() { return Err(..) }`
        for bb in fb.live_blocks():
            info = fb.switch_info(bb)
            if info and info["kind"] == "bool":
                o = peel_var(info["on"])
                ng = False
                while o[0] == "un" and o[1] == "Not":
                    o, ng = peel_var(o[2]), not ng
                if o[0] == "call" and o[1] and o[1].split("::")[-1] in ("is_some", "is_none") and o[2] and peel_var(o[2][0])[0] == "call" and peel_var(o[2][0])[3] == site:
                    nothing = (o[1].split("::")[-1] == "is_none") != ng
                    for e in fb.succ[bb]:
                        if info["arms"].get(e.dst) == [nothing]:
                            none_e.add((e.src, e.dst))
    if none_e:
        rs = [(c, ret_origin(fb, d)) for c, d, rb in ret_classes(fb, 0, lambda e: e.kind == "unwind" or (e.src, e.dst) in none_e)]
        good = bool(rs) and all(c == "err" or (c == "const" and const_int(o2) == 0) for c, o2 in rs)
        rs2 = [(c, ret_origin(fb, d)) for c, d, rb in ret_classes(fb, 0, lambda e: e.kind == "unwind")]
        good = good and any(c == "ok" or (c == "const" and const_int(o2) == 1) for c, o2 in rs2)
    else:
        rs = [ret_origin(fb, d) for c, d, rb in ret_classes(fb, 0, lambda e: e.kind == "unwind")]
        good = bool(rs) and all(is_call_origin(peel(o), "Option::is_none") and peel(o)[2] and peel_var(peel(o)[2][0])[0] == "call" and peel_var(peel(o)[2][0])[3] == site for o in rs if o is not None) and None not in rs
    r.add(f, "'nothing follows' only when frames.next() is None", good, where(fb, nbb))
    return r

"""Helper-level shape rules for the less central files: counter arithmetic (S13), reader-cache
keying (S14), position tracking in bufio and log (S15), file names (S16), sign discipline of the
integer reader (S17), encoder write sequence (S18)."""
from collections import deque

from common import *
from engine import RuleResult


def _field_updates(b):
    """list of (bb, field, op, other-operand origin, origin) for `self.<f> = self.<f> op x`"""
    out = []
    for bb in sorted(b.live_blocks()):
        for st in b.blocks[bb]["stmts"]:
            if st["k"] == "assign" and st["pl"]["p"] and st["pl"]["p"][-1][0] == "f":
                fld = st["pl"]["p"][-1][2]
                o = peel(b.origin_rvalue(st["rv"]))
                if o[0] == "field" and o[2] == "0":
                    o = peel(o[1])
                if o[0] == "bin":
                    out.append((bb, fld, o[1].replace("WithOverflow", ""), o[2], o[3]))
                else:
                    out.append((bb, fld, "set", o, None))
    return out


def s13_counter_arithmetic(ctx):
    r = RuleResult("S13", "LogStatistics counters move the way their names say: add_live: live_keys + 1; add_dead(n): dead_keys + 1, dead_bytes + n; overwrite(n): live_keys − 1, dead_keys + 1, dead_bytes + n; nothing else is written; fragmentation() = dead/(dead+live), 0 when there is no dead key", floor=7)
    prog = ctx.prog
    want = {
        "add_live": {("live_keys", "Add", 1)},
        "add_dead": {("dead_keys", "Add", 1), ("dead_bytes", "Add", "nbytes")},
        "overwrite": {("live_keys", "Sub", 1), ("dead_keys", "Add", 1), ("dead_bytes", "Add", "nbytes")},
    }
    for m, w in want.items():
        b = prog.one("storage::bitcask::log::LogStatistics::%s" % m)
        got = set()
        for bb, fld, op, a, c in _field_updates(b):
            same = access_path(a) == "self.%s" % fld if a is not None else False
            k = const_int(c) if c is not None else None
            val = k if k is not None else (access_path(c) if c is not None else None)
            got.add((fld, op if same else "?" + op, val))
        r.add(fam_name(b), "%s updates %s" % (m, sorted((f, o, str(v)) for f, o, v in w)), got == w, short_span(b.span), "" if got == w else "performs %s" % sorted((f, o, str(v)) for f, o, v in got))
        # on every path (straight-line code: no early return before the updates)
        ups = {bb for bb, *_ in _field_updates(b)}
        rets = [bb for bb in b.live_blocks() if b.term(bb)["k"] == "return"]
        r.add(fam_name(b), "%s has a single straight path" % m, len(rets) == 1 and not any(b.switch_info(x) for x in b.live_blocks()), short_span(b.span))
    fb = prog.one("storage::bitcask::log::LogStatistics::fragmentation")
    f = fam_name(fb)
    zero_guard = False
    for bb in fb.live_blocks():
        info = fb.switch_info(bb)
        if info and info["kind"] == "bool":
            o = peel_var(info["on"])
            if o[0] == "bin" and o[1] == "Eq" and access_path(o[2]) == "self.dead_keys" and const_int(o[3]) == 0:
                for e in fb.succ[bb]:
                    if info["arms"].get(e.dst) == [True]:
                        rs = [ret_origin(fb, d) for c, d, rb in ret_classes(fb, e.dst, lambda x: x.kind == "unwind")]
                        zero_guard = bool(rs) and all(o2 is not None and peel(o2)[0] == "const" and str(peel(o2)[1].get("v", "")).startswith("0") for o2 in rs)
    r.add(f, "no dead keys ⇒ 0.0", zero_guard, short_span(fb.span))
    div = None
    for bb in fb.live_blocks():
        for st in fb.blocks[bb]["stmts"]:
            if st["k"] == "assign" and st["rv"]["k"] == "bin" and st["rv"]["op"] == "Div":
                div = fb.origin_rvalue(st["rv"])
    good = False
    if div is not None:
        num, den = origin_str(div[2]), origin_str(div[3])
        dn = peel(div[3])
        if dn[0] == "bin" and dn[1] == "Add":
            sides = [access_path(dn[2]) or "", access_path(dn[3]) or ""]
            good = access_path(div[2]) == "self.dead_keys" and sorted(sides) == ["self.dead_keys", "self.live_keys"]
    r.add(f, "dead / (dead + live)", good, short_span(fb.span), origin_str(div)[:120] if div else "no division")
    return r


def s14_reader_cache_keying(ctx):
    r = RuleResult("S14", "LogDir::read / copy: the reader cache is looked up and filled under the file id that was asked for, a missing reader is opened on datafile_name(path, that id), and the cached and the fresh reader are used with the same (len, pos) — a reader of file A is never used for file B", floor=8)
    prog = ctx.prog
    for m, use in (("read", "LogReader::at"), ("copy", "LogReader::copy_raw")):
        b = prog.one("storage::bitcask::log::LogDir::%s" % m)
        f = fam_name(b)
        gm = calls_in([b], "lru::LruCache::get_mut", "lru::LruCache::get", "lru::LruCache::peek_mut")
        pt = calls_in([b], "lru::LruCache::put", "lru::LruCache::push")
        op = calls_in([b], "storage::bitcask::log::open")
        uses = calls_in([b], "storage::bitcask::log::" + use)
        r.add(f, "cache looked up under `fileid`", len(gm) == 1 and arg_origin(b, gm[0][2], 1) == ("arg", "fileid"), where(b, gm[0][1]) if gm else short_span(b.span), origin_str(arg_origin(b, gm[0][2], 1)) if gm else "no lookup")
        r.add(f, "new reader cached under `fileid`", len(pt) == 1 and arg_origin(b, pt[0][2], 1) == ("arg", "fileid"), where(b, pt[0][1]) if pt else short_span(b.span), origin_str(arg_origin(b, pt[0][2], 1)) if pt else "no put")
        good = False
        # the reader that is put into the cache, seen through a private constructor helper
        pox = expand(prog, arg_origin(b, pt[0][2], 2), {}) if pt else ("unknown", "")
        opens = origin_mentions(pox, lambda x: x[0] == "call" and x[1] == "storage::bitcask::log::open")
        if len(opens) == 1 and opens[0][2]:
            o = peel(opens[0][2][0])
            good = o[0] == "call" and o[1].endswith("datafile_name") and len(o[2]) > 1 and peel_var(o[2][1]) == ("arg", "fileid") and access_path(o[2][0]) == "path"
        r.add(f, "missing reader opened on datafile_name(path, fileid)", good, where(b, pt[0][1]) if pt else short_span(b.span), origin_str(pox)[:120])
        ok_args = len(uses) == 2 and all(arg_origin(b, t, 1) == ("arg", "len") and arg_origin(b, t, 2) == ("arg", "pos") for _, _, t in uses)
        r.add(f, "cached and fresh reader both read (len, pos)", ok_args, where(b, uses[0][1]) if uses else short_span(b.span), "%d uses" % len(uses))
        if pt and uses:
            # the reader that is cached is the one that was just opened
            good = bool(origin_mentions(pox, lambda x: x[0] == "call" and x[1] and x[1].endswith("LogReader::new")))
            r.add(f, "the reader put into the cache is the one just opened", good, where(b, pt[0][1]))
    return r


def s15_position_tracking(ctx):
    r = RuleResult("S15", "positions are tracked by what was really transferred: BufWriterWithPos::write adds the byte count the inner writer returned (not the request size) and returns it; BufReaderWithPos::read likewise; BufWriterWithPos::new starts at the end of the file; LogWriter::append reports pos = position before serialising and len = position after − before; LogIterator::next likewise", floor=8)
    prog = ctx.prog
    for ty, meth, inner, tr in (("BufWriterWithPos<W>", "write", "self.writer", "std::io::Write"), ("BufReaderWithPos<R>", "read", "self.reader", "std::io::Read")):
        name = "<storage::bitcask::bufio::%s as %s>::%s" % (ty, tr, meth)
        c = [b for b in shipped_bodies(prog) if b.name == name]
        if len(c) != 1:
            r.unrec(name, "impl", "src/storage/bitcask/bufio.rs", "found %d" % len(c))
            continue
        b = c[0]
        f = fam_name(b)
        inner_calls = [(bb, t) for _, bb, t in calls_in([b], "%s::%s" % (tr, meth)) if arg_path(b, t, 0) == inner]
        r.add(f, "delegates to %s.%s(b)" % (inner, meth), len(inner_calls) == 1 and arg_origin(b, inner_calls[0][1], 1) == ("arg", "b"), short_span(b.span))
        # the closure (or match arm) adding the returned count
        fam = prog.families[b.root]
        good = False
        ret_ok = False
        for x in fam:
            for bb, fld, op, a, c2 in _field_updates(x):
                if fld in ("pos", "self__pos") or True:
                    pass
            for bb in x.live_blocks():
                for st in x.blocks[bb]["stmts"]:
                    if st["k"] == "assign" and st["pl"]["p"]:
                        o = peel(x.origin_rvalue(st["rv"]))
                        if o[0] == "field" and o[2] == "0":
                            o = peel(o[1])
                        tgt = origin_str(x.origin_place(st["pl"]))
                        if o[0] == "bin" and o[1].startswith("Add") and "pos" in tgt and "pos" in origin_str(o[2]):
                            oth = peel(o[3])
                            if x.def_kind == "Closure":
                                good = oth[0] == "arg" or (oth[0] == "var")
                                # must be the closure's own argument (the Ok payload), not a captured length
                                good = good and not origin_mentions(o[3], lambda y: y[0] == "upvar")
                            else:
                                good = bool(origin_mentions(o[3], lambda y: y[0] == "call" and y[3] == (b.path, inner_calls[0][0]))) if inner_calls else False
            if x.def_kind == "Closure":
                rs = [ret_origin(x, d) for c3, d, rb in ret_classes(x, 0, lambda e: e.kind == "unwind")]
                ret_ok = bool(rs) and all(o2 is not None and peel(o2)[0] in ("arg", "var") and not origin_mentions(o2, lambda y: y[0] == "upvar") for o2 in rs)
        r.add(f, "pos += the count the inner %s returned" % meth, good, short_span(b.span))
        r.add(f, "returns that count", ret_ok or b.def_kind != "AssocFn" or good, short_span(b.span))
    # every path by which data reaches the inner writer/reader is one whose counting was checked
    # above: the io traits' provided methods (write_all, read_exact, …) all go through write/read
    # unless the impl overrides them
    allowed = {"std::io::Write": {"write", "flush"}, "std::io::Read": {"read"}, "std::io::Seek": {"seek"}}
    import re as _re

    for x in shipped_bodies(prog):
        m = _re.match(r"^<storage::bitcask::bufio::(Buf\w+WithPos)<\w+> as (std::io::\w+)>::(\w+)$", x.path)
        if not m or m.group(2) not in allowed:
            continue
        ok = m.group(3) in allowed[m.group(2)]
        r.add("storage::bitcask::bufio::%s" % m.group(1), "%s::%s is implemented" % (m.group(2).split("::")[-1], m.group(3)), ok, short_span(x.span), "" if ok else "an overridden %s bypasses the counted write()/read(): show that it counts exactly the bytes that were transferred, also when it fails part-way" % m.group(3))
    for ty in ("BufWriterWithPos", "BufReaderWithPos"):
        pb = prog.one("storage::bitcask::bufio::%s::pos" % ty)
        rs = [ret_origin(pb, d) for c, d, rb in ret_classes(pb, 0, lambda e: e.kind == "unwind")]
        good = bool(rs) and all(o is not None and access_path(o) == "self.pos" for o in rs) and not list(pb.calls())
        r.add(fam_name(pb), "pos() is the tracked position itself", good, short_span(pb.span), "; ".join(origin_str(o)[:80] for o in rs if o is not None))
    nb = prog.one("storage::bitcask::bufio::BufWriterWithPos::new")
    sk = calls_in([nb], "std::io::Seek::seek")
    good = False
    if sk:
        o = peel(arg_origin(nb, sk[0][2], 1))
        good = o[0] == "agg" and o[3] == "End" and const_int(list(o[4].values())[0]) == 0
        # and pos is initialised from it
        for bb in nb.live_blocks():
            for st in nb.blocks[bb]["stmts"]:
                if st["k"] == "assign" and st["rv"]["k"] == "agg" and st["rv"]["ak"] == "adt" and "BufWriterWithPos" in st["rv"]["adt"]:
                    ao = nb.origin_rvalue(st["rv"])
                    good = good and bool(origin_mentions(ao[4].get("pos", ("unknown", "")), lambda y: y[0] == "call" and y[3] == (nb.path, sk[0][1])))
    r.add(fam_name(nb), "the writer's position starts at the end of the file (seek End(0))", good, short_span(nb.span))
    # LogWriter::append / LogIterator::next
    for fn, work in (("storage::bitcask::log::LogWriter::append", ("bincode::serialize_into",)), ("storage::bitcask::log::LogIterator::next", ("bincode::deserialize_from",))):
        b = prog.one(fn)
        f = fam_name(b)
        ps = [(bb, t) for _, bb, t in calls_in([b], "storage::bitcask::bufio::BufWriterWithPos::pos", "storage::bitcask::bufio::BufReaderWithPos::pos") if "macro:debug_assert" not in (t.get("exp") or "") + (t.get("fn_exp") or "")]
        wk = calls_in([b], *work)
        agg = None
        for bb in sorted(b.live_blocks()):
            for st in b.blocks[bb]["stmts"]:
                if st["k"] == "assign" and st["rv"]["k"] == "agg" and st["rv"]["ak"] == "adt" and strip_generics(st["rv"]["adt"]).endswith("::LogIndex"):
                    agg = b.origin_rvalue(st["rv"])
        if agg is None or len(ps) < 2 or len(wk) != 1:
            r.unrec(f, "pos() ×%d, work ×%d, LogIndex literal %s" % (len(ps), len(wk), agg is not None), short_span(b.span), "expected ≥2/1/yes")
            continue
        wbb = wk[0][1]
        after = reach(b, [b.term(wbb)["t"]], blocked_edges=lambda e: e.kind == "unwind")
        po = agg[4].get("pos")
        lo = peel(agg[4].get("len", ("unknown", "")))
        if lo[0] == "field" and lo[2] == "0":
            lo = peel(lo[1])
        # the position read that feeds index.pos, and the two that feed index.len (others — a debug
        # assertion reading the position again — do not matter)
        psites = {(b.path, bb): bb for bb, t in ps}
        feed_pos = [psites[y[3]] for y in origin_mentions(po, lambda y: y[0] == "call" and y[3] in psites)] if po is not None else []
        before = [bb for bb in feed_pos if bb not in after]
        pos_ok = len(set(feed_pos)) == 1 and len(before) == 1
        len_ok = False
        later = []
        if lo[0] == "bin" and lo[1].startswith("Sub") and before:
            la = [psites[y[3]] for y in origin_mentions(lo[2], lambda y: y[0] == "call" and y[3] in psites)]
            lb = [psites[y[3]] for y in origin_mentions(lo[3], lambda y: y[0] == "call" and y[3] in psites)]
            later = [bb for bb in la if bb in after]
            len_ok = len(set(la)) == 1 and len(later) == 1 and set(lb) == {before[0]}
        r.add(f, "index.pos = position before the entry", pos_ok, short_span(b.span), origin_str(po) if po else "?")
        r.add(f, "index.len = position after − position before", len_ok, short_span(b.span), origin_str(lo)[:100])
    return r


def s16_file_names(ctx):
    r = RuleResult("S16", "data and hint files are named apart: datafile_name formats with the `data` extension, hintfile_name with `hint`, both as `<id>.bitcask.<ext>` under the given directory; sorted_fileids recognises exactly the `data` extension", floor=6)
    prog = ctx.prog

    def consts_in(fam):
        """byte/str constants used by the family, with named crate constants evaluated by the driver"""
        from k3 import _lit_from_display

        out = set()

        def take(rec):
            if "bytes" in rec:
                out.add(bytes.fromhex(rec["bytes"]))
            elif (rec.get("ty") or "").startswith(("&[u8", "&str")) and "uneval" not in rec:
                bs = _lit_from_display(rec.get("v"))
                if bs:
                    out.add(bs)

        def walk(x):
            if isinstance(x, dict):
                if x.get("k") == "const":
                    take(x)
                for v in x.values():
                    walk(v)
            elif isinstance(x, list):
                for v in x:
                    walk(v)

        for b in fam:
            for x in [b] + list(b.promoted):
                live = x.live_blocks() if x is b else range(len(x.blocks))
                for bb in live:
                    walk(x.blocks[bb])
        return out

    import re

    exts = {}
    for fn in ("datafile_name", "hintfile_name"):
        fam = prog.family("storage::bitcask::utils::%s" % fn)
        cs = consts_in(fam)
        b = fam[0]
        # the template of the one format!: `<id>` first, then a literal that starts and ends with '.',
        # then the extension: sorted_fileids reads the id up to the first '.' and the extension after
        # the last one
        tmpl = [c for c in cs if c[:1] == b"\xc0"]
        runs = re.findall(rb"[\x20-\x7e]+", tmpl[0]) if len(tmpl) == 1 else []
        shape = len(runs) == 1 and runs[0].startswith(b".") and runs[0].endswith(b".") and tmpl[0].count(b"\xc0") == 2
        disp = [arg_origin(x, t, 0) for x, bb, t in calls_in(fam, "core::fmt::rt::Argument::new_display")]
        ext = const_bytes(disp[1]) if len(disp) == 2 else None
        exts[fn] = ext
        order = len(disp) == 2 and disp[0] == ("arg", "fileid") and ext is not None and b"." not in ext and len(ext) > 0
        r.add(fam_name(b), "%s formats `<fileid>.….<ext>`: the id first, a constant extension last" % fn, shape and order, short_span(b.span), "constants: %s; args: %s" % (sorted(cs), [origin_str(d) for d in disp]))
        j = calls_in(fam, "std::path::Path::join")
        r.add(fam_name(b), "%s joins the name to the given directory" % fn, len(j) == 1 and (arg_path(j[0][0], j[0][2], 0) or "").startswith("path"), short_span(b.span))
    fam = prog.family("storage::bitcask::utils::sorted_fileids")
    cs = consts_in(fam)
    de, he = exts.get("datafile_name"), exts.get("hintfile_name")
    r.add("storage::bitcask::utils::hintfile_name", "hint files and data files have different extensions", de is not None and he is not None and de != he, short_span(fam[0].span), "data %r, hint %r" % (de, he))
    r.add("storage::bitcask::utils::sorted_fileids", "recognises exactly the extension datafile_name writes", de is not None and cs == {de}, short_span(fam[0].span), "constants: %s" % sorted(cs))
    # the extension constants themselves
    return r


def s17_sign_discipline(ctx):
    r = RuleResult("S17", "get_integer: a leading '-' selects the negative accumulation (num*10 − d, checked_mul/checked_sub), '+' or no sign the positive one (num*10 + d, checked_mul/checked_add); both multiply by 10; ascii_to_i64 maps exactly b'0'..=b'9' to b − 48", floor=5)
    prog = ctx.prog
    b = prog.one("net::frame::get_integer")
    f = fam_name(b)
    rets = {x for x in b.live_blocks() if b.term(x)["k"] == "return"}

    def region_ops(dst, other):
        mine = reach(b, dst, blocked_edges=lambda e: e.kind == "unwind", blocked_blocks=rets)
        oth = reach(b, other, blocked_edges=lambda e: e.kind == "unwind", blocked_blocks=rets)
        ex = mine - oth
        ops = set()
        for x in ex:
            for st in b.blocks[x]["stmts"]:
                if st["k"] == "assign" and st["rv"]["k"] == "bin" and b.local_ty(st["pl"]["l"]).startswith(("i64", "(i64")):
                    op = st["rv"]["op"].replace("WithOverflow", "")
                    o = b.origin_rvalue(st["rv"])
                    if op == "Mul":
                        ops.add(("Mul", const_int(o[3])))
                    elif op in ("Add", "Sub"):
                        ops.add((op, None))
            t = b.term(x)
            if t["k"] == "call":
                for a in t["args"]:
                    o = peel(b.origin_operand(a))
                    if o[0] == "agg" and o[1] == "closure" and o[2] in prog.bodies:
                        for _, cb2, ct2 in [(None, cb_, ct_) for cb_, ct_ in prog.bodies[o[2]].calls()]:
                            cn = strip_generics(ct2.get("callee")) or ""
                            if "checked_" in cn:
                                ops.add((cn.split("::")[-1], None))
                cn = strip_generics(t.get("callee")) or ""
                if "::checked_" in cn and cn.startswith(("core::num", "std::num", "i64::")):
                    ops.add((cn.split("::")[-1], None))
        return ops

    # the sign branch: the two-way test whose sides are the adding and the subtracting accumulation — whatever
    # carries the sign (a bool flag, an enum, the byte itself)
    sw = None
    for bb in sorted(b.live_blocks()):
        info = b.switch_info(bb)
        if not info or "macro" in (b.term(bb).get("exp") or ""):
            continue
        dsts = [e.dst for e in b.succ[bb] if e.kind != "unwind" and info["arms"].get(e.dst)]
        if len(dsts) != 2:
            continue
        o0, o1 = region_ops([dsts[0]], [dsts[1]]), region_ops([dsts[1]], [dsts[0]])
        if ("Add", None) in o0 and ("Sub", None) in o1 and ("Sub", None) not in o0 and ("Add", None) not in o1:
            sw = (bb, info, dsts[0], dsts[1])
        elif ("Add", None) in o1 and ("Sub", None) in o0 and ("Sub", None) not in o1 and ("Add", None) not in o0:
            sw = (bb, info, dsts[1], dsts[0])
        if sw:
            break
    if sw is None:
        r.unrec(f, "branch on the sign", short_span(b.span), "no two-way test separating the adding from the subtracting accumulation")
        return r
    bb, info, pos_dst, neg_dst = sw
    # which sign byte leads to which side: walk from the entry to the sign test with the byte that peek_byte
    # returned fixed to '-', '+' and a digit, carrying the constants, enum values and Ok/Some wrappers that are
    # assigned on the way; tests of that byte and of carried values are decided, `?` takes its success side
    is_peek = lambda x: x[0] == "call" and x[1] and x[1].endswith("peek_byte")

    def simple(op):
        return op.get("k") in ("move", "copy") and not op["pl"]["p"]

    def step_env(env, cur, v):
        env = dict(env)
        for st in b.blocks[cur]["stmts"]:
            if st["k"] != "assign":
                continue
            if st["pl"]["p"]:
                env.pop(st["pl"]["l"], None)
                continue
            L, rv = st["pl"]["l"], st["rv"]
            val = None
            if rv["k"] == "use" and rv["op"].get("k") == "const" and rv["op"].get("int") is not None:
                val = ("i", int(rv["op"]["int"]))
            elif rv["k"] == "use" and simple(rv["op"]):
                val = env.get(rv["op"]["pl"]["l"])
            elif rv["k"] == "use" and rv["op"].get("k") in ("move", "copy") and len(rv["op"]["pl"]["p"]) == 2 and rv["op"]["pl"]["p"][0][0] == "dc":
                x = env.get(rv["op"]["pl"]["l"])
                if x and x[0] == "v" and x[1] == rv["op"]["pl"]["p"][0][1] and len(x) > 2:
                    val = x[2]
            elif rv["k"] == "agg" and rv.get("ak") == "adt" and rv.get("variant") is not None:
                inner = env.get(rv["ops"][0]["pl"]["l"]) if len(rv["ops"]) == 1 and simple(rv["ops"][0]) else None
                val = ("v", rv["variant"], inner) if len(rv["ops"]) == 1 else ("v", rv["variant"])
            elif rv["k"] == "discr" and not rv["pl"]["p"]:
                x = env.get(rv["pl"]["l"])
                if x and x[0] == "v":
                    val = ("d", x[1])
            elif rv["k"] == "un" and rv.get("op") == "Not" and simple(rv["a"]):
                x = env.get(rv["a"]["pl"]["l"])
                if x and x[0] == "i":
                    val = ("i", 1 - x[1])
            elif rv["k"] == "bin" and rv["op"] in ("Eq", "Ne"):
                fo = b.origin_rvalue(rv)
                if origin_mentions(fo[2], is_peek) or origin_mentions(fo[3], is_peek):
                    c = const_int(fo[3]) if origin_mentions(fo[2], is_peek) else const_int(fo[2])
                    if c is not None:
                        val = ("i", int((v == c) if rv["op"] == "Eq" else (v != c)))
            if val is None:
                env.pop(L, None)
            else:
                env[L] = val
        t = b.term(cur)
        if t["k"] == "call" and not t["dest"]["p"]:
            env.pop(t["dest"]["l"], None)
            cn = strip_generics(t.get("callee")) or ""
            if cn.endswith("Try::branch") and t["args"] and simple(t["args"][0]):
                x = env.get(t["args"][0]["pl"]["l"])
                if x and x[0] == "v" and x[1] in ("Ok", "Some"):
                    env[t["dest"]["l"]] = ("v", "Continue", x[2] if len(x) > 2 else None)
                elif x and x[0] == "v" and x[1] in ("Err", "None"):
                    env[t["dest"]["l"]] = ("v", "Break", x[2] if len(x) > 2 else None)
        return env

    def side_for(v):
        arrived = set()
        seen = set()
        stack = [(0, ())]
        while stack:
            cur, envt = stack.pop()
            if (cur, envt) in seen or len(seen) > 6000:
                continue
            seen.add((cur, envt))
            env = step_env(dict(envt), cur, v)
            t = b.term(cur)
            si = b.switch_info(cur)
            nxts = None
            known = env.get(t["op"]["pl"]["l"]) if t["k"] == "switch" and simple(t["op"]) else None
            if si is not None and known is not None and known[0] == "i" and si["kind"] == "bool":
                nxts = [e.dst for e in b.succ[cur] if si["arms"].get(e.dst) == [bool(known[1])]]
            elif si is not None and known is not None and known[0] == "d" and si["kind"] == "variant":
                nxts = [e.dst for e in b.succ[cur] if known[1] in si["arms"].get(e.dst, [])]
            elif si is not None and si["kind"] == "int" and origin_mentions(si["on"], is_peek):
                nxts = [e.dst for e in b.succ[cur] if str(v) in si["arms"].get(e.dst, [])] or [si.get("otherwise")]
            elif si is not None and si["kind"] == "bool":
                o = peel_var(si["on"])
                if o[0] == "bin" and o[1] in ("Eq", "Ne") and (origin_mentions(o[2], is_peek) or origin_mentions(o[3], is_peek)):
                    c = const_int(o[3]) if origin_mentions(o[2], is_peek) else const_int(o[2])
                    if c is not None:
                        truth = (v == c) if o[1] == "Eq" else (v != c)
                        nxts = [e.dst for e in b.succ[cur] if si["arms"].get(e.dst) == [truth]]
            elif si is not None and si["kind"] == "variant":
                ok = [e.dst for e in b.succ[cur] if si["arms"].get(e.dst) in (["Continue"], ["Ok"])]
                if ok:
                    nxts = ok
            if nxts is None:
                nxts = [e.dst for e in b.succ[cur] if e.kind != "unwind"]
            if cur == bb:
                for n in nxts:
                    arrived.add("+" if n == pos_dst else ("-" if n == neg_dst else "?"))
                continue
            envt2 = tuple(sorted(env.items(), key=lambda kv: kv[0]))
            for n in nxts:
                if n is not None:
                    stack.append((n, envt2))
        return list(arrived)[0] if len(arrived) == 1 else "?"

    sign_map = {"'-'": side_for(45), "'+'": side_for(43), "digit": side_for(48)}
    want = {"'-'": "-", "'+'": "+", "digit": "+"}
    r.add(f, "'-' ⇒ negative, '+' / none ⇒ positive", sign_map == want, where(b, bb), "sign byte → accumulation: %s" % sign_map)
    t_dst, f_dst = [pos_dst], [neg_dst]
    pos_ops = region_ops(t_dst, f_dst)
    neg_ops = region_ops(f_dst, t_dst)
    r.add(f, "positive branch: ×10, +digit, checked_mul, checked_add", pos_ops == {("Mul", 10), ("Add", None), ("checked_mul", None), ("checked_add", None)}, where(b, bb), "%s" % sorted(str(x) for x in pos_ops))
    r.add(f, "negative branch: ×10, −digit, checked_mul, checked_sub", neg_ops == {("Mul", 10), ("Sub", None), ("checked_mul", None), ("checked_sub", None)}, where(b, bb), "%s" % sorted(str(x) for x in neg_ops))
    ab = prog.one("net::frame::ascii_to_i64")
    lo = hi = sub = None
    for x in [ab] + ab.promoted:
        for bb2 in range(len(x.blocks)):
            t = x.blocks[bb2]["term"]
            if t and t["k"] == "call" and (strip_generics(t.get("callee")) or "").endswith("RangeInclusive::new"):
                lo, hi = const_int(x.origin_operand(t["args"][0])), const_int(x.origin_operand(t["args"][1]))
            for st in x.blocks[bb2]["stmts"]:
                if st["k"] == "assign" and st["rv"]["k"] == "bin" and st["rv"]["op"].startswith("Sub"):
                    sub = const_int(x.origin_rvalue(st["rv"])[3])
    r.add(fam_name(ab), "digits are b'0'(48)..=b'9'(57), value = byte − 48", (lo, hi, sub) == (48, 57, 48), short_span(ab.span), "range %s..=%s, minus %s" % (lo, hi, sub))
    rs = [(c, ret_origin(ab, d)) for c, d, rb in ret_classes(ab, 0, lambda e: e.kind == "unwind")]
    kinds = sorted({peel(o)[3] for c, o in rs if o is not None and peel(o)[0] == "agg"})
    r.add(fam_name(ab), "non-digit ⇒ None, digit ⇒ Some", kinds == ["None", "Some"], short_span(ab.span), "%s" % kinds)
    return r


def s18_encoder_sequence(ctx):
    r = RuleResult("S18", "Connection::write_single_value emits, per frame kind, exactly the RESP sequence: '+'/'-' then the text then CRLF; ':' then the decimal of the value then CRLF; '$' then the decimal of the payload length, CRLF, the payload, CRLF; the null literal; write_array emits '*', the decimal of the number of items, CRLF, then every item; a decimal is the text of `write!(cursor, \"{}\", v)` cut at the cursor's position (or v.to_string())", floor=7)
    prog = ctx.prog
    fam = prog.family("net::connection::Connection::write_single_value")
    wb = [x for x in fam if x.coroutine]
    if not wb:
        r.unrec("net::connection::Connection::write_single_value", "body", "src/net/connection.rs", "not found")
        return r
    import inline
    # the decimal writer is read in place (written out into the encoder), whatever helper or type carries it
    wb = inline.expanded_view(prog, wb[0], {"Connection::write_decimal"})
    f = "net::connection::Connection::write_single_value"
    notdbg_t = lambda t_: "macro:debug_assert" not in (t_.get("fn_exp") or "") + (t_.get("exp") or "")

    def var_id(o):
        while o[0] in ("clone", "cast"):
            o = o[1]
        return o[1] if o[0] == "var" else None

    def dec_value(body, o):
        """origin of v when o is the text `write!(cursor, "{}", v)` produced, cut at the cursor's position
        (`&cursor.get_ref()[..pos]`, or the same bytes of the array under the cursor), or `v.to_string()`; else None"""
        from k3 import _lit_from_display
        o = peel(o)
        if o[0] == "call" and o[1].endswith("Index::index") and len(o[2]) == 2:
            rng, src = peel(o[2][1]), peel(o[2][0])
            if not (rng[0] == "agg" and (rng[2] or "").endswith("RangeTo") and rng[4]):
                return None
            end = list(rng[4].values())[0]
            pcs = origin_mentions(end, lambda y: y[0] == "call" and y[1].endswith("Cursor::position") and y[3][0] == body.path)
            if len(pcs) != 1 or not pcs[0][2]:
                return None
            cur = var_id(pcs[0][2][0])
            if cur is None:
                return None
            wfs = [(bb, t) for _, bb, t in calls_in([body], "std::io::Write::write_fmt") if notdbg_t(t) and var_id(arg_origin(body, t, 0)) == cur]
            if len(wfs) != 1:
                return None
            # every write into that cursor is this one formatting
            if [1 for _, bb, t in calls_in([body], "std::io::Write::write", "std::io::Write::write_all") if var_id(arg_origin(body, t, 0)) == cur]:
                return None
            ao = arg_origin(body, wfs[0][1], 1)
            news = origin_mentions(ao, lambda y: y[0] == "call" and y[1].endswith("fmt::Arguments::new"))
            disp = origin_mentions(ao, lambda y: y[0] == "call" and y[1].endswith("fmt::rt::Argument::new_display"))
            alln = origin_mentions(ao, lambda y: y[0] == "call" and "fmt::rt::Argument::new_" in y[1])
            if len(news) != 1 or len(disp) != 1 or len(alln) != 1 or not news[0][2] or not disp[0][2]:
                return None
            tm = peel(news[0][2][0])
            tb = (const_bytes(tm) or _lit_from_display(tm[1].get("v"))) if tm[0] == "const" else None
            if tb != b"\xc0\x00":
                return None
            # the bytes sent are the cursor's own buffer
            curo = pcs[0][2][0]
            while curo[0] in ("clone", "cast"):
                curo = curo[1]
            mk = peel(curo)
            under = None
            if mk[0] == "call" and mk[1].endswith("Cursor::new") and mk[2]:
                vs = origin_mentions(mk[2][0], lambda y: y[0] == "var")
                under = vs[0][1] if vs else None
            if src[0] == "call" and src[1].endswith("Cursor::get_ref") and src[2] and var_id(src[2][0]) == cur:
                return disp[0][2][0]
            if under is not None and origin_mentions(src, lambda y: y[0] == "var" and y[1] == under):
                return disp[0][2][0]
            return None
        ts = origin_mentions(o, lambda y: y[0] == "call" and y[1].split("::")[-1] == "to_string" and y[1].endswith("ToString::to_string"))
        if len(ts) == 1 and ts[0][2] and not origin_mentions(o, lambda y: y[0] == "call" and y[1].split("::")[-1] in ("index", "get", "trim", "trim_start_matches", "split_at", "replace", "to_uppercase")):
            return ts[0][2][0]
        return None

    sbb = sinfo = None
    for bb in sorted(wb.live_blocks()):
        info = wb.switch_info(bb)
        if info and info["kind"] == "variant" and set(sum(info["arms"].values(), [])) >= {"SimpleString", "Integer", "BulkString"}:
            sbb, sinfo = bb, info
            break
    if sbb is None:
        r.unrec(f, "match on the frame", short_span(wb.span), "not found")
        return r

    def seq_from(body, start, stop):
        """stream writes in path order from start (BFS distance; the await loops do not reorder them)"""
        dist = {start: 0}
        dq = deque([start])
        while dq:
            x = dq.popleft()
            for e in body.succ[x]:
                if e.kind in ("unwind", "ydrop") or e.dst in stop:
                    continue
                if e.dst not in dist:
                    dist[e.dst] = dist[x] + 1
                    dq.append(e.dst)
        out = []
        for x in sorted(dist, key=lambda k: dist[k]):
            t = body.term(x)
            if t["k"] != "call":
                continue
            if is_call_to(t, "tokio::io::AsyncWriteExt::write_u8"):
                v = const_int(arg_origin(body, t, 1))
                out.append(("u8", chr(v) if v is not None else "?"))
            elif is_call_to(t, "tokio::io::AsyncWriteExt::write_all"):
                o = arg_origin(body, t, 1)
                dv = dec_value(body, o)
                if dv is not None:
                    out.append(("dec", dv))
                    continue
                bs = const_bytes(o)
                if bs is None and peel(o)[0] == "const":
                    from k3 import _lit_from_display

                    bs = _lit_from_display(peel(o)[1].get("v"))
                if bs is None:
                    for c in origin_mentions(o, lambda y: y[0] == "const"):
                        from k3 import _lit_from_display

                        bs = const_bytes(c) or _lit_from_display(c[1].get("v"))
                        if bs:
                            break
                out.append(("lit", bs) if bs is not None else ("all", o))
            elif is_call_to(t, "net::connection::Connection::write_decimal"):
                out.append(("dec", arg_origin(body, t, 1)))
            elif is_call_to(t, "net::connection::Connection::write_single_value"):
                out.append(("item", arg_origin(body, t, 1)))
        return out

    rets = {x for x in wb.live_blocks() if wb.term(x)["k"] == "return"}
    dsts = {e.dst: sinfo["arms"].get(e.dst, []) for e in wb.succ[sbb]}

    def excl(dst):
        others = [d for d in dsts if d != dst]
        mine = reach(wb, [dst], blocked_edges=lambda e: e.kind in ("unwind", "ydrop"), blocked_blocks=rets)
        oth = set()
        for d in others:
            oth |= reach(wb, [d], blocked_edges=lambda e: e.kind in ("unwind", "ydrop"), blocked_blocks=rets)
        return oth - mine, mine - oth

    crlf = ("lit", b"\r\n")
    for dst, labs in dsts.items():
        if len(labs) != 1:
            continue
        v = labs[0]
        _, ex = excl(dst)
        stop = set(wb.live_blocks()) - ex
        seq = seq_from(wb, dst, stop)
        shape = [(k, (x if k in ("u8", "lit") else None)) for k, x in seq]
        pay = "frame.<%s>.0" % v

        def is_len_of(o, path):
            o = peel(o)
            return o[0] == "call" and o[1].split("::")[-1] == "len" and len(o[2]) == 1 and access_path(o[2][0]) == path

        if v in ("SimpleString", "Error"):
            good = shape == [("u8", "+" if v == "SimpleString" else "-"), ("all", None), crlf] and access_path(seq[1][1]) == pay
        elif v == "Integer":
            good = shape == [("u8", ":"), ("dec", None), crlf] and access_path(seq[1][1]) == pay
        elif v == "Null":
            good = shape == [("lit", b"$-1\r\n")]
        elif v == "BulkString":
            good = shape == [("u8", "$"), ("dec", None), crlf, ("all", None), crlf] and is_len_of(seq[1][1], pay) and access_path(seq[3][1]) == pay
        elif v == "Array":
            continue
        else:
            good = False
        r.add(f, "%s is written as the RESP sequence" % v, good, where(wb, sbb), "" if good else "writes %s" % [(k, x.decode("latin1") if isinstance(x, bytes) else (x if isinstance(x, str) else origin_str(x))) for k, x in seq])
    ab, a0, astop = array_writer_region(prog)
    if ab is not None:
        ab = inline.expanded_view(prog, ab, {"Connection::write_decimal"})
        seq = seq_from(ab, a0, astop)
        kinds = [k for k, x in seq]
        o1 = peel(seq[1][1]) if len(seq) > 1 and seq[1][0] == "dec" else ("unknown", "")
        good = kinds[:3] == ["u8", "dec", "lit"] and seq[0][1] == "*" and seq[2][1] == b"\r\n" and o1[0] == "call" and o1[1].split("::")[-1] == "len" and (access_path(o1[2][0]) == "items" or (access_path(o1[2][0]) or "").endswith("<Array>.0")) and kinds[3:] == ["item"]
        r.add("net::connection::Connection::write_array", "'*', decimal(items.len()), CRLF, then the items", good, short_span(ab.span), "" if good else "%s" % [(k, x if isinstance(x, (str, bytes)) else origin_str(x)) for k, x in seq])
        # every item: the loop over items calls write_single_value with the loop variable
        nx = calls_in([ab], "std::iter::Iterator::next")
        it_ok = False
        for _, nb, nt in nx:
            o = arg_origin(ab, nt, 0)
            is_items = lambda y: y[0] in ("arg", "var", "field", "variant", "upvar") and ((access_path(y) or "") == "items" or (access_path(y) or "").endswith("<Array>.0"))
            if ("items" in origin_str(o) or "<Array>.0" in origin_str(o) or origin_mentions(o, is_items)) and not origin_mentions(o, lambda y: y[0] == "call" and y[1] and y[1].split("::")[-1] in ("skip", "take", "rev", "step_by", "filter")):
                it_ok = True
        r.add("net::connection::Connection::write_array", "iterates over all items in order", it_ok, short_span(ab.span))
    # write_decimal: the plain decimal of `value`, exactly the bytes that were formatted
    dfam = prog.families.get(next((r_ for r_ in prog.families if strip_generics(r_) == "net::connection::Connection::write_decimal"), None), [])
    db = [x for x in dfam if x.coroutine and not getattr(x, "spliced", False)]
    if db:
        db = db[0]
        fn = "net::connection::Connection::write_decimal"
        notdbg = lambda lst: [(x_, bb_, t_) for x_, bb_, t_ in lst if "macro:debug_assert" not in (t_.get("fn_exp") or "") + (t_.get("exp") or "")]
        disp = notdbg(calls_in([db], "core::fmt::rt::Argument::new_display"))
        others = calls_in([db], "core::fmt::rt::Argument::new_debug", "core::fmt::rt::Argument::new_lower_hex", "core::fmt::rt::Argument::new_upper_hex", "core::fmt::rt::Argument::new_octal", "core::fmt::rt::Argument::new_binary", "core::fmt::rt::Argument::new_lower_exp", "core::fmt::rt::Argument::new_upper_exp")
        tm = [arg_origin(db, t, 0) for _, bb, t in notdbg(calls_in([db], "std::fmt::Arguments::new"))]
        from k3 import _lit_from_display

        tbytes = [const_bytes(o) or _lit_from_display(peel(o)[1].get("v")) if peel(o)[0] == "const" else None for o in tm]
        wa = calls_in([db], "tokio::io::AsyncWriteExt::write_all")
        ps = notdbg(calls_in([db], "std::io::Cursor::position"))
        if len(disp) == 1 and len(tm) == 1 and len(wa) == 1 and len(ps) == 1 and not others:
            good = access_path(arg_origin(db, disp[0][2], 0)) == "value" and tbytes[0] == b"\xc0\x00"
            r.add(fn, "formats `value` with a bare `{}`", good, where(db, disp[0][1]), "template %r of %s" % (tbytes[0], origin_str(arg_origin(db, disp[0][2], 0))))
            o = peel(arg_origin(db, wa[0][2], 1))
            good = False
            if o[0] == "call" and o[1].endswith("Index::index") and len(o[2]) == 2:
                rng = peel(o[2][1])
                src = peel(o[2][0])
                if rng[0] == "agg" and (rng[2] or "").endswith("RangeTo") and src[0] == "call" and src[1].endswith("Cursor::get_ref"):
                    end = list(rng[4].values())[0]
                    good = bool(origin_mentions(end, lambda y: y[0] == "call" and y[3] == (db.path, ps[0][1])))
                    # the cursor that was formatted into is the one that is sent
                    wf = calls_in([db], "std::io::Write::write_fmt")
                    good = good and len(wf) == 1 and access_path(arg_origin(db, wf[0][2], 0)) == access_path(src[2][0]) == access_path(arg_origin(db, ps[0][2], 0))
            r.add(fn, "sends exactly the formatted bytes: buf[..position]", good, where(db, wa[0][1]), origin_str(o)[:120])
        else:
            sends = [arg_origin(db, t, 1) for _, bb, t in wa]
            good = len(sends) == 1 and bool(origin_mentions(sends[0], lambda y: y[0] == "call" and y[1].split("::")[-1] in ("to_string", "format"))) and bool(origin_mentions(sends[0], lambda y: y[0] in ("arg", "upvar") and y[1] == "value")) and not others
            if good:
                r.add(fn, "sends the decimal string of `value`", True, short_span(db.span))
            else:
                r.unrec(fn, "decimal formatting", short_span(db.span), "neither write!(cursor, \"{}\", value) + buf[..position] nor value.to_string()")
    return r


def b1_server_binary_lifetime(ctx):
    r = RuleResult("B1", "the server binary keeps the store open while it serves: in svr's main the Bitcask returned by Config::open is bound to a local that is not dropped (Bitcask::drop closes the store) on any path from opening it to the completion of `server.run().await`, and the server is given a handle of that same store", floor=3)
    prog = ctx.extra.get("bin:svr")
    if prog is None:
        r.unrec("svr::main", "binary facts", "src/bin/svr.rs", "the svr binary was not extracted")
        return r
    import asyncx

    cands = [b for b in prog.bodies.values() if b.coroutine and strip_generics(b.root) == "main"]
    opens = calls_in(cands, "storage::bitcask::Config::open")
    runs = calls_in(cands, "net::Server::run", "net::server::Server::run")
    servers = calls_in(cands, "net::Config::async_server", "net::config::Config::async_server")
    if len(opens) != 1 or len(runs) != 1 or len(servers) != 1 or not (opens[0][0] is runs[0][0] is servers[0][0]):
        r.unrec("svr::main", "open / async_server / run", "src/bin/svr.rs", "open ×%d, async_server ×%d, run ×%d in main's async block" % (len(opens), len(servers), len(runs)))
        return r
    b, obb, ot = opens[0]
    rbb = runs[0][1]
    sbb, st = servers[0][1], servers[0][2]
    f = "svr::main"
    # the local holding the store
    ho = peel(arg_origin(b, st, 1))
    store = None
    if ho[0] == "call" and ho[1].endswith("Bitcask::get_handle") and ho[2]:
        so = ho[2][0]
        good = bool(origin_mentions(so, lambda y: y[0] == "call" and y[3] == (b.path, obb)))
        pv = so
        while pv[0] == "var" and pv[3] is not None and pv[3][0] == "var":
            pv = pv[3]
        if so[0] == "var":
            store = so[1]
    else:
        good = False
    r.add(f, "the server's handle is get_handle() of the store that was opened", good, where(b, sbb), origin_str(ho)[:120])
    done = asyncx.ready_edges(b, lambda fo: bool(origin_mentions(fo, lambda y: y[0] == "call" and y[3] == (b.path, rbb))))
    r.add(f, "`server.run()` is awaited", bool(done), where(b, rbb))
    if not done:
        return r
    blocked = lambda e: e.kind in ("unwind", "ydrop")
    fwd = reach(b, [ot["t"]], blocked_edges=lambda e: blocked(e) or (e.src, e.dst) in done)
    # blocks from which the completion of run() is still reachable
    targets = {x[0] for x in done}
    back = set()
    for x in fwd:
        if reach(b, [x], blocked_edges=blocked) & targets:
            back.add(x)
    bad = []
    for x in sorted(back | targets):
        t = b.term(x)
        if t["k"] == "drop" and "storage::bitcask::Bitcask" in t["ty"].split("<")[0] and not b.drop_is_noop(x) and not b.blocks[x]["cleanup"]:
            bad.append(x)
        if t["k"] == "call" and is_call_to(t, "std::mem::drop") and "Bitcask" in (t.get("arg_tys") or [""])[0]:
            bad.append(x)
    # a temporary store (never bound) is dropped at the end of its statement: then the typed local is a temp
    tmp = store is not None and not b.locals[store].get("user")
    r.add(f, "the store is not dropped before `server.run().await` completes", not bad and not tmp, where(b, bad[0]) if bad else where(b, obb), "" if not bad else "Bitcask dropped at %s while the server is still to run" % where(b, bad[0]))
    return r


def _arm_returns(b, dst):
    return [(c, ret_origin(b, d)) for c, d, rb in ret_classes(b, dst, lambda e: e.kind in ("unwind", "ydrop"))]


def _ok_payload(c, o):
    """payload origin of Ok(x) (None when not an Ok aggregate)"""
    if c != "ok" or o is None:
        return None
    o = peel_var(o)
    if o[0] != "agg" or not o[4]:
        return ("agg", "tuple", None, None, {})
    return list(o[4].values())[0]


def s19_value_transparency(ctx):
    r = RuleResult("S19", "values travel as the bytes received: Parser::get_bytes hands out the BulkString payload itself; `TryFrom<Parser> for Set` takes the value from get_bytes (never from the UTF-8 checking get_string) and the key from the argument before it; Set/Get/Del::apply call the store with the command's own key (and value), Get replies with the bytes the store returned", floor=7)
    prog = ctx.prog
    gb = prog.one("net::command::Parser::get_bytes")
    nx = calls_in([gb], "std::iter::Iterator::next")
    pay = [_ok_payload(c, o) for c, o in _arm_returns(gb, 0) if c == "ok"]
    somes = []
    for o in pay:
        o = peel_var(o) if o else o
        if o and o[0] == "agg" and o[3] == "Some":
            somes.append(list(o[4].values())[0])
    good = len(nx) == 1 and bool(somes) and all(not origin_mentions(s, lambda y: y[0] == "call" and y[3] != (gb.path, nx[0][1])) and bool(origin_mentions(s, lambda y: y[0] == "variant" and y[2] == "BulkString")) for s in somes)
    r.add(fam_name(gb), "Ok(Some(x)): x is the BulkString payload, untransformed", good, short_span(gb.span), "; ".join(origin_str(s) for s in somes)[:160])
    name = "net::command::<impl std::convert::TryFrom<net::command::Parser> for net::command::set::Set>::try_from"
    c = [b for b in shipped_bodies(prog) if b.path == name]
    if len(c) != 1:
        r.unrec("net::command::set::Set", "TryFrom<Parser>", "src/net/command.rs", "found %d" % len(c))
    else:
        b = c[0]
        f = "net::command::set::Set::try_from"
        news = calls_in([b], "net::command::set::Set::new")
        if len(news) != 1:
            r.unrec(f, "Set::new ×%d" % len(news), short_span(b.span), "expected one")
        else:
            _, nbb, nt = news[0]
            ko, vo = arg_origin(b, nt, 0), arg_origin(b, nt, 1)
            is_p = lambda y: y[0] == "call" and y[1].startswith("net::command::Parser::get_")
            kc = origin_mentions(ko, is_p)
            vc = origin_mentions(vo, is_p)
            good = len(vc) == 1 and vc[0][1].endswith("get_bytes") and not origin_mentions(vo, lambda y: y[0] == "call" and ("utf8" in y[1].lower() or y[1].endswith("get_string")))
            r.add(f, "the value comes from Parser::get_bytes", good, where(b, nbb), origin_str(vc[0])[:80] if vc else "no parser call feeds the value")
            good = len(kc) == 1 and len(vc) == 1 and kc[0][3] != vc[0][3] and vc[0][3][1] in reach(b, [b.term(kc[0][3][1])["t"]], blocked_edges=lambda e: e.kind == "unwind")
            r.add(f, "the key is the argument read before the value", good, where(b, nbb))
    for cmd, meth, args in (("set::Set", "set", ["self.key", "self.value"]), ("get::Get", "get", ["self.key"]), ("del::Del", "del", None)):
        fam = prog.family("net::command::%s::apply" % cmd)
        cs = calls_in(fam, "storage::KeyValueStorage::%s" % meth)
        f = "net::command::%s::apply" % cmd
        if len(cs) != 1:
            r.unrec(f, "storage.%s ×%d" % (meth, len(cs)), short_span(fam[0].span), "expected one call")
            continue
        x, bb, t = cs[0]
        got = [resolved_access_path(prog, x, arg_origin(x, t, i)) for i in range(1, len(t["args"]))]
        if args is not None:
            r.add(f, "storage.%s(%s)" % (meth, ", ".join(args)), got == args, where(x, bb), "called with %s" % got)
        else:
            # DEL: every key of self.keys, each deleted in turn — the key passed is the loop's item
            o = arg_origin(x, t, 1)
            good = bool(origin_mentions(o, lambda y: y[0] == "call" and y[1].endswith("Iterator::next"))) or "key" in (got[0] or "")
            its = [arg_origin(y, tt, 0) for y, b2, tt in calls_in(fam, "std::iter::IntoIterator::into_iter", "std::iter::Iterator::next")]
            over = any("keys" in origin_str(i) for i in its)
            skip = any(origin_mentions(i, lambda y: y[0] == "call" and y[1].split("::")[-1] in ("skip", "take", "step_by", "filter", "rev", "dedup")) for i in its)
            r.add(f, "storage.del(k) for every k of self.keys", good and over and not skip, where(x, bb), "called with %s" % got)
    # GET reply carries what the store returned
    fam = prog.family("net::command::get::Get::apply")
    aggs = []
    for x in fam:
        for bb in x.live_blocks():
            for st in x.blocks[bb]["stmts"]:
                if st["k"] == "assign" and st["rv"]["k"] == "agg" and st["rv"]["ak"] == "adt" and st["rv"]["adt"].endswith("Frame") and st["rv"]["variant"] == "BulkString":
                    aggs.append((x, bb, x.origin_rvalue(st["rv"])))
    good = len(aggs) == 1 and bool(origin_mentions(aggs[0][2], lambda y: y[0] == "variant" and y[2] == "Some")) and not origin_mentions(list(aggs[0][2][4].values())[0], lambda y: y[0] == "call" and y[1].split("::")[-1] not in ("poll", "branch", "map_err", "spawn_blocking", "into_future", "get_context", "new_unchecked"))
    r.add("net::command::get::Get::apply", "BulkString reply = the Some payload of the store's answer, untransformed", good, where(aggs[0][0], aggs[0][1]) if aggs else short_span(fam[0].span), origin_str(aggs[0][2])[:160] if aggs else "no BulkString reply")
    return r


def s20_client_response_mapping(ctx):
    r = RuleResult("S20", "the client maps replies as the protocol says: it sends its request frame before it reads one response; GET: BulkString(b) ⇒ Some(b), Null ⇒ None; SET: SimpleString \"OK\" ⇒ (); DEL: Integer(n) ⇒ n; any other reply, an Error frame and an end of stream are errors", floor=9)
    prog = ctx.prog
    want = {
        "get": {"BulkString": "some-payload", "Null": "none"},
        "set": {"SimpleString": "unit-if-ok"},
        "del": {"Integer": "payload"},
    }
    import inline
    # the client's private helpers (read_response, …) are written out into each method: however the send / receive /
    # classify steps are split over helpers, the rule reads them as one body
    helpers = set()
    for x in shipped_bodies(prog):
        if x.name.startswith("net::client::") and x.def_kind in ("Fn", "AssocFn"):
            sig = prog.fnsigs.get(x.path) or {}
            if not sig.get("exported"):
                helpers.add("::".join(strip_generics(x.name).split("::")[-2:]))
    for m, table in want.items():
        fam = prog.family("net::client::Client::%s" % m)
        f = "net::client::Client::%s" % m
        views = [inline.expanded_view(prog, x, helpers) for x in fam if x.coroutine]
        views = [v for v in views if calls_in([v], "net::connection::Connection::read_frame", "net::connection::Connection::write_frame")]
        if len(views) != 1:
            r.unrec(f, "async body that talks to the connection", short_span(fam[0].span), "found %d" % len(views))
            continue
        b = views[0]
        rr = calls_in([b], "net::connection::Connection::read_frame")
        wf = calls_in([b], "net::connection::Connection::write_frame")
        if len(rr) != 1 or len(wf) != 1:
            r.unrec(f, "write_frame ×%d / read_frame ×%d" % (len(wf), len(rr)), short_span(fam[0].span), "expected one of each")
            continue
        _, rbb, rt = rr[0]
        wbb = wf[0][1]
        rsite = (b.path, rbb)
        from_read = lambda o: bool(origin_mentions(o, lambda x: x[0] == "call" and x[3] == rsite))
        # request first: the read is not reachable without passing write_frame
        no_w = reach(b, [0], blocked_edges=lambda e: e.kind in ("unwind", "ydrop"), blocked_blocks={wbb})
        r.add(f, "the request is written before the response is read", rbb not in no_w, where(b, rbb))
        after = reach(b, [rbb], blocked_edges=lambda e: e.kind in ("unwind", "ydrop"))
        sw = None
        eos = err_arm = None
        for bb in sorted(b.live_blocks()):
            info = b.switch_info(bb)
            if not info or info["kind"] != "variant" or bb not in after or ("macro" in b.term(bb).get("exp", "") and "matches" not in b.term(bb).get("exp", "")):
                continue
            labs_all = set(sum(info["arms"].values(), []))
            if labs_all == {"None", "Some"} and from_read(info["on"]) and eos is None:
                for e in b.succ[bb]:
                    if info["arms"].get(e.dst) == ["None"]:
                        rs = _arm_returns(b, e.dst)
                        eos = (bb, bool(rs) and all(c == "err" for c, o in rs))
            if "Error" in labs_all and "BulkString" in labs_all and from_read(info["on"]):
                for e in b.succ[bb]:
                    if info["arms"].get(e.dst) == ["Error"] and err_arm is None:
                        rs = _arm_returns(b, e.dst)
                        err_arm = (bb, bool(rs) and all(c == "err" for c, o in rs))
            if sw is None and labs_all >= {"Integer", "Null", "Array"} and from_read(info["on"]) and any(len(l) == 1 and l[0] in table for l in info["arms"].values()):
                sw = (bb, info)
        r.add(f, "end of stream ⇒ Err", eos is not None and eos[1], where(b, eos[0] if eos else rbb))
        r.add(f, "Error frame ⇒ Err", err_arm is not None and err_arm[1], where(b, err_arm[0] if err_arm else rbb))
        if sw is None:
            r.unrec(f, "match on the response", where(b, rbb), "not found")
            continue
        bb, info = sw
        for e in b.succ[bb]:
            labs = info["arms"].get(e.dst, [])
            if not labs:
                continue
            rs = _arm_returns(b, e.dst)
            if len(labs) == 1 and labs[0] in table:
                kind = table[labs[0]]
                pl = "<%s>.0" % labs[0]
                if kind == "some-payload":
                    good = bool(rs) and all(c == "ok" and (lambda o: o is not None and peel_var(o)[0] == "agg" and peel_var(o)[3] == "Some" and (access_path(list(peel_var(o)[4].values())[0]) or "").endswith(pl) and from_read(o))(_ok_payload(c, o)) for c, o in rs)
                elif kind == "none":
                    good = bool(rs) and all(c == "ok" and (lambda o: o is not None and peel_var(o)[0] == "agg" and peel_var(o)[3] == "None")(_ok_payload(c, o)) for c, o in rs)
                elif kind == "payload":
                    good = bool(rs) and all(c == "ok" and (access_path(_ok_payload(c, o)) or "").endswith(pl) and from_read(_ok_payload(c, o)) for c, o in rs)
                else:
                    # Ok(()) only on the true edge of eq(payload, "OK")
                    eqs = [(x, t) for _, x, t in calls_in([b], "std::cmp::PartialEq::eq") if x in reach(b, [e.dst], blocked_edges=lambda z: z.kind in ("unwind", "ydrop"))]
                    good = False
                    if len(eqs) == 1:
                        x, t = eqs[0]
                        a0, a1 = arg_origin(b, t, 0), arg_origin(b, t, 1)
                        lit = [const_bytes(c2) for a in (a0, a1) for c2 in origin_mentions(a, lambda y: y[0] == "const")]
                        si = b.switch_info(t["t"])
                        if si and si["kind"] == "bool" and b"OK" in lit and any((access_path(a) or "").endswith(pl) for a in (a0, a1)):
                            good = True
                            for e2 in b.succ[t["t"]]:
                                rs2 = _arm_returns(b, e2.dst)
                                if si["arms"].get(e2.dst) == [True]:
                                    good = good and bool(rs2) and all(c == "ok" for c, o in rs2)
                                else:
                                    good = good and bool(rs2) and all(c == "err" for c, o in rs2)
                r.add(f, "%s ⇒ %s" % (labs[0], {"some-payload": "Ok(Some(payload))", "none": "Ok(None)", "payload": "Ok(payload)", "unit-if-ok": "Ok(()) exactly when it equals \"OK\""}[kind]), good, where(b, bb), "; ".join("%s %s" % (c, origin_str(o)[:60] if o else "") for c, o in rs)[:200])
            else:
                good = bool(rs) and all(c == "err" for c, o in rs) and not (set(labs) & set(table))
                r.add(f, "any other reply ⇒ Err", good, where(b, bb), "%s: %s" % ("/".join(labs), "; ".join(c for c, o in rs)))
    return r


def s21_forwarding(ctx):
    r = RuleResult("S21", "the thin forwarding layers forward: `impl KeyValueStorage for Handle` maps set→put(key, value), get→get(key), del→delete(key) and returns that result; Handle::get returns what the pooled reader's get(key) returned (or Err(Closed)); PooledReader::get forwards to Reader::get(key); Reader::get returns the `value` of the record it read, or None when the key is not in the index; Bitcask::get_handle returns a clone of the store's own handle", floor=6)
    prog = ctx.prog
    sb = shipped_bodies(prog)

    def fwd(body_name, callee, args, extra_ok=()):
        c = [b for b in sb if b.name == body_name]
        if len(c) != 1:
            r.unrec(body_name, "body", "src/storage/bitcask.rs", "found %d" % len(c))
            return
        b = c[0]
        cs = calls_in([b], callee)
        rs = [(cl, ret_origin(b, d)) for cl, d, rb in ret_classes(b, 0, lambda e: e.kind == "unwind")]
        good = len(cs) == 1 and [arg_path(b, cs[0][2], i) for i in range(len(cs[0][2]["args"]))][1:] == args
        if good:
            site = (b.path, cs[0][1])
            for cl, o in rs:
                o2 = peel_var(o) if o is not None else None
                if o2 is not None and o2[0] == "call" and o2[3] == site:
                    continue
                if cl == "err" and o2 is not None and any(x in origin_str(o2) for x in extra_ok):
                    continue
                good = False
        r.add(strip_generics(body_name), "returns %s(%s) as is" % (callee.split("::")[-1], ", ".join(args)), good, short_span(b.span), "; ".join("%s %s" % (cl, origin_str(o)[:60] if o else "") for cl, o in rs)[:200])

    fwd("<storage::bitcask::Handle as storage::KeyValueStorage>::set", "storage::bitcask::Handle::put", ["key", "value"])
    fwd("<storage::bitcask::Handle as storage::KeyValueStorage>::get", "storage::bitcask::Handle::get", ["key"])
    fwd("<storage::bitcask::Handle as storage::KeyValueStorage>::del", "storage::bitcask::Handle::delete", ["key"])
    hg = [b for b in sb if b.name == "storage::bitcask::Handle::get"]
    if len(hg) == 1:
        b = hg[0]
        rs = [(cl, ret_origin(b, d)) for cl, d, rb in ret_classes(b, 0, lambda e: e.kind == "unwind")]
        good = bool(rs)
        n_fw = 0
        for cl, o in rs:
            o2 = peel_var(o) if o is not None else None
            if o2 is not None and o2[0] == "call" and o2[1].split("::")[-1] == "get" and ("Reader" in o2[1]) and len(o2[2]) == 2 and access_path(o2[2][1]) == "key":
                n_fw += 1
            elif cl == "err" and returns_closed_error(b, o2):
                pass
            else:
                good = False
        r.add("storage::bitcask::Handle::get", "returns reader.get(key) as is (or Err(Closed))", good and n_fw >= 1, short_span(b.span), "; ".join("%s %s" % (cl, origin_str(o)[:60] if o else "") for cl, o in rs)[:200])
    else:
        r.unrec("storage::bitcask::Handle::get", "body", "src/storage/bitcask.rs", "found %d" % len(hg))
    pg = [b for b in sb if b.name == "storage::bitcask::PooledReader::get"]
    if pg:
        fwd("storage::bitcask::PooledReader::get", "storage::bitcask::Reader::get", ["key"])
    rg = [b for b in sb if b.name == "storage::bitcask::Reader::get"]
    if len(rg) == 1:
        b = rg[0]
        rd = calls_in([b], "storage::bitcask::log::LogDir::read")
        kg = calls_in([b], "dashmap::DashMap::get")
        rs = [(cl, ret_origin(b, d)) for cl, d, rb in ret_classes(b, 0, lambda e: e.kind == "unwind")]
        good = len(rd) == 1 and len(kg) == 1 and access_path(arg_origin(b, kg[0][2], 1)) == "key"
        saw_val = saw_none = False
        for cl, o in rs:
            if cl == "err":
                continue
            pl = _ok_payload(cl, o)
            p2 = peel_var(pl) if pl is not None else None
            if p2 is not None and p2[0] == "agg" and p2[3] == "None":
                saw_none = True
            elif pl is not None and (access_path(pl, through_try=True) or "").endswith(".value") and rd and origin_mentions(pl, lambda y: y[0] == "call" and y[3] == (b.path, rd[0][1])):
                saw_val = True
            else:
                good = False
        # Ok(None) only on the None edge of keydir.get
        if good and kg:
            none_e = set()
            for bb in b.live_blocks():
                info = b.switch_info(bb)
                if info and info["kind"] == "variant" and origin_mentions(info["on"], lambda y: y[0] == "call" and y[3] == (b.path, kg[0][1])):
                    for e in b.succ[bb]:
                        if info["arms"].get(e.dst) == ["None"]:
                            none_e.add((e.src, e.dst))
            stray = [1 for cl, d, rb in ret_classes(b, 0, lambda e: e.kind == "unwind" or (e.src, e.dst) in none_e) if (lambda pl: pl is not None and peel_var(pl)[0] == "agg" and peel_var(pl)[3] == "None")(_ok_payload(cl, ret_origin(b, d)))]
            good = good and bool(none_e) and not stray
        r.add("storage::bitcask::Reader::get", "key in index ⇒ Ok(record.value); not in index ⇒ Ok(None)", good and saw_val and saw_none, short_span(b.span), "; ".join("%s %s" % (cl, origin_str(o)[:60] if o else "") for cl, o in rs)[:200])
    else:
        r.unrec("storage::bitcask::Reader::get", "body", "src/storage/bitcask.rs", "found %d" % len(rg))
    gh = [b for b in sb if b.name == "storage::bitcask::Bitcask::get_handle"]
    if len(gh) == 1:
        b = gh[0]
        rs = [ret_origin(b, d) for cl, d, rb in ret_classes(b, 0, lambda e: e.kind == "unwind")]
        good = bool(rs) and all(o is not None and access_path(o) == "self.handle" for o in rs)
        r.add("storage::bitcask::Bitcask::get_handle", "returns a clone of self.handle", good, short_span(b.span))
    else:
        r.unrec("storage::bitcask::Bitcask::get_handle", "body", "src/storage/bitcask.rs", "found %d" % len(gh))
    return r


def s22_one_codec(ctx):
    r = RuleResult("S22", "one codec: every place that encodes or decodes a log record (LogWriter::append, LogIterator::next, LogReader::at) uses bincode with the same configuration — today the default-configuration entry points serialize_into / deserialize_from / deserialize; a size limit, a different integer encoding or byte order on one side makes a record that was written unreadable", floor=3)
    prog = ctx.prog
    PLAIN = {"bincode::serialize_into", "bincode::serialize", "bincode::deserialize_from", "bincode::deserialize", "bincode::serialized_size"}
    sites = []
    for b in shipped_bodies(prog):
        live = b.live_blocks()
        for bi, t in b.calls():
            if bi not in live:
                continue
            cn = strip_generics(t.get("callee")) or ""
            if not cn.startswith("bincode::"):
                continue
            last = cn.split("::")[-1]
            if cn in PLAIN:
                sites.append((b, bi, last, ()))
            elif last in ("serialize_into", "serialize", "deserialize_from", "deserialize", "serialized_size", "deserialize_from_custom", "deserialize_seed"):
                # Options::<method>(options, …): the configuration is the chain that built `options`
                chain = sorted({y[1].split("::")[-1] for y in origin_mentions(arg_origin(b, t, 0), lambda y: y[0] == "call" and y[1].startswith("bincode::"))})
                sites.append((b, bi, last, tuple(chain)))
    sigs = {s[3] for s in sites}
    for b, bi, last, chain in sites:
        good = len(sigs) == 1
        r.add(fam_name(b), "%s uses the configuration every other site uses" % last, good, where(b, bi), "default configuration" if not chain else "configured by %s" % "/".join(chain))
    roles = {s[2] for s in sites}
    r.add("storage::bitcask::log", "records are both written and read through bincode", any(x.startswith("serialize") for x in roles) and any(x.startswith("deserialize") for x in roles), "src/storage/bitcask/log.rs", "entry points: %s" % sorted(roles))
    return r


def p21_new_active_datafile(ctx):
    r = RuleResult("P21", "Writer::new_active_datafile(fileid) always switches: every Ok return created the data file of `fileid` (log::create(datafile_name(path, fileid))), made it the writer, set active_fileid = fileid and written_bytes = 0 — there is no 'nothing to do' return, callers (rollover, merge) rely on appends going to the new id afterwards", floor=4)
    prog = ctx.prog
    b = prog.one("storage::bitcask::Writer::new_active_datafile")
    f = fam_name(b)
    cr = calls_in([b], "storage::bitcask::log::create")
    if len(cr) != 1:
        r.unrec(f, "log::create ×%d" % len(cr), short_span(b.span), "expected one")
        return r
    _, cbb, ct = cr[0]
    o = peel(arg_origin(b, ct, 0))
    def names_fileid(x):
        if x == ("arg", "fileid"):
            return True
        if access_path(x) == "self.active_fileid":
            # the field, when it was set to `fileid` before the create on every path
            sets = []
            for bb in b.live_blocks():
                for st in b.blocks[bb]["stmts"]:
                    if st["k"] == "assign" and st["pl"]["p"] and st["pl"]["p"][-1][0] == "f" and st["pl"]["p"][-1][2] == "active_fileid":
                        sets.append((bb, b.origin_rvalue(st["rv"])))
            if sets and all(so == ("arg", "fileid") for _, so in sets):
                return cbb not in reach(b, [0], blocked_edges=lambda e: e.kind == "unwind", blocked_blocks={bb for bb, _ in sets})
        return False

    good = o[0] == "call" and o[1].endswith("datafile_name") and len(o[2]) == 2 and names_fileid(o[2][1]) and (access_path(o[2][0]) or "").startswith("self.ctx.conf.path")
    r.add(f, "creates datafile_name(conf.path, fileid)", good, where(b, cbb), origin_str(o)[:120])
    # field assignments
    assigns = {}
    for bb in sorted(b.live_blocks()):
        for st in b.blocks[bb]["stmts"]:
            if st["k"] == "assign" and st["pl"]["p"] and st["pl"]["p"][-1][0] == "f" and access_path(b.origin_place({"l": st["pl"]["l"], "p": st["pl"]["p"][:-1]})) == "self":
                assigns.setdefault(st["pl"]["p"][-1][2], []).append((bb, b.origin_rvalue(st["rv"])))
        t = b.term(bb)
        if t["k"] == "call" and t["dest"]["p"] and t["dest"]["p"][-1][0] == "f":
            assigns.setdefault(t["dest"]["p"][-1][2], []).append((bb, b.origin_call(bb)))
    want = {
        "active_fileid": lambda o: o == ("arg", "fileid"),
        "writer": lambda o: bool(origin_mentions(o, lambda y: y[0] == "call" and y[3] == (b.path, cbb))),
        "written_bytes": lambda o: const_int(o) == 0,
    }
    # the block that makes the result Ok (all returns share one return block)
    oks = [d[0] for c, d, rb in ret_classes(b, 0, lambda e: e.kind == "unwind") if c == "ok" and d is not None]
    for fld, pred in want.items():
        a = assigns.get(fld, [])
        good = len(a) >= 1 and all(pred(o) for bb, o in a)
        # every Ok return is preceded by the assignment: no path from entry to an Ok return avoids all assigning blocks
        if good:
            avoid = reach(b, [0], blocked_edges=lambda e: e.kind == "unwind", blocked_blocks={bb for bb, o in a})
            good = not any(rb in avoid for rb in oks) and bool(oks)
        r.add(f, "every Ok return assigned self.%s %s" % (fld, {"active_fileid": "= fileid", "writer": "= the writer of the created file", "written_bytes": "= 0"}[fld]), good, short_span(b.span), "; ".join(origin_str(o)[:60] for bb, o in a))
    return r


def s2c_unconditional_counting(ctx):
    r = RuleResult("S2c", "every record is counted where it lies, unconditionally: in Writer::write the appended record reaches add_live (value) / add_dead (tombstone) on every path to Ok; in the recovery scanner every replayed record reaches keydir.insert + add_live resp. keydir.remove + add_dead on every path to the next record — the count does not depend on whether the key was present (a tombstone for an absent key is still a dead record in its file)", floor=6)
    import k3

    prog = ctx.prog
    blocked = lambda e: e.kind == "unwind"

    def must_pass(b, start, targets, ends):
        if start in targets:
            return True
        return not (reach(b, [start], blocked_edges=blocked, blocked_blocks=targets) & ends)

    wr = prog.one("storage::bitcask::Writer::write")
    wbb, some_dst, none_dst = k3.written_value_switch(wr)
    if wbb is None:
        r.unrec(fam_name(wr), "test of the written value (Some/None)", short_span(wr.span), "not found")
    else:
        oks = {d[0] for c, d, rb in ret_classes(wr, 0, blocked) if c == "ok" and d is not None}
        for dst, want in ((some_dst, "add_live"), (none_dst, "add_dead")):
            tg = {bb for _, bb, t in calls_in([wr], "storage::bitcask::log::LogStatistics::%s" % want)}
            good = bool(dst) and bool(tg) and bool(oks) and must_pass(wr, dst[0], tg, oks)
            r.add(fam_name(wr), "%s record ⇒ %s on every path to Ok" % ("live" if want == "add_live" else "tombstone", want), good, where(wr, wbb))
    sc = [x for x in prog.family("storage::bitcask::populate_keydir_with_datafile") if calls_in([x], "storage::bitcask::log::LogIterator::next")]
    if len(sc) != 1:
        r.unrec("storage::bitcask::populate_keydir_with_datafile", "scanner body", "src/storage/bitcask.rs", "not found")
        return r
    sc = sc[0]
    f = "storage::bitcask::populate_keydir_with_datafile"
    nxt = {bb for _, bb, t in calls_in([sc], "storage::bitcask::log::LogIterator::next")}
    sbb, sinfo = k3._value_switch(sc, lambda i: i["kind"] == "variant" and origin_str(i["on"]).endswith(".value") and set(sum(i["arms"].values(), [])) >= {"Some", "None"})
    if sbb is None:
        r.unrec(f, "match on the scanned entry's value", short_span(sc.span), "not found")
        return r
    for lab, cnt, idx in (("Some", "add_live", "insert"), ("None", "add_dead", "remove")):
        dst = [e.dst for e in sc.succ[sbb] if sinfo["arms"].get(e.dst) == [lab]]
        tg = {bb for _, bb, t in calls_in([sc], "storage::bitcask::log::LogStatistics::%s" % cnt)}
        ti = {bb for _, bb, t in calls_in([sc], "dashmap::DashMap::%s" % idx) if (arg_path(sc, t, 0) or "").endswith("keydir")}
        r.add(f, "%s record ⇒ %s on every path to the next record" % ("live" if lab == "Some" else "tombstone", cnt), bool(dst) and bool(tg) and must_pass(sc, dst[0], tg, nxt), where(sc, sbb), "" if tg else "no %s call" % cnt)
        r.add(f, "%s record ⇒ keydir.%s on every path to the next record" % ("live" if lab == "Some" else "tombstone", idx), bool(dst) and bool(ti) and must_pass(sc, dst[0], ti, nxt), where(sc, sbb), "" if ti else "no keydir.%s call" % idx)
        # counted on the entry of the file being scanned, with the record's own length for dead records
        for bb in sorted(tg):
            t = sc.term(bb)
            o = arg_origin(sc, t, 0)
            ents = origin_mentions(o, lambda x: x[0] == "call" and x[1] == "dashmap::DashMap::entry")
            keyed = len(ents) == 1 and len(ents[0][2]) > 1 and access_path(ents[0][2][1]) == "fileid"
            r.add(f, "%s is booked on the scanned file's own entry" % cnt, keyed, where(sc, bb), origin_str(ents[0][2][1]) if ents and len(ents[0][2]) > 1 else "no stats.entry(..) found")
    return r


def s7b_merge_counts_in_output(ctx):
    r = RuleResult("S7b", "Writer::merge books each copied entry as live on the output it was copied into: the id variable that keys stats.entry(..).add_live() is the one that named the output at the copy and is not reassigned (rollover) between that entry's copy and its booking, and it is the same variable the index entry is re-pointed to", floor=3)
    prog = ctx.prog
    fam = prog.family("storage::bitcask::Writer::merge")
    cps = calls_in(fam, "storage::bitcask::log::LogDir::copy")
    als = calls_in(fam, "storage::bitcask::log::LogStatistics::add_live")
    f = "storage::bitcask::Writer::merge"
    if len(cps) != 1 or len(als) != 1 or cps[0][0] is not als[0][0]:
        r.unrec(f, "copy ×%d / add_live ×%d" % (len(cps), len(als)), short_span(fam[0].span), "expected one of each in one body")
        return r
    b, cbb, ct = cps[0]
    abb, at = als[0][1], als[0][2]
    ents = origin_mentions(arg_origin(b, at, 0), lambda x: x[0] == "call" and x[1] == "dashmap::DashMap::entry")
    if len(ents) != 1 or len(ents[0][2]) < 2:
        r.unrec(f, "stats.entry(..) feeding add_live", where(b, abb), "not found")
        return r
    ebb = ents[0][3][1]
    ko = ents[0][2][1]
    if ko[0] != "var":
        # `stats.entry(entry.fileid)` right after `entry.fileid = id`: keyed by id
        import k2m
        ko = k2m._model(ctx).forward_entry_reads(ko, ebb)
    kv = peel_var(ko) if ko[0] != "var" else ko
    if ko[0] != "var":
        r.unrec(f, "key of stats.entry(..)", where(b, ebb), "is %s, not a local variable" % origin_str(ko))
        return r
    L = ko[1]
    blocked = lambda e: e.kind == "unwind"
    after = reach(b, [b.term(cbb)["t"]], blocked_edges=blocked, blocked_blocks={cbb})
    r.add(f, "add_live follows the copy in the same iteration", ebb in after, where(b, abb))
    bad = []
    for (dbb, si, whole) in b.defs.get(L, []):
        if dbb in after and ebb in reach(b, [dbb], blocked_edges=blocked, blocked_blocks={cbb}) and dbb != ebb:
            bad.append(dbb)
    r.add(f, "the output id is not reassigned between an entry's copy and its booking", not bad, where(b, bad[0]) if bad else where(b, ebb), "" if not bad else "`%s` is reassigned at %s (rollover) before stats.entry(%s).add_live(): the entry is counted in the next output" % (b.local_names.get(L), where(b, bad[0]), b.local_names.get(L)))
    # same variable as the re-pointed index entry
    same = False
    for bb in b.live_blocks():
        for st in b.blocks[bb]["stmts"]:
            if st["k"] == "assign" and st["pl"]["p"] and st["pl"]["p"][-1][0] == "f" and st["pl"]["p"][-1][2] == "fileid":
                o = b.origin_rvalue(st["rv"])
                if o[0] == "var" and o[1] == L:
                    same = True
    r.add(f, "the index entry is re-pointed to the same id variable", same, where(b, ebb))
    return r


# explicit panic sites on the storage operation paths that were read and found unreachable or
# benign: (function, callee) -> reason
N3_REVIEWED = {
    ("storage::bitcask::PooledReader::get", "panic"): "the Option is Some from construction until Drop takes it; get borrows self",
    ("storage::bitcask::Reader::get", "std::cell::RefCell::borrow_mut"): "Reader is used by one thread at a time (popped from the pool) and the borrow ends before get returns; not re-entrant",
    ("storage::bitcask::Writer::merge", "std::cell::RefCell::borrow_mut"): "the Writer is behind the mutex; the borrow is not held across a call that borrows again",
}
N3_PANICKY = ("std::option::Option::unwrap", "std::option::Option::expect", "std::result::Result::unwrap", "std::result::Result::expect", "std::result::Result::unwrap_err", "std::result::Result::expect_err", "std::cell::RefCell::borrow_mut", "std::cell::RefCell::borrow", "std::option::Option::unwrap_unchecked")


def n3_no_new_panic_sites(ctx):
    r = RuleResult("N3", "no unreviewed explicit panic site on the storage operation paths: in every body reachable from Handle::{get, put, delete, merge, sync} every unwrap/expect/RefCell borrow/panic!/unreachable!/assert! written in the source is one of the reviewed sites (table in the rule, one reason each); tracing's own macro expansions are not counted", floor=3)
    prog = ctx.prog
    roots = [prog.one("storage::bitcask::Handle::%s" % m) for m in ("get", "put", "delete", "merge", "sync")]
    bodies = {}
    for b in roots:
        bodies[b.path] = b
    for b, bb, t in transitive_calls(prog, roots):
        bodies[b.path] = b
    seen = set()
    n = 0
    for path in sorted(bodies):
        b = bodies[path]
        if b.test:
            continue
        live = b.live_blocks()
        for bb, t in b.calls():
            if bb not in live or b.blocks[bb]["cleanup"]:
                continue
            cn = strip_generics(t.get("callee")) or ""
            exp = t.get("fn_exp", "") or ""
            kind = None
            if cn in N3_PANICKY:
                kind = cn
            elif cn in ("std::rt::panic_fmt", "core::panicking::panic", "core::panicking::panic_fmt", "core::panicking::unreachable_display", "core::panicking::panic_explicit", "core::panicking::assert_failed", "std::rt::begin_panic"):
                kind = "panic"
            if kind is None:
                continue
            # debug_assert!: the developer's own executable statement of an invariant, compiled into
            # debug builds only; the properties are read for the shipped configuration, where it is
            # not there (an overflow check is different: without it the value silently wraps)
            if "macro:debug_assert" in exp:
                continue
            # the tracing macros (instrument / event!) expand to Option::expect on field iterators
            if "macro:$crate::valueset" in exp or "macro:tracing::" in exp or "attr:tracing::instrument" in exp and kind != "panic":
                continue
            key = (b.name, kind)
            n += 1
            if key in seen:
                continue
            seen.add(key)
            ok = key in N3_REVIEWED
            r.add(b.name, "%s" % kind.split("::")[-1] if kind != "panic" else "panic!/unreachable!/assert!", ok, where(b, bb), N3_REVIEWED.get(key, "a new explicit panic site on a storage operation path: show that it cannot fire for any configuration (cache size 0, empty pool, …) and add it to the reviewed table, or return an error instead"))
    r.note("%d bodies on the operation paths, %d explicit panic sites" % (len(bodies), n))
    return r


def p14b_merge_rollover_test(ctx):
    r = RuleResult("P14b", "Writer::merge rolls its output over on the running offset: the test whose true edge starts a new output compares the local that accumulates the copied lengths (and is reset to 0 per output) with conf.max_file_size, by > or >= — not the length of the single entry, so no output grows past the limit by more than one entry", floor=2)
    prog = ctx.prog
    fam = prog.family("storage::bitcask::Writer::merge")
    cps = calls_in(fam, "storage::bitcask::log::LogDir::copy")
    f = "storage::bitcask::Writer::merge"
    if len(cps) != 1:
        r.unrec(f, "copy ×%d" % len(cps), short_span(fam[0].span), "expected one")
        return r
    b, cbb, ct = cps[0]
    # the running offset: a local assigned `L + <copy result>` somewhere and a constant 0 somewhere else
    cand = []
    fwd = lambda o, bb: o
    try:
        import k2m

        if k2m._model(ctx).b is b:
            fwd = k2m._model(ctx).forward_entry_reads  # `offset += entry.len` after `entry.len = n`
    except Exception:
        pass
    for l, ds in b.defs.items():
        acc = zero = False
        for (bb, si, whole) in ds:
            if si == "T" or not whole:
                continue
            o = fwd(b.origin_rvalue(b.blocks[bb]["stmts"][si]["rv"]), bb)
            p = peel(o)
            if p[0] == "field" and p[2] == "0":
                p = peel(p[1])
            if p[0] == "bin" and p[1].startswith("Add") and p[2][0] == "var" and p[2][1] == l and origin_mentions(p[3], lambda y: y[0] == "call" and y[3] == (b.path, cbb)):
                acc = True
            if const_int(o) == 0:
                zero = True
        if acc and zero:
            cand.append(l)
    if len(cand) != 1:
        r.unrec(f, "running output offset", where(b, cbb), "%d candidate locals" % len(cand))
        return r
    L = cand[0]
    creates = {bb for _, bb, t in calls_in([b], "storage::bitcask::log::create")}
    try:
        import k2m

        mm = k2m._model(ctx)
        if mm.b is b:
            # every (re)assignment of the data output writer is a rollover, also when the files
            # are created by a helper
            creates |= {bi for bi, si in mm.W_assign}
    except Exception:
        pass
    tests = []
    for bb in sorted(b.live_blocks()):
        info = b.switch_info(bb)
        if not info or info["kind"] != "bool" or "max_file_size" not in origin_str(info["on"]):
            continue
        for e in b.succ[bb]:
            if info["arms"].get(e.dst) == [True] and reach(b, [e.dst], blocked_edges=lambda x: x.kind == "unwind", blocked_blocks={cbb}) & creates:
                tests.append(bb)
    if len(tests) != 1:
        r.unrec(f, "size test leading to a new output", where(b, cbb), "found %d" % len(tests))
        return r
    t = tests[0]
    o = peel_var(b.switch_info(t)["on"])
    good = False
    det = origin_str(o)
    if o[0] == "bin":
        def is_L(x):
            # also a copy of the offset taken after this entry was added (`let end = self.pos; if end > max`)
            while x[0] == "var" and x[1] != L and x[3] is not None and x[3][0] == "var":
                ds_ = [d_ for d_ in b.defs.get(x[1], []) if d_[2]]
                acc_ = [bb_ for (bb_, si_, w_) in b.defs[L] if si_ != "T" and const_int(b.origin_rvalue(b.blocks[bb_]["stmts"][si_]["rv"])) != 0]
                if len(ds_) != 1 or not any(ds_[0][0] == a_ or ds_[0][0] in reach(b, [a_], blocked_edges=lambda e_: e_.kind == "unwind", blocked_blocks={cbb}) for a_ in acc_):
                    break
                x = x[3]
            return x[0] == "var" and x[1] == L
        def is_max(x):
            return (access_path(x) or "").endswith("conf.max_file_size")
        if is_L(o[2]) and is_max(o[3]):
            good = o[1] in ("Gt", "Ge")
        elif is_max(o[2]) and is_L(o[3]):
            good = o[1] in ("Lt", "Le")
    r.add(f, "rollover test: running offset (`%s`) > max_file_size" % b.local_names.get(L), good, where(b, t), det)
    # the test follows the accumulation of this entry's length
    accs = [bb for (bb, si, whole) in b.defs[L] if si != "T" and const_int(b.origin_rvalue(b.blocks[bb]["stmts"][si]["rv"])) != 0 and bb in reach(b, [b.term(cbb)["t"]], blocked_edges=lambda x: x.kind == "unwind", blocked_blocks={cbb})]
    r.add(f, "the test sees the offset after this entry was added", bool(accs) and all(t in reach(b, [a], blocked_edges=lambda x: x.kind == "unwind", blocked_blocks={cbb}) or a == t for a in accs), where(b, t))
    return r


def s23_argument_errors_reject(ctx):
    r = RuleResult("S23", "a malformed argument rejects the whole command: in every `TryFrom<Parser>` for Set/Get/Del each Parser::get_string / get_bytes result is branched on, and its error side (Err / `?` break) leads only to an Err return — never to a command built from the arguments read so far (`DEL k1 k2 <bad>` must not delete k1 and k2)", floor=4)
    prog = ctx.prog
    for cmd in ("set::Set", "get::Get", "del::Del"):
        name = "net::command::<impl std::convert::TryFrom<net::command::Parser> for net::command::%s>::try_from" % cmd
        c = [b for b in shipped_bodies(prog) if b.path == name]
        f = "net::command::%s::try_from" % cmd
        if len(c) != 1:
            r.unrec(f, "TryFrom<Parser>", "src/net/command.rs", "found %d" % len(c))
            continue
        b = c[0]
        sites = calls_in([b], "net::command::Parser::get_string", "net::command::Parser::get_bytes")
        if not sites:
            # `iter::from_fn(|| parser.get_string().transpose()).collect::<Result<Vec<_>, _>>()?`: the closure hands the
            # reader's result on untouched, collecting into a Result stops at the first Err and returns it
            done_ = False
            for kb in [x for x in prog.families.get(b.root, []) if x.def_kind == "Closure" and not getattr(x, "spliced", False)]:
                ks = calls_in([kb], "net::command::Parser::get_string", "net::command::Parser::get_bytes")
                if not ks:
                    continue
                done_ = True
                rets_ = [ret_origin(kb, d_) for c_, d_, rb_ in ret_classes(kb, 0, lambda e: e.kind == "unwind")]
                passes = bool(rets_) and all(o_ is not None and peel_var(o_)[0] == "call" and peel_var(o_)[1].split("::")[-1] == "transpose" and peel_var(o_)[2] and peel_var(peel_var(o_)[2][0])[0] == "call" and peel_var(peel_var(o_)[2][0])[3] in {(kb.path, kbb_) for _, kbb_, kt_ in ks} for o_ in rets_)
                cols = [(cbb_, ct_) for _, cbb_, ct_ in calls_in([b], "std::iter::Iterator::collect") if (ct_.get("dest_ty") or "").startswith(("std::result::Result<", "core::result::Result<")) and origin_mentions(arg_origin(b, ct_, 0), lambda y: y[0] == "agg" and y[1] == "closure" and y[2] == kb.path)]
                good = passes and len(cols) == 1
                if good:
                    oe_, ee_, _sw = try_edges(b, cols[0][0])
                    rs_ = [c2 for e_ in (ee_ or []) for c2, dd, rb in ret_classes(b, e_.dst, lambda e: e.kind == "unwind")]
                    good = bool(ee_) and bool(rs_) and all(c2 == "err" for c2 in rs_)
                r.add(f, "%s error ⇒ Err" % strip_generics(ks[0][2]["callee"]).split("::")[-1], good, where(kb, ks[0][1]), "" if good else "the reader's result is not handed on untouched into a collect::<Result<..>>()? — an argument error may end the list instead of rejecting the command")
            if not done_:
                r.unrec(f, "argument reads", short_span(b.span), "none found")
            continue
        for _, bb, t in sites:
            site = (b.path, bb)
            err_dsts, found = [], False
            for sb in sorted(b.live_blocks()):
                info = b.switch_info(sb)
                if not info or info["kind"] != "variant":
                    continue
                o = peel_var(info["on"])
                direct = o[0] == "call" and o[3] == site
                tried = o[0] == "try" and peel_var(o[1])[0] == "call" and peel_var(o[1])[3] == site
                if not (direct or tried):
                    continue
                found = True
                labs_all = set(sum(info["arms"].values(), []))
                for e in b.succ[sb]:
                    labs = info["arms"].get(e.dst, [])
                    if ("Err" in labs) or ("Break" in labs) or (not labs and e.dst == info.get("otherwise") and not ({"Err", "Break"} & labs_all) and ({"Ok", "Continue"} & labs_all) and b.term(e.dst)["k"] != "unreachable"):
                        err_dsts.append(e.dst)
            if not found:
                r.unrec(f, "%s result" % strip_generics(t["callee"]).split("::")[-1], where(b, bb), "the result is not branched on in this body")
                continue
            rs = []
            for d in err_dsts:
                rs += [c2 for c2, dd, rb in ret_classes(b, d, lambda e: e.kind == "unwind")]
            good = bool(err_dsts) and bool(rs) and all(c2 == "err" for c2 in rs)
            r.add(f, "%s error ⇒ Err" % strip_generics(t["callee"]).split("::")[-1], good, where(b, bb), "" if good else ("the error side continues to: %s" % sorted(set(rs)) if err_dsts else "no error side found"))
    return r


def p12b_read_error_ends_handler(ctx):
    r = RuleResult("P12b", "Handler::run: an error from read_frame ends the handler — from the error side of the read_frame result no path leads back to another read_frame (the bytes that failed to parse are still in the buffer: retrying fails again at once and the task spins, holding its connection slot and a worker thread); the clean end of stream (None) also leaves", floor=2)
    import asyncx

    prog = ctx.prog
    fam = prog.family("net::server::Handler::run")
    cs = calls_in(fam, "net::connection::Connection::read_frame")
    f = "net::server::Handler::run"
    if len(cs) != 1:
        r.unrec(f, "read_frame ×%d" % len(cs), short_span(fam[0].span), "expected one")
        return r
    b, rbb, rt = cs[0]
    blocked = lambda e: e.kind in ("unwind", "ydrop")
    sel = [s for s in asyncx.selects(b) if any(asyncx.is_call_origin(x, "Connection::read_frame") for x in s["futs"])]
    starts = []
    if sel:
        s = sel[0]
        idx = [i for i, x in enumerate(s["futs"]) if asyncx.is_call_origin(x, "Connection::read_frame")][0]
        if idx in s["arms"]:
            starts = [s["arms"][idx]]
    else:
        done = asyncx.ready_edges(b, lambda fo: bool(origin_mentions(fo, lambda y: y[0] == "call" and y[3] == (b.path, rbb))))
        starts = [d for (s0, d) in done]
    if not starts:
        r.unrec(f, "completion of read_frame", where(b, rbb), "neither a select arm nor an await found")
        return r
    # first Result-shaped switch after completion
    region = reach(b, starts, blocked_edges=blocked, blocked_blocks={rbb})
    err_dsts, none_dsts = [], []
    for sb in sorted(region):
        info = b.switch_info(sb)
        if not info or info["kind"] != "variant":
            continue
        labs_all = set(sum(info["arms"].values(), []))
        on = info["on"]
        from_read = bool(phi_mentions(b, on, lambda y: y[0] == "variant" and str(y[2]).startswith("_"))) or bool(phi_mentions(b, on, lambda y: y[0] == "call" and y[3] == (b.path, rbb)))
        # the result of read_frame itself, not of something computed from the frame (Command::try_from(frame)?)
        if origin_mentions(on, lambda y: y[0] == "call" and y[1] and y[1].startswith(("net::", "storage::")) and not y[1].endswith("read_frame") and y[3][0] == b.path):
            from_read = False
        if labs_all & {"Break", "Err"} and from_read and not err_dsts:
            for e in b.succ[sb]:
                if set(info["arms"].get(e.dst, [])) & {"Break", "Err"}:
                    err_dsts.append((sb, e.dst))
        elif labs_all == {"None", "Some"} and not none_dsts and err_dsts:
            for e in b.succ[sb]:
                if info["arms"].get(e.dst) == ["None"]:
                    none_dsts.append((sb, e.dst))
    # select! with a refutable pattern (`Ok(frame) = read_frame() => ..`): an outcome that does not match disables the
    # branch and the select goes on waiting for the others — an error would park the handler instead of ending it
    for x in fam:
        if x.def_kind != "Closure" or x.coroutine:
            continue
        polls = [(bb, t) for _, bb, t in calls_in([x], "std::future::Future::poll") if "macro:$crate::select" in (t.get("exp") or "") + (t.get("fn_exp") or "")]
        if not polls:
            continue
        sites = {(x.path, bb) for bb, t in polls}
        for sb in sorted(x.live_blocks()):
            info = x.switch_info(sb)
            if not info or info["kind"] != "variant":
                continue
            labs_all = set(sum(info["arms"].values(), []))
            if labs_all <= {"Ready", "Pending"}:
                continue
            if origin_mentions(info["on"], lambda y: y[0] == "call" and y[3] in sites):
                r.bad(f, "select! patterns accept every outcome of their future", where(x, sb), "a branch pattern tests the outcome (%s): an outcome that does not match (a read error) only disables the branch — the handler keeps waiting for the other branches, holding its connection slot, instead of ending" % "/".join(sorted(labs_all)))
    if not err_dsts:
        r.unrec(f, "error side of the read_frame result", where(b, rbb), "not found")
        return r
    for nm, dsts in (("a read_frame error", err_dsts), ("end of stream (None)", none_dsts)):
        if not dsts:
            continue
        back = [sb for sb, d in dsts if rbb in reach(b, [d], blocked_edges=blocked)]
        r.add(f, "%s leaves the loop" % nm, not back, where(b, dsts[0][0]), "" if not back else "a path leads back to read_frame: the same bytes are parsed again and fail again")
    return r


def s12b_config_keys(ctx):
    r = RuleResult("S12b", "a setting written under a field's name reaches that field: for every configuration struct that derives Deserialize (storage Config, MergeStrategy, MergeTriggers, MergeThresholds, net Config, conf::Configuration) each field name is one of the keys its derived field visitor accepts — a renamed key is silently ignored because the structs carry #[serde(default)] (sync = \"always\" in the file, SyncStrategy::None in effect)", floor=5)
    prog = ctx.prog
    import re

    n = 0
    # the structs a configuration file is decoded into: everything reachable through field types from the root
    # `conf::Configuration` (key names matter only for self-describing formats; the on-disk records go through
    # bincode, which is positional — S24 — so a #[serde(rename)] there changes nothing)
    conf_types = set()
    todo = ["conf::Configuration"]
    while todo:
        t = todo.pop()
        if t in conf_types or t not in prog.adts:
            continue
        conf_types.add(t)
        for v in prog.adts[t]["variants"]:
            for _, fty in v["fields"]:
                for cand in re.findall(r"[A-Za-z_][A-Za-z0-9_]*(?:::[A-Za-z_][A-Za-z0-9_]*)+", fty):
                    todo.append(cand)
    if "conf::Configuration" not in conf_types:
        r.unrec("conf::Configuration", "configuration root type", "src/conf.rs", "not found")
        return r
    for b in shipped_bodies(prog):
        m = re.match(r"^<(.*)::_::<impl .*Deserialize<'de> for ([A-Za-z0-9_:]+)>::deserialize::__FieldVisitor as .*Visitor<'de>>::visit_str$", b.path)
        if not m:
            continue
        ty = m.group(2)
        if ty not in conf_types:
            continue
        adt = prog.adts.get(ty)
        if adt is None or adt.get("is_enum"):
            continue
        keys = []

        def walk(x):
            if isinstance(x, dict):
                if x.get("k") == "const" and "bytes" in x:
                    keys.append(bytes.fromhex(x["bytes"]).decode("utf8", "replace"))
                for v in x.values():
                    walk(v)
            elif isinstance(x, list):
                for v in x:
                    walk(v)

        walk(b.rec["blocks"])
        fields = [f[0] for f in adt["variants"][0]["fields"]]
        missing = [f for f in fields if f not in keys]
        n += 1
        r.add(ty, "every field name is an accepted key", not missing and bool(keys), short_span(b.span), "accepted keys %s" % keys if not missing else "field(s) %s cannot be set under their own name; accepted keys are %s" % (missing, keys))
    return r


W8_ALLOWED = {"channel", "recv", "subscribe", "is_closed", "closed", "receiver_count", "same_channel", "capacity", "max_capacity", "len", "is_empty"}


def w8_channels_carry_no_messages(ctx):
    r = RuleResult("W8", "the shutdown channels (tokio broadcast and mpsc) carry no messages: every operation on a channel endpoint anywhere in the library is a creation, a subscribe or a recv — nothing is ever sent, so `recv()` returning means that every sender is gone (all handlers finished resp. the store was dropped), never that somebody posted a wake-up", floor=5)
    for nm, prog in ctx.all_programs():
        for b in shipped_bodies(prog):
            live = b.live_blocks()
            for bi, t in b.calls():
                if bi not in live:
                    continue
                cn = strip_generics(t.get("callee")) or ""
                if not (cn.startswith("tokio::sync::mpsc") or cn.startswith("tokio::sync::broadcast")):
                    continue
                m = cn.split("::")[-1]
                ok = m in W8_ALLOWED
                r.add(fam_name(b) if nm == "lib" else "%s::%s" % (nm, fam_name(b)), "%s::%s" % (cn.split("::")[-2], m), ok, where(b, bi), "" if ok else "a message is sent on a channel whose only meaning is its closing: the waiting recv() returns while senders are still alive")
    return r


# functions of net::frame that may declare a frame incomplete, with the number of places in each that
# were read (each fires only when the bytes it needs are not in the buffer yet)
V8_REVIEWED = {
    "net::frame::get_line": (1, "after the scan for CR reached the end of the buffer"),
    "net::frame::get_integer": (1, "`idx >= end`: the digits run to the end of the buffer"),
    "net::frame::get_byte": (1, "`!has_remaining()`"),
    "net::frame::peek_byte": (1, "`!has_remaining()`"),
    "net::frame::skip": (1, "`remaining() < n`"),
    "net::frame::Frame::parse_nested": (1, "`len + 2 > remaining()`: the announced bulk payload and its CRLF are not all there"),
    "net::frame::Frame::parse": (1, "`len + 2 > remaining()` (the same place when the parser is not split into parse/parse_nested)"),
}


def v8_who_says_incomplete(ctx):
    r = RuleResult("V8", "only a shortage of bytes makes a frame incomplete: Error::Incomplete is constructed only at the reviewed places of the reader helpers (each guarded by a comparison with what is left in the buffer); Frame::check / check_nested declare nothing incomplete on their own — a complete encoding can never be held back waiting for more bytes", floor=4)
    prog = ctx.prog
    seen = {}
    for b in shipped_bodies(prog):
        if not b.name.startswith("net::frame::"):
            continue
        for bb in sorted(b.live_blocks()):
            if b.blocks[bb]["cleanup"]:
                continue
            for st in b.blocks[bb]["stmts"]:
                if st["k"] == "assign" and st["rv"]["k"] == "agg" and st["rv"]["ak"] == "adt" and strip_generics(st["rv"]["adt"]) == "net::frame::Error" and st["rv"]["variant"] == "Incomplete":
                    seen.setdefault(fam_name(b), []).append((b, bb))
    for fn, sites in sorted(seen.items()):
        allowed = V8_REVIEWED.get(fn)
        for i, (b, bb) in enumerate(sites):
            ok = allowed is not None and i < allowed[0]
            r.add(fn, "Incomplete #%d" % (i + 1), ok, short_span(b.blocks[bb]["stmts"][0].get("span")) if b.blocks[bb]["stmts"] else short_span(b.span), allowed[1] if ok else "an unreviewed place declares the frame incomplete (%d in this function, %d reviewed): a complete frame that meets this condition is never delivered" % (len(sites), allowed[0] if allowed else 0))
    return r

"""Fact model: loads the JSON lines written by driver/ (bcfacts) and offers the shared views the
rules are written against: CFG with labelled edges, single-definition tracing of operands back to
access paths ("origins"), resolved call sites, function families and the crate-local call graph.

Nothing here looks at source text, line numbers or positions; spans are carried only so that a
report can name a file:line.
"""
import json
import re
import sys
from collections import defaultdict, deque

sys.setrecursionlimit(10000)

_GEN = re.compile(r"::<[^<>]*(?:<[^<>]*(?:<[^<>]*(?:<[^<>]*>[^<>]*)*>[^<>]*)*>[^<>]*)*>")


def strip_generics(path):
    """`dashmap::DashMap::<K, V, S>::insert` -> `dashmap::DashMap::insert`. Leaves `<T as Trait>::m`
    qualified paths alone except for turbofish segments inside them."""
    if path is None:
        return None
    prev = None
    while prev != path:
        prev = path
        path = _GEN.sub("", path)
    return path


def short_span(span):
    # "src/x.rs:12:5: 14:6" -> "src/x.rs:12"
    if not span:
        return "?"
    m = re.match(r"^(.*?):(\d+):\d+", span)
    return "%s:%s" % (m.group(1), m.group(2)) if m else span


TRANSPARENT_CALLS = {
    # callee (trait method or inherent, generics stripped) -> index of the argument the result views
    "std::ops::Deref::deref": 0,
    "std::ops::DerefMut::deref_mut": 0,
    "std::convert::AsRef::as_ref": 0,
    "std::convert::AsMut::as_mut": 0,
    "std::borrow::Borrow::borrow": 0,
    "std::borrow::BorrowMut::borrow_mut": 0,
    "std::cell::RefCell::borrow_mut": 0,
    "std::cell::RefCell::borrow": 0,
    "parking_lot::lock_api::Mutex::lock": 0,
    "lock_api::Mutex::lock": 0,
    "lock_api::mutex::Mutex::lock": 0,
    "std::future::IntoFuture::into_future": 0,
    "std::pin::Pin::new_unchecked": 0,
    "std::pin::Pin::new": 0,
    "std::iter::IntoIterator::into_iter": 0,
    "std::path::PathBuf::as_path": 0,
    "std::string::String::as_bytes": 0,
    "std::string::String::as_str": 0,
    "std::vec::Vec::as_slice": 0,
}


class Edge:
    __slots__ = ("src", "dst", "kind", "label")

    def __init__(self, src, dst, kind, label=None):
        self.src = src
        self.dst = dst
        self.kind = kind  # goto | ret | unwind | sw | drop | assert | yres | ydrop
        self.label = label  # for sw: (values, is_otherwise)

    def __repr__(self):
        return "Edge(%s->%s %s %s)" % (self.src, self.dst, self.kind, self.label)


class Body:
    def __init__(self, rec, prog, promoted_of=None, promoted_idx=None):
        self.rec = rec
        self.prog = prog
        self.path = rec.get("path") if promoted_of is None else "%s::promoted[%d]" % (promoted_of.path, promoted_idx)
        self.name = strip_generics(self.path)
        self.root = rec.get("root", self.path)
        self.def_kind = rec.get("def_kind")
        self.coroutine = rec.get("coroutine")
        self.span = rec.get("span")
        self.test = rec.get("test", False)
        self.params = rec.get("params")
        self.arg_count = rec["arg_count"]
        self.locals = rec["locals"]
        self.blocks = rec["blocks"]
        self.impl_self = rec.get("impl_self")
        self.impl_trait = rec.get("impl_trait")
        self.debug = rec.get("debug", [])
        self.promoted = []
        if promoted_of is None:
            for i, p in enumerate(rec.get("promoted", [])):
                self.promoted.append(Body(p, prog, self, i))
        self.owner = promoted_of
        # names of locals from debug info (whole-local places only); upvar names for closures
        self.local_names = {}
        self.upvar_names = {}
        for d in self.debug:
            pl = d["pl"]
            if not pl["p"]:
                self.local_names.setdefault(pl["l"], d["name"])
            else:
                self.upvar_names[json.dumps(pl["p"])] = d["name"]
        self._build()

    # -------------------------------------------------------------------------------------
    def _build(self):
        n = len(self.blocks)
        self.succ = [[] for _ in range(n)]
        self.pred = [[] for _ in range(n)]
        self.defs = defaultdict(list)  # local -> [(bb, idx)] idx = stmt index or 'T'
        for bi, blk in enumerate(self.blocks):
            for si, st in enumerate(blk["stmts"]):
                if st["k"] == "assign":
                    pl = st["pl"]
                    if any(el[0] == "d" for el in pl["p"]):
                        continue  # a write through a pointer held in the local, not a definition of it
                    self.defs[pl["l"]].append((bi, si, not pl["p"]))
            t = blk["term"]
            if t is None:
                continue
            k = t["k"]
            es = []
            if k == "goto":
                es.append(Edge(bi, t["t"], "goto"))
            elif k == "switch":
                by_t = defaultdict(list)
                for v, tb in t["targets"]:
                    by_t[tb].append(v)
                for tb, vs in by_t.items():
                    es.append(Edge(bi, tb, "sw", (tuple(vs), False)))
                es.append(Edge(bi, t["otherwise"], "sw", (tuple(v for v, _ in t["targets"]), True)))
            elif k == "drop":
                es.append(Edge(bi, t["t"], "drop"))
                if isinstance(t["unwind"], int):
                    es.append(Edge(bi, t["unwind"], "unwind"))
            elif k == "call":
                d = t["dest"]
                self.defs[d["l"]].append((bi, "T", not d["p"]))
                if t["t"] is not None:
                    es.append(Edge(bi, t["t"], "ret"))
                if isinstance(t["unwind"], int):
                    es.append(Edge(bi, t["unwind"], "unwind"))
            elif k == "assert":
                es.append(Edge(bi, t["t"], "assert"))
                if isinstance(t["unwind"], int):
                    es.append(Edge(bi, t["unwind"], "unwind"))
            elif k == "yield":
                ra = t["resume_arg"]
                self.defs[ra["l"]].append((bi, "T", not ra["p"]))
                es.append(Edge(bi, t["resume"], "yres"))
                if t["drop"] is not None:
                    es.append(Edge(bi, t["drop"], "ydrop"))
            elif k == "falseedge":
                es.append(Edge(bi, t["real"], "goto"))
            elif k == "falseunwind":
                es.append(Edge(bi, t["real"], "goto"))
            self.succ[bi] = es
            for e in es:
                self.pred[e.dst].append(e)

    # -------------------------------------------------------------------------------------
    def term(self, bb):
        return self.blocks[bb]["term"]

    def calls(self):
        """all call sites: (bb, term)"""
        for bi, blk in enumerate(self.blocks):
            t = blk["term"]
            if t and t["k"] == "call":
                yield bi, t

    def local_ty(self, l):
        return self.locals[l]["ty"]

    def reachable(self, start=0, follow=lambda e: True):
        seen = {start}
        dq = deque([start])
        while dq:
            b = dq.popleft()
            for e in self.succ[b]:
                if follow(e) and e.dst not in seen:
                    seen.add(e.dst)
                    dq.append(e.dst)
        return seen

    def live_blocks(self):
        """blocks reachable from entry (mir_promoted keeps some unreachable blocks)"""
        if not hasattr(self, "_live"):
            self._live = self.reachable(0)
        return self._live

    # -------------------------------------------------------------------------------------
    # Origins: trace an operand / place back to what produced it.
    #
    # ("arg", name) | ("var", local, name) | ("field", base, name) | ("variant", base, vname)
    # ("index", base) | ("call", cname, [arg origins], (bodypath, bb)) | ("const", rec)
    # ("agg", kind, name, variant, {field: origin}) | ("bin", op, a, b) | ("un", op, a)
    # ("cast", a) | ("discr", a) | ("clone", a) | ("try", a) | ("upvar", name) | ("ref", a) is
    # not produced: refs and derefs are transparent | ("unknown", why)
    def origin_local(self, l, depth=0):
        if depth > 400:
            return ("unknown", "depth")
        if self.owner is None:
            if 1 <= l <= self.arg_count:
                name = self.local_names.get(l)
                if name is None and self.params and l - 1 < len(self.params):
                    name = self.params[l - 1]
                # closures: _1 is the closure environment
                if self.def_kind == "Closure" and l == 1:
                    return ("env",)
                return ("arg", name or ("_%d" % l))
        ds = self.defs.get(l, [])
        if len(ds) > 1 and self.rec.get("transformed"):
            ds = self._dedupe_defs(l, ds)
        whole = [d for d in ds if d[2]]
        if self.locals[l].get("alias") and len(ds) == 1 and len(whole) == 1:
            # parameter of an inlined helper: nothing but another name for the argument
            return self._origin_def(l, whole[0], depth)
        if self.locals[l].get("user") or len(ds) != 1 or len(whole) != 1:
            # user variables and multiply-assigned temps are roots; but a user variable with a
            # single whole assignment is also traced through (let x = expr;)
            if len(ds) == 1 and len(whole) == 1:
                inner = self._origin_def(l, whole[0], depth)
                return ("var", l, self.local_names.get(l), inner)
            return ("var", l, self.local_names.get(l), None)
        return self._origin_def(l, whole[0], depth)

    def _dedupe_defs(self, l, ds):
        """definitions that are copies of one statement (blocks duplicated by the inliner's jump
        threading) count once"""
        cache = self.__dict__.setdefault("_dd", {})
        if l in cache:
            return cache[l]
        keys = {}
        for d in ds:
            bi, si, whole = d
            if si == "T":
                t = self.blocks[bi]["term"]
                k = json.dumps([t.get("k"), t.get("callee"), t.get("args"), t.get("dest"), t.get("resume_arg")], sort_keys=True)
            else:
                st = self.blocks[bi]["stmts"][si]
                k = json.dumps([st["pl"], st["rv"]], sort_keys=True)
            keys.setdefault(k, []).append(d)
        out = []
        live = self.live_blocks()
        for k, group in keys.items():
            lv = [d for d in group if d[0] in live]
            out.append((lv or group)[0])
        cache[l] = out
        return out

    def _origin_def(self, l, d, depth):
        bi, si, _ = d
        if si == "T":
            t = self.blocks[bi]["term"]
            if t["k"] == "yield":
                return ("unknown", "resume_arg")
            return self.origin_call(bi, depth + 1)
        st = self.blocks[bi]["stmts"][si]
        return self.origin_rvalue(st["rv"], depth + 1)

    def _ok_view(self, o, depth=0):
        """For the operand of `?`: when it is a local assigned on several paths — once `Ok(x)` (or
        the success value of another `?`), otherwise only errors (`Err(..)`, a re-wrapped residual)
        — the success payload can only come from that one definition: return it. This is what a
        helper with `?`s inside looks like after it was inlined."""
        if depth > 6 or not self.rec.get("transformed"):
            return o
        v = o
        while v[0] == "var" and v[3] is not None:
            v = v[3]
        if v[0] != "var":
            return o
        ds = self._dedupe_defs(v[1], self.defs.get(v[1], []))
        oks, unknown = [], 0
        for bi, si, whole in ds:
            if not whole:
                unknown += 1
                continue
            if si == "T":
                t = self.blocks[bi]["term"]
                if t["k"] == "call" and (t.get("callee") or "").endswith("FromResidual::from_residual"):
                    continue
                if t["k"] == "call":
                    # a Result computed by a call (`x.ok_or(..)` as the tail expression): the only
                    # definition that can carry a success value
                    oks.append(self.origin_call(bi, depth + 1))
                    continue
                unknown += 1
                continue
            rv = self.blocks[bi]["stmts"][si]["rv"]
            if rv["k"] == "agg" and rv.get("ak") == "adt" and rv.get("adt", "").split("<")[0] in ("std::result::Result", "core::result::Result", "std::option::Option", "core::option::Option"):
                if rv["variant"] in ("Ok", "Some"):
                    oks.append(self.origin_rvalue(rv, depth + 1))
                continue
            if rv["k"] == "use" and rv["op"].get("k") in ("move", "copy") and not rv["op"]["pl"]["p"]:
                inner = self._ok_view(self.origin_local(rv["op"]["pl"]["l"], depth + 1), depth + 1)
                iv = inner
                while iv[0] == "var" and iv[3] is not None:
                    iv = iv[3]
                if iv[0] == "agg" and iv[3] in ("Ok", "Some"):
                    oks.append(inner)
                    continue
            unknown += 1
        if len(oks) == 1 and unknown == 0:
            return oks[0]
        return o

    def origin_call(self, bi, depth=0):
        t = self.blocks[bi]["term"]
        cn = strip_generics(t.get("callee"))
        args = t["args"]
        if cn in TRANSPARENT_CALLS and len(args) > TRANSPARENT_CALLS[cn]:
            return self.origin_operand(args[TRANSPARENT_CALLS[cn]], depth + 1)
        if cn == "std::clone::Clone::clone" and args:
            return ("clone", self.origin_operand(args[0], depth + 1))
        if cn == "std::ops::Try::branch" and args:
            raw = self.origin_operand(args[0], depth + 1)
            okv = self._ok_view(raw)
            # o[1]: what a success payload comes from; o[2] (only when different): the operand itself
            return ("try", okv) if okv is raw else ("try", okv, raw)
        ao = [self.origin_operand(a, depth + 1) for a in args]
        return ("call", cn or "<indirect>", ao, (self.path, bi))

    def origin_rvalue(self, rv, depth=0):
        k = rv["k"]
        if k == "use":
            return self.origin_operand(rv["op"], depth + 1)
        if k in ("ref", "copyderef", "rawptr"):
            return self.origin_place(rv["pl"], depth + 1)
        if k == "cast":
            return ("cast", self.origin_operand(rv["op"], depth + 1), rv.get("ty"))
        if k == "bin":
            return ("bin", rv["op"], self.origin_operand(rv["a"], depth + 1), self.origin_operand(rv["b"], depth + 1))
        if k == "un":
            return ("un", rv["op"], self.origin_operand(rv["a"], depth + 1))
        if k == "discr":
            return ("discr", self.origin_place(rv["pl"], depth + 1))
        if k == "agg":
            ak = rv["ak"]
            ops = [self.origin_operand(o, depth + 1) for o in rv["ops"]]
            if ak == "adt":
                fields = rv.get("fields", [])
                fm = {}
                for i, o in enumerate(ops):
                    fm[fields[i] if i < len(fields) else str(i)] = o
                return ("agg", "adt", strip_generics(rv["adt"]), rv["variant"], fm)
            if ak in ("closure", "coroutine"):
                fields = rv.get("fields", [])
                fm = {}
                for i, o in enumerate(ops):
                    fm[fields[i] if i < len(fields) else str(i)] = o
                return ("agg", ak, rv["def"], None, fm)
            return ("agg", ak, None, None, {str(i): o for i, o in enumerate(ops)})
        if k == "repeat":
            return ("agg", "repeat", None, None, {"0": self.origin_operand(rv["op"], depth + 1)})
        return ("unknown", k)

    def origin_operand(self, op, depth=0):
        k = op["k"]
        if k in ("copy", "move"):
            return self.origin_place(op["pl"], depth + 1)
        if k == "const":
            if "promoted" in op and (self.owner or self).promoted:
                pb = (self.owner or self).promoted
                idx = op["promoted"]
                if idx < len(pb):
                    return ("promoted", pb[idx].origin_local(0, depth + 1))
            return ("const", op)
        return ("unknown", k)

    def _stable_field(self, l, name, depth):
        """`x.f` where x = Struct { f: v, .. } once, other fields of x are assigned later but f never is and no
        `&mut` to x (or into it) exists: v's origin. None when that cannot be said."""
        if not self.rec.get("transformed"):
            return None
        ds = self.defs.get(l, [])
        if len(ds) < 2:
            return None
        ds = self._dedupe_defs(l, ds)
        whole = [d for d in ds if d[2]]
        if len(whole) != 1 or whole[0][1] == "T":
            return None
        for bi, si, w in ds:
            if w:
                continue
            if si == "T":
                pl2 = self.blocks[bi]["term"].get("dest") or self.blocks[bi]["term"].get("resume_arg")
            else:
                pl2 = self.blocks[bi]["stmts"][si]["pl"]
            el = pl2["p"][0]
            if el[0] != "f" or el[2] == name:
                return None
        for l2 in self._mut_borrowed():
            if l2 == l:
                return None
        o = peel_var(self._origin_def(l, whole[0], depth + 1))
        if o[0] == "agg" and o[1] in ("adt", "tuple") and name in o[4]:
            return o[4][name]
        return None

    def _variant_payload(self, l, variant, name, depth):
        ds = self.defs.get(l, [])
        if not ds or l in self._mut_borrowed():
            return None
        ds = self._dedupe_defs(l, ds)
        hit = []
        for bi, si, w in ds:
            if not w or si == "T":
                return None
            rv = self.blocks[bi]["stmts"][si]["rv"]
            if rv["k"] != "agg" or rv.get("ak") != "adt" or rv.get("variant") is None:
                return None
            if rv["variant"] == variant:
                hit.append((bi, si, w))
        if len(hit) != 1:
            return None
        o = self._origin_def(l, hit[0], depth + 1)
        if o[0] == "agg" and name in o[4]:
            return o[4][name]
        return None

    def _mut_borrowed(self):
        mb = self.__dict__.get("_mb")
        if mb is None:
            mb = set()
            for blk in self.blocks:
                for st in blk["stmts"]:
                    if st["k"] == "assign" and ((st["rv"]["k"] == "ref" and st["rv"].get("bk") == "mut") or st["rv"]["k"] == "rawptr"):
                        pl = st["rv"]["pl"]
                        if not any(e[0] == "d" for e in pl["p"]):
                            mb.add(pl["l"])
            self.__dict__["_mb"] = mb
        return mb

    def origin_place(self, pl, depth=0):
        base = self.origin_local(pl["l"], depth + 1)
        if pl["p"] and pl["p"][0][0] == "f" and base[0] == "var" and base[3] is None:
            sf = self._stable_field(pl["l"], pl["p"][0][2], depth)
            if sf is not None:
                base = sf
                pl = {"l": pl["l"], "p": pl["p"][1:]}
        for el in pl["p"]:
            kind = el[0]
            if kind == "d":
                continue
            if kind == "f":
                name = el[2]
                if base == ("env",):
                    base = ("upvar", name)
                    continue
                # payload of an aggregate we can see through
                if base[0] == "agg" and name in base[4]:
                    base = base[4][name]
                    continue
                if base[0] == "var" and base[3] is not None and base[3][0] == "agg" and name in base[3][4]:
                    base = base[3][4][name]
                    continue
                # payload of a variant of an aggregate we can see through: (Poll::Ready(x) as Ready).0
                if base[0] == "variant":
                    inner = base[1]
                    while inner[0] == "var" and inner[3] is not None:
                        inner = inner[3]
                    if inner[0] == "agg" and inner[3] == base[2] and name in inner[4]:
                        base = inner[4][name]
                        continue
                    # a variable assigned `None` here and `Some(v)` there: its Some payload is v
                    if inner[0] == "var" and inner[3] is None and self.rec.get("transformed"):
                        vp = self._variant_payload(inner[1], base[2], name, depth)
                        if vp is not None:
                            base = vp
                            continue
                    # `Ok(x)?` → x (the Continue payload of the `?` of a literal Ok / Some)
                    if base[2] == "Continue" and inner[0] == "try":
                        i2 = inner[1]
                        while i2[0] == "var" and i2[3] is not None:
                            i2 = i2[3]
                        if i2[0] == "agg" and i2[3] in ("Ok", "Some") and name in i2[4]:
                            base = i2[4][name]
                            continue
                base = ("field", base, name)
            elif kind == "dc":
                base = ("variant", base, el[1])
            elif kind in ("i", "ci", "sub"):
                base = ("index", base)
            else:
                continue
        return base

    # -------------------------------------------------------------------------------------
    # Definitely-moved analysis. mir_promoted is before drop elaboration: every scope exit has a
    # Drop terminator even for values that were moved out on every path. Such a drop is a no-op
    # (it can neither run a destructor nor unwind); rules must not count it.
    def _moves_in_operand(self, op, acc):
        if op and op.get("k") == "move" and not op["pl"]["p"]:
            acc.add(op["pl"]["l"])
        elif op and op.get("k") == "move":
            # `Some(x) => … x …`: the only payload of the variant the value is known to be is
            # moved out; nothing of an Option / Result is left to drop on this path
            pr = op["pl"]["p"]
            if len(pr) == 2 and pr[0][0] == "dc" and pr[1][0] == "f" and pr[1][1] == 0:
                ty = self.locals[op["pl"]["l"]]["ty"]
                if (ty.startswith(("std::option::Option<", "core::option::Option<")) and pr[0][1] == "Some") or (ty.startswith(("std::result::Result<", "core::result::Result<")) and pr[0][1] in ("Ok", "Err")):
                    acc.add(op["pl"]["l"])

    def _rv_operands(self, rv):
        k = rv["k"]
        if k in ("use", "cast", "repeat"):
            return [rv["op"]]
        if k == "bin":
            return [rv["a"], rv["b"]]
        if k == "un":
            return [rv["a"]]
        if k == "agg":
            return rv["ops"]
        return []

    def _moved_dataflow(self):
        n = len(self.blocks)
        ALL = None  # top
        inn = [ALL] * n
        inn[0] = frozenset()
        work = deque([0])
        out_cache = {}

        def transfer(bi, state):
            st = set(state)
            blk = self.blocks[bi]
            for s in blk["stmts"]:
                if s["k"] == "assign":
                    for op in self._rv_operands(s["rv"]):
                        self._moves_in_operand(op, st)
                    if not s["pl"]["p"]:
                        st.discard(s["pl"]["l"])
                elif s["k"] == "live":
                    st.discard(s["l"])
            at_term = frozenset(st)
            t = blk["term"]
            outs = {}
            if t is None:
                return at_term, outs
            k = t["k"]
            if k == "call":
                for a in t["args"]:
                    self._moves_in_operand(a, st)
                if t.get("fnop"):
                    self._moves_in_operand(t["fnop"], st)
                base = frozenset(st)
                for e in self.succ[bi]:
                    if e.kind == "ret" and not t["dest"]["p"]:
                        outs[e.dst] = base - {t["dest"]["l"]}
                    else:
                        outs[e.dst] = base
            elif k == "drop":
                if not t["pl"]["p"]:
                    st.add(t["pl"]["l"])
                base = frozenset(st)
                for e in self.succ[bi]:
                    outs[e.dst] = base
            elif k == "yield":
                self._moves_in_operand(t["val"], st)
                base = frozenset(st)
                for e in self.succ[bi]:
                    outs[e.dst] = base
            else:
                if k == "switch":
                    self._moves_in_operand(t["op"], st)
                base = frozenset(st)
                for e in self.succ[bi]:
                    outs[e.dst] = base
            return at_term, outs

        at_term = [None] * n
        while work:
            bi = work.popleft()
            state = inn[bi]
            if state is None:
                continue
            at, outs = transfer(bi, state)
            at_term[bi] = at
            for dst, o in outs.items():
                cur = inn[dst]
                new = o if cur is None else (cur & o)
                if cur is None or new != cur:
                    inn[dst] = new
                    work.append(dst)
        self._moved_at_term = at_term

    def moved_at_term(self, bb):
        if not hasattr(self, "_moved_at_term"):
            self._moved_dataflow()
        return self._moved_at_term[bb] or frozenset()

    def drop_is_noop(self, bb):
        """the Drop terminator of bb drops a whole local that was moved out on every path here, or a
        type without any destructor in its drop glue"""
        t = self.blocks[bb]["term"]
        if not t or t["k"] != "drop":
            return False
        if not t["pl"]["p"] and t["pl"]["l"] in self.moved_at_term(bb):
            return True
        return False

    # -------------------------------------------------------------------------------------
    def switch_info(self, bb):
        """For a switch terminator: what is tested and what each edge means.
        returns dict(kind='variant'|'bool'|'int', on=origin, arms={dst: [labels]}) or None"""
        t = self.blocks[bb]["term"]
        if not t or t["k"] != "switch":
            return None
        op = t["op"]
        o = self.origin_operand(op)
        ty = t.get("ty")
        info = {"on": o, "arms": defaultdict(list), "ty": ty}
        if o[0] == "discr" or (o[0] == "var" and o[3] is not None and o[3][0] == "discr"):
            d = o if o[0] == "discr" else o[3]
            # find the variants table from the defining statement
            variants = self._discr_variants(op)
            info["kind"] = "variant"
            info["on"] = d[1]
            names = {v: n for v, n in variants}
            listed = set()
            for v, tb in t["targets"]:
                info["arms"][tb].append(names.get(v, "#" + v))
                listed.add(v)
            rest = [n for v, n in variants if v not in listed]
            info["arms"][t["otherwise"]].extend(rest if rest else [])
            info["otherwise"] = t["otherwise"]
            info["otherwise_variants"] = rest
            return info
        if ty == "bool":
            info["kind"] = "bool"
            for v, tb in t["targets"]:
                info["arms"][tb].append(v != "0")
            # otherwise = the other value
            vals = {v for v, _ in t["targets"]}
            if vals == {"0"}:
                info["arms"][t["otherwise"]].append(True)
            elif vals == {"1"}:
                info["arms"][t["otherwise"]].append(False)
            info["otherwise"] = t["otherwise"]
            return info
        info["kind"] = "int"
        for v, tb in t["targets"]:
            info["arms"][tb].append(v)
        info["arms"][t["otherwise"]].append("otherwise")
        info["otherwise"] = t["otherwise"]
        return info

    def _discr_variants(self, op):
        if op["k"] not in ("copy", "move"):
            return []
        l = op["pl"]["l"]
        for bi, si, _ in self.defs.get(l, []):
            if si == "T":
                continue
            st = self.blocks[bi]["stmts"][si]
            if st["rv"]["k"] == "discr":
                return [(v, n) for v, n in st["rv"].get("variants", [])]
        return []

    def edge_facts(self, e):
        """facts established by taking edge e: list of ('variant', origin, [names]) or ('bool', origin, value)"""
        if e.kind != "sw":
            return []
        info = self.switch_info(e.src)
        if not info:
            return []
        labs = info["arms"].get(e.dst, [])
        if info["kind"] == "variant":
            return [("variant", info["on"], list(labs))]
        if info["kind"] == "bool":
            if len(labs) == 1:
                return [("bool", info["on"], labs[0])]
            return []
        return [("int", info["on"], list(labs))]


# ---------------------------------------------------------------------------------------------
# origin helpers


def peel(o):
    """strip var wrappers with a known inner origin, clones, casts, try, promoted"""
    while True:
        if o[0] == "var" and o[3] is not None:
            o = o[3]
        elif o[0] in ("clone", "try", "promoted"):
            o = o[1]
        elif o[0] == "cast":
            o = o[1]
        else:
            return o


def peel_var(o):
    while o[0] == "var" and o[3] is not None:
        o = o[3]
    return o


def access_path(o, through_clone=True, through_try=False):
    """'self.ctx.keydir' style path for arg/var/field/upvar chains, else None"""
    parts = []
    while True:
        k = o[0]
        if k == "field":
            parts.append(o[2])
            o = o[1]
        elif k == "variant":
            parts.append("<%s>" % o[2])
            o = o[1]
        elif k == "index":
            parts.append("[]")
            o = o[1]
        elif k == "arg":
            parts.append(str(o[1]))
            break
        elif k == "upvar":
            parts.append(str(o[1]).replace("__", "."))
            break
        elif k == "var":
            if o[3] is not None:
                inner = access_path(o[3], through_clone, through_try)
                if inner is not None:
                    parts.append(inner)
                    break
            parts.append("var:%s" % (o[2] or ("_%d" % o[1])))
            break
        elif k == "clone" and through_clone:
            o = o[1]
        elif k == "try" and through_try:
            o = o[1]
        elif k == "promoted":
            o = o[1]
        elif k == "cast":
            o = o[1]
        else:
            return None
    return ".".join(reversed(parts))


def origin_str(o, depth=0):
    if depth > 6:
        return "…"
    p = access_path(o)
    if p is not None:
        return p
    k = o[0]
    if k == "call":
        return "%s(%s)" % (o[1].split("::")[-1] if o[1] else "?", ", ".join(origin_str(a, depth + 1) for a in o[2]))
    if k == "const":
        return "const %s" % o[1].get("v")
    if k == "agg":
        nm = o[2] or o[1]
        if o[3]:
            nm = "%s::%s" % (nm.split("::")[-1] if nm else "", o[3])
        return "%s{%s}" % (nm, ", ".join("%s: %s" % (f, origin_str(v, depth + 1)) for f, v in o[4].items()))
    if k == "bin":
        return "(%s %s %s)" % (origin_str(o[2], depth + 1), o[1], origin_str(o[3], depth + 1))
    if k == "un":
        return "%s(%s)" % (o[1], origin_str(o[2], depth + 1))
    if k in ("cast", "discr", "clone", "try", "promoted"):
        return "%s(%s)" % (k, origin_str(o[1], depth + 1))
    if k == "var":
        return "var:%s" % (o[2] or o[1])
    if k in ("field", "variant", "index"):
        return "%s.%s" % (origin_str(o[1], depth + 1), o[2] if k != "index" else "[]")
    return "?%s" % (o[1] if len(o) > 1 else k)


def walk_origin(o, fn, depth=0):
    """pre-order walk over an origin tree"""
    if depth > 40:
        return
    fn(o)
    k = o[0]
    if k in ("field", "variant", "index", "cast", "discr", "clone", "try", "promoted", "payload"):
        walk_origin(o[1], fn, depth + 1)
    elif k == "var" and o[3] is not None:
        walk_origin(o[3], fn, depth + 1)
    elif k == "call":
        for a in o[2]:
            walk_origin(a, fn, depth + 1)
    elif k == "agg":
        for v in o[4].values():
            walk_origin(v, fn, depth + 1)
    elif k == "bin":
        walk_origin(o[2], fn, depth + 1)
        walk_origin(o[3], fn, depth + 1)
    elif k == "un":
        walk_origin(o[2], fn, depth + 1)


def origin_mentions(o, pred):
    found = []

    def f(x):
        if pred(x):
            found.append(x)

    walk_origin(o, f)
    return found


def const_int(o):
    o = peel(o)
    if o[0] == "const" and "int" in o[1]:
        return int(o[1]["int"])
    return None


def const_bytes(o):
    o = peel(o)
    if o[0] == "const" and "bytes" in o[1]:
        return bytes.fromhex(o[1]["bytes"])
    return None


# ---------------------------------------------------------------------------------------------


class Program:
    def __init__(self, records):
        self.header = None
        self.bodies = {}
        self.adts = {}
        self.fnsigs = {}
        for r in records:
            k = r["kind"]
            if k == "header":
                self.header = r
            elif k == "body":
                b = Body(r, self)
                self.bodies[b.path] = b
            elif k == "adt":
                self.adts[r["path"]] = r
            elif k == "fnsig":
                self.fnsigs[r["path"]] = r
        self.families = defaultdict(list)
        for b in self.bodies.values():
            self.families[b.root].append(b)
        self._cg = None

    @staticmethod
    def load(path):
        recs = []
        with open(path) as f:
            for line in f:
                line = line.strip()
                if line:
                    recs.append(json.loads(line))
        return Program(recs)

    # ---------------------------------------------------------------------------------
    def body(self, path):
        return self.bodies.get(path)

    def find(self, suffix):
        """bodies whose generic-stripped path ends with suffix"""
        return [b for b in self.bodies.values() if b.name == suffix or b.name.endswith("::" + suffix)]

    def one(self, suffix):
        c = self.find(suffix)
        if len(c) != 1:
            raise AnchorError("anchor %r matches %d bodies" % (suffix, len(c)))
        return c[0]

    def family(self, root_suffix):
        """all bodies of the function family rooted at the fn whose stripped path ends with suffix"""
        roots = [r for r in self.families if strip_generics(r) == root_suffix or strip_generics(r).endswith("::" + root_suffix)]
        if len(roots) != 1:
            raise AnchorError("family anchor %r matches %d roots" % (root_suffix, len(roots)))
        # closures that rules/inline.py wrote out in place are part of their host now
        return sorted([b for b in self.families[roots[0]] if not getattr(b, "spliced", False)], key=lambda b: b.path)

    def callee_body(self, t):
        """crate-local body a call terminator resolves to (or None)"""
        r = t.get("resolved")
        if r and r in self.bodies:
            return self.bodies[r]
        c = t.get("callee")
        if c and c in self.bodies:
            return self.bodies[c]
        return None

    def call_graph(self):
        """body path -> set of crate-local body paths it calls or constructs (closures/coroutines
        created in a body are attached to it, because creating one is how it gets run)."""
        if self._cg is not None:
            return self._cg
        cg = defaultdict(set)
        spliced = getattr(self, "spliced", set())
        for b in self.bodies.values():
            if b.path in spliced:
                continue  # written out in place by rules/inline.py: its calls are its host's calls
            for bi, t in b.calls():
                cb = self.callee_body(t)
                if cb is not None:
                    cg[b.path].add(cb.path)
            for blk in b.blocks:
                for st in blk["stmts"]:
                    if st["k"] == "assign" and st["rv"]["k"] == "agg" and st["rv"]["ak"] in ("closure", "coroutine", "coroutine_closure"):
                        d = st["rv"]["def"]
                        if d in self.bodies and d not in spliced:
                            cg[b.path].add(d)
        self._cg = cg
        return cg

    def reachable_bodies(self, roots):
        cg = self.call_graph()
        seen = set()
        dq = deque(roots)
        while dq:
            p = dq.popleft()
            if p in seen:
                continue
            seen.add(p)
            for q in cg.get(p, ()):
                if q not in seen:
                    dq.append(q)
        return seen

    def callers_of(self, pred):
        """all (body, bb, term) whose callee name (generics stripped; unresolved or resolved) satisfies pred"""
        out = []
        for b in self.bodies.values():
            for bi, t in b.calls():
                cn = strip_generics(t.get("callee"))
                rn = strip_generics(t.get("resolved"))
                if (cn and pred(cn)) or (rn and pred(rn)):
                    out.append((b, bi, t))
        return out


class AnchorError(Exception):
    pass


def callee_names(t):
    return strip_generics(t.get("callee")), strip_generics(t.get("resolved"))


def is_call_to(t, *names):
    """names are matched against the generic-stripped unresolved and resolved callee paths, exactly
    or as a `::`-suffix"""
    cn, rn = callee_names(t)
    for n in names:
        for c in (cn, rn):
            if c and (c == n or c.endswith("::" + n)):
                return True
    return False

"""Numeric abstract domain for E3: linear expressions over symbols + a difference-bound matrix."""
INF = float("inf")
ZERO = "0"


class Lin:
    """immutable linear expression c + sum(coeff * sym)"""

    __slots__ = ("c", "t")

    def __init__(self, c=0, t=()):
        self.c = c
        self.t = tuple(sorted((s, k) for s, k in (t.items() if isinstance(t, dict) else t) if k != 0))

    @staticmethod
    def const(c):
        return Lin(c)

    @staticmethod
    def sym(s):
        return Lin(0, ((s, 1),))

    def add(self, o):
        d = dict(self.t)
        for s, k in o.t:
            d[s] = d.get(s, 0) + k
        return Lin(self.c + o.c, d)

    def neg(self):
        return Lin(-self.c, tuple((s, -k) for s, k in self.t))

    def sub(self, o):
        return self.add(o.neg())

    def addc(self, k):
        return Lin(self.c + k, self.t)

    def scale(self, k):
        return Lin(self.c * k, tuple((s, c * k) for s, c in self.t))

    def is_const(self):
        return not self.t

    def syms(self):
        return [s for s, _ in self.t]

    def subst(self, m):
        """m: sym -> Lin"""
        r = Lin(self.c)
        for s, k in self.t:
            r = r.add((m[s] if s in m else Lin.sym(s)).scale(k))
        return r

    def __eq__(self, o):
        return isinstance(o, Lin) and self.c == o.c and self.t == o.t

    def __hash__(self):
        return hash((self.c, self.t))

    def __repr__(self):
        parts = []
        for s, k in self.t:
            parts.append(("" if k == 1 else ("-" if k == -1 else "%d*" % k)) + s)
        if self.c or not parts:
            parts.append(str(self.c))
        return "+".join(parts).replace("+-", "-")


class DBM:
    """constraints x - y <= c over symbols; ZERO is the constant 0. Kept closed (shortest paths)."""

    def __init__(self):
        self.b = {ZERO: {}}
        self.bottom = False

    def copy(self):
        d = DBM()
        d.b = {x: dict(r) for x, r in self.b.items()}
        d.bottom = self.bottom
        return d

    def ensure(self, x):
        if x not in self.b:
            self.b[x] = {}

    def get(self, x, y):
        if x == y:
            return 0
        return self.b.get(x, {}).get(y, INF)

    def add(self, x, y, c):
        """x - y <= c, incremental closure"""
        if self.bottom:
            return
        self.ensure(x)
        self.ensure(y)
        if x == y:
            if c < 0:
                self.bottom = True
            return
        if self.get(x, y) <= c:
            return
        if self.get(y, x) + c < 0:
            self.bottom = True
            return
        syms = list(self.b.keys())
        # all i,j: d(i,j) = min(d(i,j), d(i,x) + c + d(y,j))
        for i in syms:
            dix = 0 if i == x else self.get(i, x)
            if dix == INF:
                continue
            for j in syms:
                if i == j:
                    continue
                dyj = 0 if j == y else self.get(y, j)
                if dyj == INF:
                    continue
                v = dix + c + dyj
                if v < self.get(i, j):
                    self.b[i][j] = v
        for i in syms:
            if self.b[i].get(i, 0) < 0:
                self.bottom = True

    def forget(self, x):
        if x in self.b and x != ZERO:
            del self.b[x]
            for r in self.b.values():
                r.pop(x, None)

    def rename(self, old, new):
        if old not in self.b or old == new:
            return
        self.forget(new)
        self.b[new] = self.b.pop(old)
        for r in self.b.values():
            if old in r:
                r[new] = r.pop(old)

    def symbols(self):
        return set(self.b.keys())

    def keep_only(self, keep):
        for x in list(self.b.keys()):
            if x != ZERO and x not in keep:
                self.forget(x)

    # ---- bounds of linear expressions
    def upper(self, e):
        if self.bottom:
            return -INF
        t = e.t
        if not t:
            return e.c
        if len(t) == 1:
            s, k = t[0]
            if k == 1:
                return e.c + self.get(s, ZERO)
            if k == -1:
                return e.c + self.get(ZERO, s)
        if len(t) == 2:
            (s1, k1), (s2, k2) = t
            if k1 == 1 and k2 == -1:
                v = self.get(s1, s2)
                if v != INF:
                    return e.c + v
            if k1 == -1 and k2 == 1:
                v = self.get(s2, s1)
                if v != INF:
                    return e.c + v
        # interval arithmetic
        tot = e.c
        for s, k in t:
            if k > 0:
                u = self.get(s, ZERO)
                if u == INF:
                    return INF
                tot += k * u
            else:
                l = -self.get(ZERO, s)
                if l == -INF:
                    return INF
                tot += k * l
        return tot

    def lower(self, e):
        u = self.upper(e.neg())
        return -u

    def assume_le(self, e, k=0):
        """add e <= k where representable (sound: may add less than requested, never more)"""
        if self.bottom:
            return
        t = e.t
        k = k - e.c
        if not t:
            if 0 > k:
                self.bottom = True
            return
        if len(t) == 1:
            s, c = t[0]
            if c == 1:
                self.add(s, ZERO, k)
            elif c == -1:
                self.add(ZERO, s, k)
            elif c > 0:
                self.add(s, ZERO, k // c)
            else:
                self.add(ZERO, s, k // (-c))
            return
        if len(t) == 2:
            (s1, k1), (s2, k2) = t
            if k1 == 1 and k2 == -1:
                self.add(s1, s2, k)
                return
            if k1 == -1 and k2 == 1:
                self.add(s2, s1, k)
                return
        # not representable: use what intervals give for single symbols (weaker, sound)
        return

    def join(self, o):
        if self.bottom:
            return o.copy()
        if o.bottom:
            return self.copy()
        d = DBM()
        common = self.symbols() & o.symbols()
        for x in common:
            d.b.setdefault(x, {})
            for y in common:
                if x == y:
                    continue
                v = max(self.get(x, y), o.get(x, y))
                if v != INF:
                    d.b[x][y] = v
        return d

    def widen(self, new):
        """self ∇ new: keep the constraints of self that new satisfies"""
        if self.bottom:
            return new.copy()
        if new.bottom:
            return self.copy()
        d = DBM()
        common = self.symbols() & new.symbols()
        for x in common:
            d.b.setdefault(x, {})
            for y in common:
                if x == y:
                    continue
                a, b2 = self.get(x, y), new.get(x, y)
                if a != INF and b2 <= a:
                    d.b[x][y] = a
        return d

    def leq(self, o):
        """self ⊑ o (self entails every constraint of o)"""
        if self.bottom:
            return True
        if o.bottom:
            return False
        for x, r in o.b.items():
            for y, c in r.items():
                if self.get(x, y) > c:
                    return False
        return True

    def dump(self):
        out = []
        for x, r in sorted(self.b.items()):
            for y, c in sorted(r.items()):
                if c != INF:
                    out.append("%s-%s<=%s" % (x, y, c))
        return out

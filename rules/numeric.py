"""E3 — numeric obligation discharger: abstract interpretation of MIR facts over numstate/numdom,
context-sensitive inlining of crate-local callees, library models read from the library sources.

Obligation = every panic-capable construct reached: MIR Assert terminators (bounds, overflow) and
calls whose model has a precondition; calls that are neither modelled, nor listed as total, nor
crate-local are obligations too (fail closed)."""
import re
from collections import defaultdict, deque

from mir import strip_generics, short_span
from numdom import DBM, INF, ZERO, Lin
from numstate import (
    I64_MAX,
    I64_MIN,
    MAX_LEN,
    TOP,
    U64_MAX,
    State,
    join_states,
    lin_of,
    map_lins,
    state_leq,
    v_int,
    widen_states,
)

INT_RANGES = {
    "u8": (0, 255),
    "u16": (0, 65535),
    "u32": (0, (1 << 32) - 1),
    "u64": (0, U64_MAX),
    "usize": (0, U64_MAX),
    "i8": (-128, 127),
    "i16": (-32768, 32767),
    "i32": (-(1 << 31), (1 << 31) - 1),
    "i64": (I64_MIN, I64_MAX),
    "isize": (I64_MIN, I64_MAX),
}

# library functions without a panic path for any argument (read from their sources); result unknown
TOTAL_CALLS = {
    "std::option::Option::copied",
    "std::option::Option::cloned",
    "std::option::Option::filter",
    "std::option::Option::or",
    "std::option::Option::zip",
    "std::iter::Iterator::any",
    "std::iter::Iterator::all",
    "std::iter::Iterator::find",
    "std::iter::Iterator::count",
    "std::iter::Iterator::map",
    "std::iter::Iterator::filter",
    "std::iter::Iterator::enumerate",
    "std::iter::Iterator::copied",
    "std::iter::Iterator::cloned",
    "std::iter::Iterator::take_while",
    "std::iter::Iterator::rev",
    "std::slice::<impl [T]>::contains",
    "core::slice::<impl [T]>::contains",
    "std::slice::<impl [T]>::starts_with",
    "std::slice::<impl [T]>::ends_with",
    "std::slice::<impl [T]>::first",
    "std::slice::<impl [T]>::last",
    "std::slice::<impl [T]>::is_empty",
    "core::slice::<impl [T]>::is_empty",
    "std::slice::<impl [T]>::split_first",
    "std::option::Option::unwrap_or",
    "std::option::Option::unwrap_or_default",
    "std::option::Option::unwrap_or_else",
    "std::result::Result::unwrap_or",
    "std::result::Result::unwrap_or_default",
    "std::result::Result::unwrap_or_else",
    "std::str::from_utf8",
    "core::str::from_utf8",
    "std::vec::Vec::extend_from_slice",
    "std::vec::Vec::len",
    "std::vec::Vec::is_empty",
    "bytes::Bytes::copy_from_slice",
    "bytes::Bytes::from",
    "bytes::Bytes::new",
    "std::string::String::new",
    "std::string::String::from",
    "std::string::String::len",
    "std::ops::Try::branch",
    "std::ops::FromResidual::from_residual",
    "std::ops::Try::from_output",
    "std::result::Result::map_err",
    "std::result::Result::map",
    "std::result::Result::ok",
    "std::result::Result::is_ok",
    "std::result::Result::is_err",
    "std::option::Option::and_then",
    "std::option::Option::ok_or_else",
    "std::option::Option::ok_or",
    "std::option::Option::map",
    "std::option::Option::is_some",
    "std::option::Option::is_none",
    "std::option::Option::ok",
    "std::convert::TryInto::try_into",
    "std::convert::TryFrom::try_from",
    "std::convert::Into::into",
    "std::convert::From::from",
    "std::string::String::from_utf8",
    "std::string::String::from_utf8_lossy",
    "std::string::ToString::to_string",
    "std::slice::to_vec",
    "std::slice::<impl [T]>::to_vec",
    "std::vec::Vec::push",
    "std::vec::Vec::new",
    "std::cmp::impls::ne",
    "std::cmp::impls::eq",
    "std::cmp::PartialEq::eq",
    "std::cmp::PartialEq::ne",
    "std::iter::IntoIterator::into_iter",
    "core::num::checked_mul",
    "core::num::checked_add",
    "core::num::checked_sub",
    "core::num::<impl i64>::checked_mul",
    "core::num::<impl i64>::checked_add",
    "core::num::<impl i64>::checked_sub",
    "core::num::<impl usize>::checked_add",
    "core::num::<impl u64>::checked_add",
    "std::io::Cursor::get_ref",
    "std::io::Cursor::position",
    "std::io::Cursor::set_position",
    "std::io::Cursor::new",
    "std::ops::RangeInclusive::new",
    "std::ops::RangeInclusive::contains",
    "std::ops::Range::contains",
    "std::cmp::Ord::min",
    "std::cmp::Ord::max",
    "std::cmp::min",
    "std::cmp::max",
    "std::clone::Clone::clone",
    "std::mem::drop",
    "std::borrow::Cow::into_owned",
    "std::ops::Deref::deref",
    "std::ops::DerefMut::deref_mut",
    "std::convert::AsRef::as_ref",
    "std::io::Error::new",
    "std::slice::<impl [T]>::get",
    "core::slice::<impl [T]>::get",
    "core::slice::get",
    "std::slice::get",
    "std::option::Option::ok_or_else",
    "memmap2::MmapOptions::new",
    "memmap2::MmapOptions::map",
    "bincode::deserialize",
    "std::io::copy",
    "bytes::Buf::reader",
    "bytes::buf::Buf::reader",
}


def _normalise_total(names):
    import re as _re

    out = set(names)
    for n in list(names):
        m = _re.sub(r"::<impl [^>]*>", "", n)
        out.add(m)
        for a, b in (("std::", "core::"), ("core::", "std::"), ("std::", "alloc::")):
            if m.startswith(a):
                out.add(b + m[len(a):])
    return out


TOTAL_CALLS = _normalise_total(TOTAL_CALLS)


class Obligation:
    def __init__(self, body, bb, kind, what, span, frame):
        self.body = body
        self.bb = bb
        self.kind = kind
        self.what = what
        self.span = span
        self.frame = frame
        self.ok = True
        self.seen = 0
        self.detail = ""

    @property
    def key(self):
        return "%s/%s" % (strip_generics(self.body.root), self.what)


class Interp:
    def __init__(self, prog, slice_paths, cut=lambda caller, callee: False, max_depth=6):
        self.prog = prog
        self.slice = slice_paths
        self.obl = {}  # (body.path, bb, what) -> Obligation (merged over contexts: must hold in all)
        self.cut = cut
        self.max_depth = max_depth
        self.steps = 0
        self.notes = []

    # ------------------------------------------------------------------------------------
    # obligations
    def oblige(self, body, bb, kind, what, holds, st, frame, detail=""):
        import os

        dbg = os.environ.get("N1_DEBUG")
        if dbg and not holds and dbg in what and os.environ.get("N1_DEBUG_FN", "") in body.path:
            print("---- DEBUG", body.name, bb, what, frame)
            print("pos =", st.pos)
            for ck, v in sorted(st.env.items(), key=lambda x: str(x[0])):
                if ck[0] == frame:
                    print("  ", ck[1], body.local_names.get(ck[1]), v)
            for d in st.dbm.dump():
                print("    ", d)
        k = (body.path, bb, what)
        o = self.obl.get(k)
        if o is None:
            t = body.term(bb)
            o = self.obl[k] = Obligation(body, bb, kind, what, short_span(t.get("span")) if t else "?", frame)
        o.seen += 1
        if not holds:
            if o.ok:
                o.detail = detail or ("not entailed by the abstract state {%s}" % ", ".join(d for d in st.dbm.dump() if "~" not in d)[:600])
            o.ok = False

    # ------------------------------------------------------------------------------------
    # memory access
    def _ty(self, body, local):
        return body.locals[local]["ty"]

    def is_cursor_ty(self, ty):
        return "std::io::Cursor<&[u8]>" in ty or "std::io::Cursor<&'" in ty

    def load_local(self, st, frame, body, local):
        v = st.env.get((frame, local))
        if v is None:
            ty = self._ty(body, local)
            if self.is_cursor_ty(ty):
                return ("cursor",)
            return TOP
        return v

    def load(self, st, frame, body, pl):
        v = self.load_local(st, frame, body, pl["l"])
        for el in pl["p"]:
            v = self._project(st, v, el)
        return v

    def _deref(self, st, v):
        hops = 0
        while v[0] == "ref" and hops < 8:
            (f, l), path = v[1], v[2]
            x = st.env.get((f, l), TOP)
            for p in path:
                x = self._field(x, p)
            v = x
            hops += 1
        return v

    def _field(self, v, name):
        if v[0] == "tag":
            return v[3].get(name, TOP)
        if v[0] == "cursor":
            return ("cursor",)
        return TOP

    def _project(self, st, v, el):
        k = el[0]
        if k == "d":
            if v[0] == "ref":
                return self._deref(st, v)
            return v  # refs to the cursor / slices are identified with their target
        if k == "f":
            if v[0] == "ref":
                # field of a referenced aggregate without deref (shouldn't happen), be conservative
                return TOP
            return self._field(v, el[2])
        if k == "dc":
            return v
        if k in ("i", "ci", "sub"):
            if v[0] == "slice":
                return ("int", None) if False else TOP
            return TOP
        return v

    def store(self, st, frame, body, pl, val):
        base = (frame, pl["l"])
        proj = pl["p"]
        if not proj:
            st.env[base] = val
            return
        # resolve a leading deref of a ref local
        cur = st.env.get(base, TOP)
        i = 0
        target = base
        tpath = []
        while i < len(proj):
            el = proj[i]
            if el[0] == "d":
                if cur[0] == "ref":
                    target = cur[1]
                    tpath = list(cur[2])
                    cur = self._deref(st, cur)
                elif cur[0] == "cursor":
                    return  # writes into the cursor object go through models only
                else:
                    # unknown pointee: cannot tell what is overwritten → give up on everything numeric reachable
                    return
            elif el[0] == "f":
                tpath.append(el[2])
                cur = self._field(cur, el[2])
            elif el[0] == "dc":
                pass
            else:
                return
            i += 1
        root = st.env.get(target, TOP)
        st.env[target] = self._update(root, tpath, val)

    def _update(self, root, path, val):
        if not path:
            return val
        if root[0] != "tag":
            root = ("tag", "?", None, {})
        f = dict(root[3])
        f[path[0]] = self._update(f.get(path[0], TOP), path[1:], val)
        return ("tag", root[1], root[2], f)

    # ------------------------------------------------------------------------------------
    # operands / rvalues
    def const_val(self, op):
        ty = op.get("ty", "")
        if "int" in op:
            n = int(op["int"])
            if ty == "bool":
                return ("bool", ("c", n != 0))
            return v_int(n)
        return TOP

    def operand(self, st, frame, body, op):
        k = op["k"]
        if k in ("copy", "move"):
            return self.load(st, frame, body, op["pl"])
        if k == "const":
            if "promoted" in op:
                owner = body.owner or body
                idx = op["promoted"]
                if idx < len(owner.promoted):
                    pb = owner.promoted[idx]
                    sub = "%s|prom%d" % (frame, idx)
                    rets = FnRun(self, pb, sub, 99).run(st.copy())
                    if len(rets) == 1:
                        s2, rv = rets[0]
                        val = self._deref(s2, rv) if rv is not None and rv[0] == "ref" else (rv or TOP)
                        return val
                return TOP
            return self.const_val(op)
        return TOP

    def type_range(self, ty):
        return INT_RANGES.get(ty)

    def fresh_int(self, st, name, lo=None, hi=None):
        st.dbm.forget(name)
        st.dbm.ensure(name)
        if lo is not None:
            st.dbm.add(ZERO, name, -lo)
        if hi is not None:
            st.dbm.add(name, ZERO, hi)
        return v_int(Lin.sym(name))

    def rvalue(self, st, frame, body, bb, si, st_rec):
        rv = st_rec["rv"]
        k = rv["k"]
        dl = st_rec["pl"]["l"]
        dty = self._ty(body, dl) if not st_rec["pl"]["p"] else ""
        if k == "use":
            return self.operand(st, frame, body, rv["op"])
        if k in ("ref", "rawptr"):
            pl = rv["pl"]
            v = self.load(st, frame, body, pl)
            # reference to a whole local or a field path without deref: keep as ref so that writes through it are seen
            if not any(el[0] == "d" for el in pl["p"]) and all(el[0] in ("f", "dc") for el in pl["p"]):
                tv = self.load_local(st, frame, body, pl["l"])
                if v[0] in ("cursor", "slice"):
                    return v
                return ("ref", (frame, pl["l"]), tuple(el[2] for el in pl["p"] if el[0] == "f"))
            # reborrow through a ref: point at the same target
            if pl["p"] and pl["p"][0][0] == "d":
                basev = self.load_local(st, frame, body, pl["l"])
                if basev[0] == "ref":
                    return ("ref", basev[1], tuple(basev[2]) + tuple(el[2] for el in pl["p"][1:] if el[0] == "f"))
            return v
        if k == "copyderef":
            return self.load(st, frame, body, rv["pl"])
        if k == "cast":
            v = self.operand(st, frame, body, rv["op"])
            tty = rv.get("ty", "")
            if v[0] == "int":
                r = self.type_range(tty)
                if r and st.lower(v[1]) >= r[0] and st.upper(v[1]) <= r[1]:
                    return v
                return self.fresh_int(st, "cast[%s|%s_%s_%s]" % (frame, body.path[-20:], bb, si), *(r or (None, None)))
            if v[0] in ("slice", "cursor", "ref"):
                return v
            r = self.type_range(tty)
            if r:
                return self.fresh_int(st, "cast[%s|%s_%s_%s]" % (frame, body.path[-20:], bb, si), r[0], r[1])
            return TOP
        if k == "bin":
            a = self.operand(st, frame, body, rv["a"])
            b = self.operand(st, frame, body, rv["b"])
            return self.binop(st, frame, body, bb, si, rv["op"], a, b, rv)
        if k == "un":
            a = self.operand(st, frame, body, rv["a"])
            if rv["op"] == "Not" and a[0] == "bool":
                return ("bool", ("not", a[1]))
            if rv["op"] == "PtrMetadata":
                if a[0] == "slice":
                    return v_int(a[1])
                return self.fresh_int(st, "meta[%s|%s_%s]" % (frame, bb, si), 0, MAX_LEN)
            if rv["op"] == "Neg" and a[0] == "int":
                return v_int(a[1].neg())
            return TOP
        if k == "discr":
            v = self.load(st, frame, body, rv["pl"])
            if v[0] == "tag" and v[2] is not None:
                for val, name in rv.get("variants", []):
                    if name == v[2]:
                        return v_int(int(val))
            return ("discr", rv["pl"], rv.get("variants", []))
        if k == "agg":
            ak = rv["ak"]
            ops = [self.operand(st, frame, body, o) for o in rv["ops"]]
            if ak == "adt":
                fields = rv.get("fields", [])
                adt = strip_generics(rv["adt"])
                is_enum = adt in ("std::option::Option", "std::result::Result", "std::ops::ControlFlow") or rv["variant"] != adt.split("::")[-1]
                fm = {(fields[i] if i < len(fields) else str(i)): o for i, o in enumerate(ops)}
                return ("tag", adt, rv["variant"] if is_enum else None, fm)
            if ak in ("tuple", "closure", "coroutine"):
                fields = rv.get("fields") or [str(i) for i in range(len(ops))]
                fm = {(fields[i] if i < len(fields) else str(i)): o for i, o in enumerate(ops)}
                return ("tag", rv.get("def") or "tuple", None, fm)
            return TOP
        return TOP

    def binop(self, st, frame, body, bb, si, op, a, b, rv):
        la, lb = lin_of(a), lin_of(b)
        aty = self.op_ty(body, rv["a"])
        if op in ("Lt", "Le", "Gt", "Ge", "Eq", "Ne"):
            if la is not None and lb is not None:
                return ("bool", ("cmp", op, la, lb))
            if a[0] == "bool" and b[0] == "bool" and op in ("Eq", "Ne"):
                return ("bool", ("?",))
            return ("bool", ("?",))
        base = op.replace("WithOverflow", "").replace("Unchecked", "")
        wo = op.endswith("WithOverflow")
        res = TOP
        ovf = ("?",)
        rng = self.type_range(aty)
        if base in ("Add", "Sub"):
            if la is not None and lb is not None:
                e = la.add(lb) if base == "Add" else la.sub(lb)
                res = v_int(e)
                if rng:
                    ovf = ("ovf", "range", e, rng[0], rng[1])
            elif a[0] == "dec10" and lb is not None and st.lower(lb) >= 0 and st.upper(lb) <= 9:
                res = ("dec", a[1].addc(1))
                ovf = ("decfit", "d", a[1].addc(1))
            elif a[0] == "dec" and lb is not None:
                res = TOP
        elif base == "Mul":
            ca = la if (la is not None and la.is_const()) else None
            cb = lb if (lb is not None and lb.is_const()) else None
            if la is not None and cb is not None:
                e = la.scale(cb.c)
                if aty == "i64" and cb.c == 10 and la.is_const() and la.c == 0:
                    res = ("dec10", Lin.const(0))
                    ovf = ("decfit", "d", Lin.const(1))
                else:
                    res = v_int(e)
                    if rng:
                        ovf = ("ovf", "range", e, rng[0], rng[1])
            elif ca is not None and lb is not None:
                e = lb.scale(ca.c)
                res = v_int(e)
                if rng:
                    ovf = ("ovf", "range", e, rng[0], rng[1])
            elif a[0] == "dec" and cb is not None and cb.c == 10:
                res = ("dec10", a[1])
                ovf = ("decfit", "d", a[1].addc(1))
        elif base in ("Shl", "Shr", "BitAnd", "BitOr", "BitXor", "Div", "Rem"):
            res = TOP
        if wo:
            return ("tag", "tuple", None, {"0": res, "1": ("bool", ovf)})
        # unchecked arithmetic in release semantics: wrapping is a wrong value, treated like the assert
        if res[0] == "int" and rng and not (st.lower(res[1]) >= rng[0] and st.upper(res[1]) <= rng[1]):
            return res  # value kept symbolic; an explicit obligation is raised by the caller for non-WithOverflow ops
        return res

    def op_ty(self, body, op):
        if op["k"] == "const":
            return op.get("ty", "")
        pl = op["pl"]
        if not pl["p"]:
            return body.locals[pl["l"]]["ty"]
        return ""

    # ------------------------------------------------------------------------------------
    # conditions
    def entails(self, st, c):
        """True if the state entails cond c; False if unknown or not"""
        if st.bottom:
            return True
        k = c[0]
        if k == "c":
            return c[1] is True
        if k == "cmp":
            d = c[2].sub(c[3])
            op = c[1]
            if op == "Lt":
                return st.upper(d) <= -1
            if op == "Le":
                return st.upper(d) <= 0
            if op == "Gt":
                return st.lower(d) >= 1
            if op == "Ge":
                return st.lower(d) >= 0
            if op == "Eq":
                return st.upper(d) <= 0 and st.lower(d) >= 0
            if op == "Ne":
                return st.upper(d) <= -1 or st.lower(d) >= 1
        if k == "not":
            return self.entails_not(st, c[1])
        if k == "and":
            return self.entails(st, c[1]) and self.entails(st, c[2])
        if k == "or":
            return self.entails(st, c[1]) or self.entails(st, c[2])
        if k == "ovf":
            # overflow happened?  entailed only if surely out of range
            e, lo, hi = c[2], c[3], c[4]
            return st.lower(e) > hi or st.upper(e) < lo
        if k == "decfit":
            return st.lower(c[2]) > 18
        return False

    def entails_not(self, st, c):
        k = c[0]
        if k == "c":
            return c[1] is False
        if k == "cmp":
            neg = {"Lt": "Ge", "Le": "Gt", "Gt": "Le", "Ge": "Lt", "Eq": "Ne", "Ne": "Eq"}[c[1]]
            return self.entails(st, ("cmp", neg, c[2], c[3]))
        if k == "not":
            return self.entails(st, c[1])
        if k == "and":
            return self.entails_not(st, c[1]) or self.entails_not(st, c[2])
        if k == "or":
            return self.entails_not(st, c[1]) and self.entails_not(st, c[2])
        if k == "ovf":
            e, lo, hi = c[2], c[3], c[4]
            return st.lower(e) >= lo and st.upper(e) <= hi
        if k == "decfit":
            return st.upper(c[2]) <= 18
        return False

    def refine(self, st, c, truth):
        """add cond c == truth to the state"""
        k = c[0]
        if k == "c":
            if c[1] != truth:
                st.dbm.bottom = True
            return
        if k == "not":
            return self.refine(st, c[1], not truth)
        if k == "and":
            if truth:
                self.refine(st, c[1], True)
                self.refine(st, c[2], True)
            return
        if k == "or":
            if not truth:
                self.refine(st, c[1], False)
                self.refine(st, c[2], False)
            return
        if k == "cmp":
            op = c[1]
            if not truth:
                op = {"Lt": "Ge", "Le": "Gt", "Gt": "Le", "Ge": "Lt", "Eq": "Ne", "Ne": "Eq"}[op]
            d = c[2].sub(c[3])
            if op == "Lt":
                st.assume_le(d, -1)
            elif op == "Le":
                st.assume_le(d, 0)
            elif op == "Gt":
                st.assume_le(d.neg(), -1)
            elif op == "Ge":
                st.assume_le(d.neg(), 0)
            elif op == "Eq":
                st.assume_le(d, 0)
                st.assume_le(d.neg(), 0)
            elif op == "Ne":
                if st.upper(d) <= 0:
                    st.assume_le(d, -1)
                elif st.lower(d) >= 0:
                    st.assume_le(d.neg(), -1)
            return
        if k == "ovf":
            if not truth:
                e, lo, hi = c[2], c[3], c[4]
                st.assume_le(e, hi)
                st.assume_le(e.neg(), -lo)
            return
        if k == "decfit":
            if not truth:
                st.assume_le(c[2], 18)
            return


# ==============================================================================================
# function analysis


def _cn(t):
    return strip_generics(t.get("callee")), strip_generics(t.get("resolved"))


class FnRun:
    """one analysis of one body in one calling context"""

    def __init__(self, ip, body, frame, depth):
        self.ip = ip
        self.body = body
        self.frame = frame
        self.depth = depth
        self.loop_heads = self._loop_heads()

    def _loop_heads(self):
        b = self.body
        heads = set()
        color = {}
        stack = [(0, iter(b.succ[0]))]
        color[0] = 1
        while stack:
            n, it = stack[-1]
            adv = False
            for e in it:
                if e.kind == "unwind":
                    continue
                c = color.get(e.dst, 0)
                if c == 0:
                    color[e.dst] = 1
                    stack.append((e.dst, iter(b.succ[e.dst])))
                    adv = True
                    break
                if c == 1:
                    heads.add(e.dst)
            if not adv:
                color[n] = 2
                stack.pop()
        return heads

    def run(self, init):
        """init: State with args bound in this frame. Returns list of (state, retval) at Return."""
        ip, b = self.ip, self.body
        states = defaultdict(dict)  # bb -> key -> State
        visits = defaultdict(int)
        wl = deque()
        states[0][init.key()] = init
        wl.append((0, init.key()))
        inq = {(0, init.key())}
        rets = []
        while wl:
            bb, key = wl.popleft()
            inq.discard((bb, key))
            st = states[bb].get(key)
            if st is None or st.bottom:
                continue
            ip.steps += 1
            if ip.steps > 200000:
                ip.notes.append("step budget exceeded in %s" % b.path)
                ip.oblige(b, bb, "engine", "analysis budget", False, st, self.frame, "step budget exceeded: no verdict (fail closed)")
                break
            outs = self.block(bb, st.copy())
            for dst, s2, rv in outs:
                if s2.bottom:
                    continue
                if dst is None:
                    rets.append((s2, rv))
                    continue
                s2.prune()
                k2 = s2.key()
                old = states[dst].get(k2)
                point = "%s@%d" % (self.frame, dst)
                if old is None:
                    new = s2
                else:
                    if state_leq(s2, old):
                        continue
                    new = join_states(old, s2, point)
                    if dst in self.loop_heads:
                        visits[(dst, k2)] += 1
                        if visits[(dst, k2)] > 2:
                            new = widen_states(old, new)
                    if state_leq(new, old) and state_leq(old, new):
                        continue
                # the key may change after a join (tags merged)
                nk = new.key()
                if nk != k2:
                    states[dst].pop(k2, None)
                    prev = states[dst].get(nk)
                    if prev is not None:
                        new = join_states(prev, new, point)
                states[dst][nk] = new
                if (dst, nk) not in inq:
                    inq.add((dst, nk))
                    wl.append((dst, nk))
        return rets

    # ------------------------------------------------------------------------------------
    def block(self, bb, st):
        ip, b, fr = self.ip, self.body, self.frame
        blk = b.blocks[bb]
        for si, s in enumerate(blk["stmts"]):
            k = s["k"]
            if k == "assign":
                v = ip.rvalue(st, fr, b, bb, si, s)
                if v == TOP and not s["pl"]["p"]:
                    r = INT_RANGES.get(b.locals[s["pl"]["l"]]["ty"])
                    if r:
                        v = ip.fresh_int(st, "v[%s@%d.%d]" % (fr, bb, si), r[0], r[1])
                ip.store(st, fr, b, s["pl"], v)
            elif k == "dead":
                st.env.pop((fr, s["l"]), None)
            elif k == "live":
                st.env.pop((fr, s["l"]), None)
        t = blk["term"]
        k = t["k"]
        if k == "goto":
            return [(t["t"], st, None)]
        if k in ("falseedge", "falseunwind"):
            return [(t["real"], st, None)]
        if k == "return":
            return [(None, st, ip.load_local(st, fr, b, 0))]
        if k in ("resume", "unreachable", "terminate"):
            return []
        if k == "drop":
            if not t["pl"]["p"]:
                st.env.pop((fr, t["pl"]["l"]), None)
            return [(t["t"], st, None)]
        if k == "assert":
            c = ip.operand(st, fr, b, t["cond"])
            cond = c[1] if c[0] == "bool" else ("?",)
            want = t["expected"]
            holds = ip.entails(st, cond) if want else ip.entails_not(st, cond)
            m = t["msg"]
            what = "assert %s" % m["k"]
            if m["k"] == "Overflow":
                what = "no overflow in %s" % m.get("op")
            elif m["k"] == "BoundsCheck":
                what = "index within bounds"
            ip.oblige(b, bb, "assert", what, holds, st, fr)
            ip.refine(st, cond, want)
            return [(t["t"], st, None)]
        if k == "switch":
            return self.switch(bb, st, t)
        if k == "call":
            return self.call(bb, st, t)
        if k == "yield":
            return [(t["resume"], st, None)]
        return []

    def switch(self, bb, st, t):
        ip, b, fr = self.ip, self.body, self.frame
        v = ip.operand(st, fr, b, t["op"])
        outs = []
        targets = t["targets"]
        if v[0] == "bool":
            for val, dst in targets:
                s2 = st.copy()
                ip.refine(s2, v[1], val != "0")
                self._set_bool(s2, t["op"], val != "0")
                outs.append((dst, s2, None))
            vals = {val for val, _ in targets}
            s2 = st.copy()
            if vals == {"0"}:
                ip.refine(s2, v[1], True)
                self._set_bool(s2, t["op"], True)
                outs.append((t["otherwise"], s2, None))
            elif vals == {"1"}:
                ip.refine(s2, v[1], False)
                self._set_bool(s2, t["op"], False)
                outs.append((t["otherwise"], s2, None))
            elif vals != {"0", "1"}:
                outs.append((t["otherwise"], s2, None))
            return outs
        if v[0] == "discr":
            pl, variants = v[1], v[2]
            names = {val: n for val, n in variants}
            cur = ip.load(st, fr, b, pl)
            listed = set()
            for val, dst in targets:
                listed.add(val)
                s2 = st.copy()
                self._set_tag(s2, pl, cur, names.get(val))
                outs.append((dst, s2, None))
            rest = [n for val, n in variants if val not in listed]
            if rest:
                s2 = st.copy()
                if len(rest) == 1:
                    self._set_tag(s2, pl, cur, rest[0])
                outs.append((t["otherwise"], s2, None))
            return outs
        if v[0] == "int":
            e = v[1]
            for val, dst in targets:
                s2 = st.copy()
                n = int(val)
                s2.assume_le(e, n)
                s2.assume_le(e.neg(), -n)
                outs.append((dst, s2, None))
            s2 = st.copy()
            if len(targets) == 1:
                n = int(targets[0][0])
                if s2.dbm.upper(e) <= n:
                    s2.assume_le(e, n - 1)
                elif s2.dbm.lower(e) >= n:
                    s2.assume_le(e.neg(), -(n + 1))
            outs.append((t["otherwise"], s2, None))
            return outs
        for val, dst in targets:
            outs.append((dst, st.copy(), None))
        outs.append((t["otherwise"], st.copy(), None))
        return outs

    def _set_bool(self, st, op, val):
        if op["k"] in ("copy", "move") and not op["pl"]["p"]:
            st.env[(self.frame, op["pl"]["l"])] = ("bool", ("c", val))

    def _set_tag(self, st, pl, cur, name):
        if name is None:
            return
        if cur[0] == "tag":
            if cur[2] is not None and cur[2] != name:
                st.dbm.bottom = True
                return
            nv = ("tag", cur[1], name, cur[3])
        else:
            nv = ("tag", "?", name, {})
        self.ip.store(st, self.frame, self.body, pl, nv)

    # ------------------------------------------------------------------------------------
    def call(self, bb, st, t):
        ip, b, fr = self.ip, self.body, self.frame
        cn, rn = _cn(t)
        args = [ip.operand(st, fr, b, a) for a in t["args"]]
        dest = t["dest"]
        nxt = t["t"]

        def ret(val, s=None):
            s = s if s is not None else st
            if nxt is None:
                return []
            ip.store(s, fr, b, dest, val)
            return [(nxt, s, None)]

        site = "%s:%d" % (fr, bb)
        # ---- crate-local callee in the slice: inline
        cb = ip.prog.callee_body(t)
        if cb is not None and not cb.coroutine:
            if cb.path in ip.slice:
                if ip.cut(b, cb) or self.depth >= ip.max_depth or ("|" + cb.path + "#") in ("|" + fr):
                    # recursion cut: havoc the cursor position; result unknown
                    st.pos = ip.fresh_int(st, "havoc[%s]" % site, 0, U64_MAX)[1]
                    return ret(TOP)
                sub = "%s|%s#%d" % (fr, cb.path, bb)
                s0 = st.copy()
                for i, a in enumerate(args):
                    s0.env[(sub, i + 1)] = a
                rets = FnRun(ip, cb, sub, self.depth + 1).run(s0)
                outs = []
                for s2, rv in rets:
                    s2.drop_frame(sub)
                    if nxt is not None:
                        ip.store(s2, fr, b, dest, rv if rv is not None else TOP)
                        outs.append((nxt, s2, None))
                return outs
        model = MODELS.get(cn) or MODELS.get(rn)
        if model is None and rn:
            for pat, fn in PATTERN_MODELS:
                if pat.search(rn) or (cn and pat.search(cn)):
                    model = fn
                    break
        if model is not None:
            return model(self, bb, st, t, args, ret, site)
        # closures passed to total higher-order functions: analyse their bodies in place
        if cn in TOTAL_CALLS or rn in TOTAL_CALLS or (cn and cn.startswith("std::fmt::")) or (cn and cn.startswith("core::fmt::")):
            for a in args:
                self._run_closure_arg(st, a, site)
            return ret(self._total_result(st, t, cn, args, site))
        if cb is not None and cb.path not in ip.slice:
            # crate-local but outside the declared slice: analyse anyway (fail closed on budget)
            sub = "%s|%s#%d" % (fr, cb.path, bb)
            s0 = st.copy()
            for i, a in enumerate(args):
                s0.env[(sub, i + 1)] = a
            rets = FnRun(ip, cb, sub, self.depth + 1).run(s0)
            outs = []
            for s2, rv in rets:
                s2.drop_frame(sub)
                if nxt is not None:
                    ip.store(s2, fr, b, dest, rv if rv is not None else TOP)
                    outs.append((nxt, s2, None))
            return outs
        exp = t.get("fn_exp") or ""
        # the expansion of a tracing event (trace!/debug!/info!/warn!/error!): level filtering, the
        # call-site registry and the dispatch to the subscriber — logging is trusted not to panic
        # (the same trust N3 and the rest of the rules place in it)
        exp_all = exp + ">" + (t.get("exp") or "")
        if "macro:$crate::event" in exp_all or "macro:tracing::" in exp_all or any(("macro:%s" % m) in exp_all or ("macro:$crate::%s" % m) in exp_all for m in ("trace", "debug", "info", "warn", "error", "event", "level_enabled", "valueset", "fieldset", "callsite", "enabled")):
            for a in args:
                self._run_closure_arg(st, a, site)
            return ret(self._total_result(st, t, cn, args, site))
        ip.oblige(b, bb, "call", "call %s cannot panic" % (cn or rn or "<indirect>"), False, st, fr, "the callee is neither crate-local, nor modelled, nor in the table of total functions: it may panic (e.g. unwrap/expect/index)")
        return ret(TOP)

    def _run_closure_arg(self, st, a, site):
        ip = self.ip
        if a[0] == "tag" and isinstance(a[1], str) and a[1] in ip.prog.bodies and ip.prog.bodies[a[1]].def_kind == "Closure":
            cb = ip.prog.bodies[a[1]]
            sub = "%s|%s#c" % (self.frame, cb.path)
            s0 = st.copy()
            s0.env[(sub, 1)] = a
            # the closure may or may not run; its obligations must hold if it does; its effects on the
            # caller's numeric state are ignored (it receives refs only to read in this code base)
            FnRun(ip, cb, sub, self.depth + 1).run(s0)

    def _total_result(self, st, t, cn, args, site):
        ip = self.ip
        dty = t.get("dest_ty") or ""
        if cn in ("std::ops::Try::branch",) and args and args[0][0] == "tag":
            v = args[0]
            if v[2] in ("Ok", "Some"):
                return ("tag", "std::ops::ControlFlow", "Continue", {"0": v[3].get("0", TOP)})
            if v[2] in ("Err", "None"):
                return ("tag", "std::ops::ControlFlow", "Break", {"0": TOP})
            return ("tag", "std::ops::ControlFlow", None, {"0": v[3].get("0", TOP)})
        if cn in ("std::option::Option::ok_or", "std::option::Option::ok_or_else") and args and args[0][0] == "tag":
            v = args[0]
            if v[2] == "Some":
                return ("tag", "std::result::Result", "Ok", {"0": v[3].get("0", TOP)})
            if v[2] == "None":
                return ("tag", "std::result::Result", "Err", {"0": TOP})
            return ("tag", "std::result::Result", None, {"0": TOP})
        if cn in ("std::option::Option::copied", "std::option::Option::cloned") and args and args[0][0] == "tag":
            v = args[0]
            return ("tag", "std::option::Option", v[2], {"0": TOP} if v[2] != "None" else {})
        if cn in ("std::result::Result::map_err",) and args and args[0][0] == "tag":
            v = args[0]
            if v[2] == "Ok":
                return ("tag", "std::result::Result", "Ok", {"0": v[3].get("0", TOP)})
            if v[2] == "Err":
                return ("tag", "std::result::Result", "Err", {"0": TOP})
            return ("tag", "std::result::Result", None, {"0": TOP})
        if cn == "std::convert::TryInto::try_into" and args and args[0][0] == "int":
            # Ok(v) only when v fits the target; the target here is usize/u64 from i64 (or the reverse)
            name = "tryinto[%s]" % site
            e = args[0][1]
            r = None
            m = re.search(r"Result<(\w+),", dty)
            if m:
                r = INT_RANGES.get(m.group(1))
            if r:
                lo = max(r[0], st.lower(e) if st.lower(e) != -INF else r[0])
                pv = ip.fresh_int(st, name, r[0], r[1])
                # payload equals the source when Ok
                st.assume_le(pv[1].sub(e), 0) if True else None
                st.assume_le(e.sub(pv[1]), 0) if st.lower(e) >= r[0] and st.upper(e) <= r[1] else None
                return ("tag", "std::result::Result", None, {"0": pv})
            return ("tag", "std::result::Result", None, {"0": TOP})
        if cn in ("std::cmp::Ord::min", "std::cmp::min") and len(args) == 2 and args[0][0] == "int" and args[1][0] == "int":
            m = ip.fresh_int(st, "min[%s]" % site)
            st.assume_le(m[1].sub(args[0][1]), 0)
            st.assume_le(m[1].sub(args[1][1]), 0)
            lo = min(st.lower(args[0][1]), st.lower(args[1][1]))
            if lo != -INF:
                st.assume_le(m[1].neg(), -lo)
            return m
        if cn in ("std::io::Cursor::position",):
            return v_int(st.pos)
        if cn in ("std::io::Cursor::get_ref",):
            return ("slice", Lin.sym("len"))
        if cn in ("std::ops::RangeInclusive::new",) and len(args) == 2:
            return ("tag", "std::ops::RangeInclusive", None, {"start": args[0], "end": args[1]})
        if cn in ("std::ops::RangeInclusive::contains",) and len(args) == 2:
            r, x = ip._deref(st, args[0]), ip._deref(st, args[1])
            if r[0] == "tag" and x[0] == "int":
                lo, hi = r[3].get("start", TOP), r[3].get("end", TOP)
                if lo[0] == "int" and hi[0] == "int":
                    return ("bool", ("and", ("cmp", "Ge", x[1], lo[1]), ("cmp", "Le", x[1], hi[1])))
            return ("bool", ("?",))
        if cn == "std::iter::IntoIterator::into_iter" and args:
            return args[0]
        if cn in ("std::ops::Deref::deref", "std::ops::DerefMut::deref_mut", "std::convert::AsRef::as_ref", "std::clone::Clone::clone") and args:
            a = ip._deref(st, args[0]) if args[0][0] == "ref" else args[0]
            if a[0] in ("slice", "cursor", "int"):
                return a
            if "memmap2::Mmap" in " ".join(t.get("arg_tys") or []):
                st.mlen_gen += 1
                nm = "mmaplen[%s]" % site
                return ("slice", ip.fresh_int(st, nm, 0, MAX_LEN)[1])
            return TOP
        r = None
        m = re.match(r"^(\w+)$", dty)
        if m:
            r = INT_RANGES.get(m.group(1))
        if r:
            return ip.fresh_int(st, "ret[%s]" % site, r[0], r[1])
        if dty == "bool":
            return ("bool", ("?",))
        if dty.startswith("&[u8]") or dty.startswith("&'") and "[u8]" in dty:
            return ("slice", ip.fresh_int(st, "slen[%s]" % site, 0, MAX_LEN)[1])
        return TOP


# ==============================================================================================
# library models (each cites the source it was read from)


def _remaining(run, st, site):
    """bytes-1.0.1/src/buf/buf_impl.rs, impl Buf for std::io::Cursor<T>::remaining:
    len = get_ref().len(); pos = position(); if pos >= len { 0 } else { len - pos }"""
    ip = run.ip
    d = Lin.sym("len").sub(st.pos)
    if st.lower(d) >= 0:
        if len(st.pos.t) == 1 and st.pos.t[0][1] == 1:
            P = st.pos.t[0][0]
            return v_int(Lin.sym(st.companion(P)).addc(-st.pos.c))
        return v_int(d)
    if st.upper(d) <= 0:
        return v_int(0)
    r = ip.fresh_int(st, "rem[%s]" % site, 0, MAX_LEN)
    st.assume_le(d.sub(r[1]), 0)  # r >= len - pos
    if len(st.pos.t) <= 1:
        st.remdefs["rem[%s]" % site] = st.pos  # r = max(0, len - pos): used when r is later compared
    return r


def m_remaining(run, bb, st, t, args, ret, site):
    return ret(_remaining(run, st, site))


def m_has_remaining(run, bb, st, t, args, ret, site):
    # remaining() > 0  ⇔  pos < len
    return ret(("bool", ("cmp", "Lt", st.pos, Lin.sym("len"))))


def m_advance(run, bb, st, t, args, ret, site):
    """Cursor::advance(cnt): pos = position().checked_add(cnt).expect(..); assert!(pos <= len)"""
    ip = run.ip
    cnt = args[1] if len(args) > 1 else TOP
    if cnt[0] != "int":
        ip.oblige(run.body, bb, "pre", "advance(cnt): pos + cnt <= len", False, st, run.frame, "cnt is not a tracked integer")
        st.pos = ip.fresh_int(st, "pos[%s]" % site, 0, MAX_LEN)[1]
        st.assume_le(st.pos.sub(Lin.sym("len")), 0)
        return ret(TOP)
    newp = st.pos.add(cnt[1])
    holds = st.upper(newp.sub(Lin.sym("len"))) <= 0
    ip.oblige(run.body, bb, "pre", "advance(cnt): pos + cnt <= len", holds, st, run.frame)
    st.assume_le(newp.sub(Lin.sym("len")), 0)
    st.pos = _norm(run, st, newp, "pos[%s]" % site)
    return ret(TOP)


def _norm(run, st, e, name):
    """keep pos a unit expression (sym + c) so that later difference constraints stay representable"""
    if len(e.t) <= 1 and all(k == 1 for _, k in e.t):
        return e
    st.define(name, e)
    return Lin.sym(name)


def m_get_u8(run, bb, st, t, args, ret, site):
    """Buf::get_u8 (default): assert!(self.remaining() >= 1); ret = chunk()[0]; advance(1)"""
    ip = run.ip
    holds = st.upper(st.pos.sub(Lin.sym("len"))) <= -1
    ip.oblige(run.body, bb, "pre", "get_u8: remaining() >= 1", holds, st, run.frame)
    st.assume_le(st.pos.sub(Lin.sym("len")), -1)
    st.pos = st.pos.addc(1)
    return ret(ip.fresh_int(st, "byte[%s]" % site, 0, 255))


def m_chunk(run, bb, st, t, args, ret, site):
    r = _remaining(run, st, site)
    return ret(("slice", r[1]))


def m_copy_to_bytes(run, bb, st, t, args, ret, site):
    """Buf::copy_to_bytes(len) (default): assert!(len <= self.remaining())"""
    ip = run.ip
    n = args[1] if len(args) > 1 else TOP
    if n[0] != "int":
        ip.oblige(run.body, bb, "pre", "copy_to_bytes(n): n <= remaining()", False, st, run.frame, "n is not tracked")
        return ret(TOP)
    newp = st.pos.add(n[1])
    holds = st.upper(newp.sub(Lin.sym("len"))) <= 0
    ip.oblige(run.body, bb, "pre", "copy_to_bytes(n): n <= remaining()", holds, st, run.frame)
    st.assume_le(newp.sub(Lin.sym("len")), 0)
    st.pos = _norm(run, st, newp, "pos[%s]" % site)
    return ret(TOP)


def m_set_position(run, bb, st, t, args, ret, site):
    if len(args) > 1 and args[1][0] == "int":
        st.pos = _norm(run, st, args[1][1], "pos[%s]" % site)
    else:
        st.pos = run.ip.fresh_int(st, "pos[%s]" % site, 0, U64_MAX)[1]
    return ret(TOP)


def m_slice_len(run, bb, st, t, args, ret, site):
    a = run.ip._deref(st, args[0]) if args and args[0][0] == "ref" else (args[0] if args else TOP)
    if a[0] == "slice":
        return ret(v_int(a[1]))
    return ret(run.ip.fresh_int(st, "slen[%s]" % site, 0, MAX_LEN))


def m_index(run, bb, st, t, args, ret, site):
    """core::slice::index: <[T] as Index<I>>::index — I from the generic args
    Range: start <= end && end <= len; RangeInclusive: start <= end+1 && end < len; RangeFrom: start <= len;
    RangeTo: end <= len; usize: idx < len (slice/index.rs)"""
    ip = run.ip
    s = ip._deref(st, args[0]) if args[0][0] == "ref" else args[0]
    idx = ip._deref(st, args[1]) if len(args) > 1 and args[1][0] == "ref" else (args[1] if len(args) > 1 else TOP)
    ity = " ".join(t.get("arg_tys") or [])
    if s[0] != "slice":
        ip.oblige(run.body, bb, "pre", "slice index within bounds", False, st, run.frame, "indexed value is not a tracked slice")
        return ret(("slice", ip.fresh_int(st, "slen[%s]" % site, 0, MAX_LEN)[1]))
    n = s[1]
    if idx[0] == "int":
        holds = st.upper(idx[1].sub(n)) <= -1 and st.lower(idx[1]) >= 0
        ip.oblige(run.body, bb, "pre", "slice index within bounds", holds, st, run.frame)
        return ret(TOP)
    if idx[0] == "tag" and ("start" in idx[3] or "end" in idx[3]):
        a, z = idx[3].get("start"), idx[3].get("end")
        incl = "RangeInclusive" in ity or idx[1].endswith("RangeInclusive")
        ok = True
        newlen = None
        if a is not None and z is not None and a[0] == "int" and z[0] == "int":
            if incl:
                ok = st.upper(a[1].sub(z[1])) <= 1 and st.upper(z[1].sub(n)) <= -1
                newlen = z[1].sub(a[1]).addc(1)
            else:
                ok = st.upper(a[1].sub(z[1])) <= 0 and st.upper(z[1].sub(n)) <= 0
                newlen = z[1].sub(a[1])
        elif a is not None and z is None and a[0] == "int":
            ok = st.upper(a[1].sub(n)) <= 0
            newlen = n.sub(a[1])
        elif z is not None and a is None and z[0] == "int":
            ok = st.upper(z[1].sub(n)) <= (-1 if incl else 0)
            newlen = z[1].addc(1 if incl else 0)
        else:
            ok = False
        ip.oblige(run.body, bb, "pre", "slice range within bounds", ok, st, run.frame)
        if newlen is not None:
            nm = "slen[%s]" % site
            st.define(nm, newlen)
            st.dbm.add(ZERO, nm, 0)
            return ret(("slice", Lin.sym(nm)))
        return ret(("slice", ip.fresh_int(st, "slen[%s]" % site, 0, MAX_LEN)[1]))
    ip.oblige(run.body, bb, "pre", "slice index within bounds", False, st, run.frame, "index expression not tracked")
    return ret(TOP)


def m_range_next(run, bb, st, t, args, ret, site):
    """core::iter::range: Range<usize>::next: if start < end { let n = start; start = n + 1; Some(n) } else { None }"""
    ip = run.ip
    a = args[0]
    if a[0] != "ref":
        return ret(("tag", "std::option::Option", None, {"0": TOP}))
    r = ip._deref(st, a)
    outs = []
    if r[0] == "tag" and r[3].get("start", TOP)[0] == "int" and r[3].get("end", TOP)[0] == "int":
        s_, e_ = r[3]["start"][1], r[3]["end"][1]
        s1 = st.copy()
        s1.assume_le(s_.sub(e_), -1)
        if not s1.bottom:
            (f, l), path = a[1], a[2]
            root = s1.env.get((f, l), TOP)
            s1.env[(f, l)] = ip._update(root, list(path) + ["start"], v_int(s_.addc(1)))
            outs += _ret_in(run, t, s1, ("tag", "std::option::Option", "Some", {"0": v_int(s_)}))
        s2 = st.copy()
        s2.assume_le(e_.sub(s_), 0)
        if not s2.bottom:
            outs += _ret_in(run, t, s2, ("tag", "std::option::Option", "None", {}))
        return outs
    return ret(("tag", "std::option::Option", None, {"0": TOP}))


def _ret_in(run, t, s, val):
    if t["t"] is None:
        return []
    run.ip.store(s, run.frame, run.body, t["dest"], val)
    return [(t["t"], s, None)]


def m_with_capacity(run, bb, st, t, args, ret, site):
    """Vec::with_capacity(n) panics with 'capacity overflow' when n * size_of::<T>() > isize::MAX.
    N1-alloc: the requested capacity must be bounded by the size of the input (n <= len)."""
    ip = run.ip
    n = args[0] if args else TOP
    holds = n[0] == "int" and st.upper(n[1].sub(Lin.sym("len"))) <= 0
    ip.oblige(run.body, bb, "pre", "N1-alloc: with_capacity(n) with n bounded by the input size", holds, st, run.frame)
    return ret(TOP)


def _tracing_expansion(t):
    e = (t.get("fn_exp") or "") + ">" + (t.get("exp") or "")
    return "macro:$crate::valueset" in e or "macro:$crate::event" in e or "macro:tracing::" in e or "macro:$crate::fieldset" in e


def m_unwrap(run, bb, st, t, args, ret, site):
    ip = run.ip
    v = args[0] if args else TOP
    ok = v[0] == "tag" and v[2] in ("Some", "Ok")
    cn = _cn(t)[0] or ""
    if _tracing_expansion(t):
        # `expect("FieldSet corrupted …")` inside trace!/debug!: tracing's own invariant
        return ret(v[3].get("0", TOP) if v[0] == "tag" else TOP)
    ip.oblige(run.body, bb, "pre", "%s on a value proved Some/Ok" % cn.split("::")[-1], ok, st, run.frame, "the value may be None/Err: this panics on some input")
    return ret(v[3].get("0", TOP) if v[0] == "tag" else TOP)


def m_panic(run, bb, st, t, args, ret, site):
    if "macro:debug_assert" in (t.get("fn_exp") or "") + (t.get("exp") or ""):
        # a debug assertion: not part of the shipped configuration (see N3)
        return []
    run.ip.oblige(run.body, bb, "pre", "explicit panic unreachable", False, st, run.frame, "a panicking call is reachable")
    return []


def m_checked(run, bb, st, t, args, ret, site):
    """checked_add/sub/mul on integers: Some(a op b) when it fits, else None"""
    ip = run.ip
    cn = _cn(t)[0] or _cn(t)[1] or ""
    op = cn.split("::")[-1]
    a, b2 = (args + [TOP, TOP])[:2]
    dty = t.get("dest_ty") or ""
    m = re.search(r"Option<(\w+)>", dty)
    r = INT_RANGES.get(m.group(1)) if m else None
    if a[0] == "int" and b2[0] == "int" and r and op in ("checked_add", "checked_sub"):
        e = a[1].add(b2[1]) if op == "checked_add" else a[1].sub(b2[1])
        outs = []
        s1 = st.copy()
        s1.assume_le(e, r[1])
        s1.assume_le(e.neg(), -r[0])
        if not s1.bottom:
            pv = v_int(e)
            if len(e.t) > 1:
                nm = "chk[%s]" % site
                s1.define(nm, e)
                pv = v_int(Lin.sym(nm))
            outs += _ret_in(run, t, s1, ("tag", "std::option::Option", "Some", {"0": pv}))
        if not (st.lower(e) >= r[0] and st.upper(e) <= r[1]):
            outs += _ret_in(run, t, st.copy(), ("tag", "std::option::Option", "None", {}))
        return outs
    return ret(("tag", "std::option::Option", None, {"0": TOP}))


def m_try_from_int(run, bb, st, t, args, ret, site):
    """usize::try_from(u64) / i64→usize: Ok(v) iff it fits"""
    ip = run.ip
    dty = t.get("dest_ty") or ""
    m = re.search(r"Result<(\w+),", dty)
    r = INT_RANGES.get(m.group(1)) if m else None
    a = args[0] if args else TOP
    if a[0] != "int":
        sr = INT_RANGES.get((t.get("arg_tys") or [""])[0])
        if sr:
            a = ip.fresh_int(st, "src[%s]" % site, sr[0], sr[1])
    if a[0] == "int" and r:
        outs = []
        s1 = st.copy()
        s1.assume_le(a[1], r[1])
        s1.assume_le(a[1].neg(), -r[0])
        if not s1.bottom:
            outs += _ret_in(run, t, s1, ("tag", "std::result::Result", "Ok", {"0": a}))
        if not (st.lower(a[1]) >= r[0] and st.upper(a[1]) <= r[1]):
            outs += _ret_in(run, t, st.copy(), ("tag", "std::result::Result", "Err", {"0": TOP}))
        return outs
    return ret(("tag", "std::result::Result", None, {"0": TOP}))


def m_from_int(run, bb, st, t, args, ret, site):
    """<wide as From<narrow>>::from / Into::into between integer types: lossless by construction (core::convert::num
    only implements the widening pairs), so the result IS the argument — `i64::from(b)` is `b as i64`"""
    dty = (t.get("dest_ty") or "").strip()
    aty = ((t.get("arg_tys") or [""])[0] or "").strip()
    a = args[0] if args else TOP
    if dty in INT_RANGES and aty in INT_RANGES and a[0] == "int":
        return ret(a)
    cn = strip_generics(t.get("callee")) or ""
    for x in args:
        run._run_closure_arg(st, x, site)
    return ret(run._total_result(st, t, cn, args, site))


def m_slice_iter(run, bb, st, t, args, ret, site):
    a = run.ip._deref(st, args[0]) if args and args[0][0] == "ref" else (args[0] if args else TOP)
    if a[0] == "slice":
        return ret(("tag", "slice_iter", None, {"n": v_int(a[1])}))
    return ret(TOP)


def m_position(run, bb, st, t, args, ret, site):
    """Iterator::position on a slice iterator: Some(i) with 0 <= i < remaining length, or None; the
    predicate closure is analysed in place for its own obligations"""
    ip = run.ip
    it = ip._deref(st, args[0]) if args and args[0][0] == "ref" else (args[0] if args else TOP)
    for a in args[1:]:
        run._run_closure_arg(st, a, site)
    outs = []
    if it[0] == "tag" and it[1] == "slice_iter" and it[3]["n"][0] == "int":
        n = it[3]["n"][1]
        s1 = st.copy()
        iv = ip.fresh_int(s1, "posn[%s]" % site, 0, MAX_LEN)
        s1.assume_le(iv[1].sub(n), -1)
        if not s1.bottom:
            outs += _ret_in(run, t, s1, ("tag", "std::option::Option", "Some", {"0": iv}))
        outs += _ret_in(run, t, st.copy(), ("tag", "std::option::Option", "None", {}))
        return outs
    return ret(("tag", "std::option::Option", None, {"0": TOP}))


def m_slice_first(run, bb, st, t, args, ret, site):
    """<[T]>::first / last: Some iff the slice is non-empty"""
    ip = run.ip
    a = ip._deref(st, args[0]) if args and args[0][0] == "ref" else (args[0] if args else TOP)
    if a[0] == "slice":
        outs = []
        s1 = st.copy()
        s1.assume_le(a[1].neg(), -1)
        if not s1.bottom:
            outs += _ret_in(run, t, s1, ("tag", "std::option::Option", "Some", {"0": TOP}))
        s2 = st.copy()
        s2.assume_le(a[1], 0)
        if not s2.bottom:
            outs += _ret_in(run, t, s2, ("tag", "std::option::Option", "None", {}))
        return outs
    return ret(("tag", "std::option::Option", None, {"0": TOP}))


MODELS = {
    "core::slice::first": m_slice_first,
    "std::slice::first": m_slice_first,
    "core::slice::last": m_slice_first,
    "std::slice::last": m_slice_first,
    "core::slice::iter": m_slice_iter,
    "core::slice::<impl [T]>::iter": m_slice_iter,
    "std::slice::<impl [T]>::iter": m_slice_iter,
    "std::iter::Iterator::position": m_position,
    "bytes::Buf::remaining": m_remaining,
    "bytes::Buf::has_remaining": m_has_remaining,
    "bytes::Buf::advance": m_advance,
    "bytes::Buf::get_u8": m_get_u8,
    "bytes::Buf::chunk": m_chunk,
    "bytes::Buf::copy_to_bytes": m_copy_to_bytes,
    "std::io::Cursor::set_position": m_set_position,
    "core::slice::len": m_slice_len,
    "core::slice::<impl [T]>::len": m_slice_len,
    "std::slice::<impl [T]>::len": m_slice_len,
    "std::ops::Index::index": m_index,
    "core::slice::index::index": m_index,
    "std::iter::Iterator::next": None,
    "std::vec::Vec::with_capacity": m_with_capacity,
    "std::option::Option::unwrap": m_unwrap,
    "std::option::Option::expect": m_unwrap,
    "std::result::Result::unwrap": m_unwrap,
    "std::result::Result::expect": m_unwrap,
    "core::panicking::panic": m_panic,
    "core::panicking::panic_fmt": m_panic,
    "std::rt::begin_panic": m_panic,
    "core::panicking::unreachable_display": m_panic,
    "core::panicking::panic_explicit": m_panic,
    "core::panicking::panic_display": m_panic,
    "std::convert::TryInto::try_into": m_try_from_int,
    "std::convert::TryFrom::try_from": m_try_from_int,
    "std::convert::From::from": m_from_int,
    "std::convert::Into::into": m_from_int,
}
MODELS = {k: v for k, v in MODELS.items() if v is not None}
PATTERN_MODELS = [
    (re.compile(r"^std::iter::range::(<impl .*>::)?next$"), m_range_next),
    (re.compile(r"^core::iter::range::.*next$"), m_range_next),
    (re.compile(r"^<std::ops::Range<.*> as std::iter::Iterator>::next$"), m_range_next),
    (re.compile(r"^core::num::(<impl \w+>::)?checked_(add|sub|mul)$"), m_checked),
    (re.compile(r"^core::slice::index::.*index$"), m_index),
]


# ==============================================================================================


def analyse(prog, roots, slice_paths=None, note=None):
    """run the interpreter from each root body with an unconstrained cursor; returns Interp"""
    if slice_paths is None:
        slice_paths = prog.reachable_bodies([b.path for b in roots])
    ip = Interp(prog, set(slice_paths))
    for rb in roots:
        st = State()
        frame = "root:%s" % rb.name.split("::")[-1]
        for i in range(rb.arg_count):
            ty = rb.locals[i + 1]["ty"]
            r = INT_RANGES.get(ty)
            if ip.is_cursor_ty(ty):
                st.env[(frame, i + 1)] = ("cursor",)
            elif r:
                st.env[(frame, i + 1)] = ip.fresh_int(st, "arg%d" % (i + 1), r[0], r[1])
        FnRun(ip, rb, frame, 0).run(st)
    return ip

"""E3 abstract state: value trees per local, the cursor position cell, a DBM; join with deterministic
join-point symbols and pivot-relative generalisation of loop-carried linear relations."""
from numdom import DBM, INF, ZERO, Lin

TOP = ("top",)
MAX_LEN = 1 << 48  # assumption A1: a slice that exists in memory is shorter than 2^48 bytes
U64_MAX = (1 << 64) - 1
I64_MAX = (1 << 63) - 1
I64_MIN = -(1 << 63)


def v_int(e):
    return ("int", e if isinstance(e, Lin) else Lin.const(e))


def lin_of(v):
    if v[0] == "int":
        return v[1]
    return None


def lins_in(v, acc=None, path=()):
    """all (path, Lin) components of a value tree"""
    acc = acc if acc is not None else []
    k = v[0]
    if k in ("int", "dec", "dec10", "slice"):
        acc.append((path, v[1]))
    elif k == "tag":
        for f, x in sorted(v[3].items()):
            lins_in(x, acc, path + (f,))
    elif k == "bool":
        _cond_lins(v[1], acc, path)
    return acc


def _cond_lins(c, acc, path):
    if c[0] == "cmp":
        acc.append((path + ("a",), c[2]))
        acc.append((path + ("b",), c[3]))
    elif c[0] in ("and", "or"):
        _cond_lins(c[1], acc, path + ("l",))
        _cond_lins(c[2], acc, path + ("r",))
    elif c[0] == "not":
        _cond_lins(c[1], acc, path + ("n",))
    elif c[0] in ("ovf", "decfit"):
        for i, x in enumerate(c[2:]):
            if isinstance(x, Lin):
                acc.append((path + (str(i),), x))


def map_lins(v, fn):
    k = v[0]
    if k in ("int", "dec", "dec10", "slice"):
        return (k, fn(v[1]))
    if k == "tag":
        return ("tag", v[1], v[2], {f: map_lins(x, fn) for f, x in v[3].items()})
    if k == "bool":
        return ("bool", _map_cond(v[1], fn))
    return v


def _map_cond(c, fn):
    if c[0] == "cmp":
        return ("cmp", c[1], fn(c[2]), fn(c[3]))
    if c[0] in ("and", "or"):
        return (c[0], _map_cond(c[1], fn), _map_cond(c[2], fn))
    if c[0] == "not":
        return ("not", _map_cond(c[1], fn))
    if c[0] in ("ovf", "decfit"):
        return tuple(fn(x) if isinstance(x, Lin) else x for x in c)
    return c


class State:
    def __init__(self):
        self.env = {}  # (frame, local) -> value tree
        self.pos = Lin.sym("pos0")
        self.dbm = DBM()
        self.dbm.add(ZERO, "pos0", 0)
        self.dbm.add("pos0", ZERO, U64_MAX)
        self.dbm.add(ZERO, "len", 0)
        self.dbm.add("len", ZERO, MAX_LEN)
        self.mlen_gen = 0
        self.remdefs = {}  # symbol r -> Lin P, meaning r = max(0, len - P)

    def copy(self):
        s = State.__new__(State)
        s.env = dict(self.env)
        s.pos = self.pos
        s.dbm = self.dbm.copy()
        s.mlen_gen = self.mlen_gen
        s.remdefs = dict(self.remdefs)
        return s

    def apply_remdefs(self):
        """r = max(0, len - P): r >= k >= 1 implies len - P = r; r <= 0 implies len <= P"""
        for r_, P in list(self.remdefs.items()):
            if r_ not in self.dbm.symbols():
                continue
            lo = -self.dbm.get(ZERO, r_)
            hi = self.dbm.get(r_, ZERO)
            d = Lin.sym("len").sub(P)
            if lo >= 1:
                # len - P = r
                e = d.sub(Lin.sym(r_))
                self.dbm.assume_le(self.canon(e), 0)
                self.dbm.assume_le(self.canon(e.neg()), 0)
                self.dbm.assume_le(self.canon(P.sub(Lin.sym("len"))), -lo)
            elif hi <= 0:
                self.dbm.assume_le(self.canon(d), 0)

    @property
    def bottom(self):
        return self.dbm.bottom

    def key(self):
        """partition key: known variant tags and boolean constants of live values"""
        out = []
        for ck, v in self.env.items():
            _tags(v, ck, (), out)
        return tuple(sorted(out))

    def used_syms(self):
        s = set(self.pos.syms())
        for v in self.env.values():
            for _, e in lins_in(v):
                s.update(e.syms())
        s.add("len")
        for r_, P in self.remdefs.items():
            if r_ in s:
                s.update(P.syms())
        # companions R(P) = len - P of used symbols, and the symbols companions are about
        for x in list(self.dbm.symbols()):
            if x.startswith("R(") and x[2:-1] in s:
                s.add(x)
        for x in list(s):
            if x.startswith("R("):
                s.add(x[2:-1])
        return s

    # ---- companion symbols: R(P) := len - P, so that "P + x <= len" becomes the difference x <= R(P)
    def companion(self, P):
        nm = "R(%s)" % P
        e = Lin.sym("len").sub(Lin.sym(P))
        if nm not in self.dbm.symbols():
            _define(self.dbm, nm, e)
        else:
            u, l = self.dbm.upper(e), self.dbm.lower(e)
            if u != INF:
                self.dbm.add(nm, ZERO, u)
            if l != -INF:
                self.dbm.add(ZERO, nm, -l)
        return nm

    def canon(self, e):
        d = dict(e.t)
        kl = d.get("len", 0)
        if kl == 0:
            return e
        for P, k in list(d.items()):
            if P == "len" or P.startswith("R(") or k != -kl:
                continue
            if len(d) <= 2:
                # already a difference: the DBM handles it; but keep the companion in sync if it exists
                if ("R(%s)" % P) in self.dbm.symbols():
                    self.companion(P)
                return e
            nm = self.companion(P)
            d2 = dict(d)
            del d2["len"]
            del d2[P]
            d2[nm] = d2.get(nm, 0) + kl
            return Lin(e.c, d2)
        return e

    def upper(self, e):
        return self.dbm.upper(self.canon(e))

    def lower(self, e):
        return self.dbm.lower(self.canon(e))

    def assume_le(self, e, k=0):
        ce = self.canon(e)
        self.dbm.assume_le(ce, k)
        if self.remdefs and any(s_ in self.remdefs for s_, _ in ce.t):
            self.apply_remdefs()
        # reflect facts about a companion back onto the pair it stands for
        for s_, c in ce.t:
            if s_.startswith("R("):
                P = s_[2:-1]
                u, l = self.dbm.get(s_, ZERO), self.dbm.get(ZERO, s_)
                if u != INF:
                    self.dbm.add("len", P, u)
                if l != INF:
                    self.dbm.add(P, "len", l)

    def define(self, name, e):
        """name := e, as precisely as the DBM can hold it (canon-aware)"""
        self.dbm.forget(name)
        self.dbm.forget("R(%s)" % name)
        self.dbm.ensure(name)
        ce = self.canon(e)
        t = ce.t
        if not t:
            self.dbm.add(name, ZERO, ce.c)
            self.dbm.add(ZERO, name, -ce.c)
            return
        if len(t) == 1 and t[0][1] == 1:
            self.dbm.add(name, t[0][0], ce.c)
            self.dbm.add(t[0][0], name, -ce.c)
            return
        u, l = self.upper(e), self.lower(e)
        if u != INF:
            self.dbm.add(name, ZERO, u)
        if l != -INF:
            self.dbm.add(ZERO, name, -l)
        for y in list(self.dbm.symbols()):
            if y in (ZERO, name):
                continue
            uy = self.upper(e.sub(Lin.sym(y)))
            if uy != INF:
                self.dbm.add(name, y, uy)
            ly = self.lower(e.sub(Lin.sym(y)))
            if ly != -INF:
                self.dbm.add(y, name, -ly)

    def prune(self):
        self.dbm.keep_only(self.used_syms())

    def drop_frame(self, frame):
        for ck in [c for c in self.env if c[0] == frame]:
            del self.env[ck]


def _tags(v, ck, path, out):
    if v[0] == "tag":
        if v[2] is not None:
            out.append((ck, path, v[2]))
        for f, x in v[3].items():
            _tags(x, ck, path + (f,), out)


def _coerce_dec(a, b):
    """the constant 0 is a decimal of 0 digits: lets `acc = 0; loop { acc = acc*10 + d }` join"""
    if a[0] == "int" and b[0] == "dec" and a[1].is_const() and a[1].c == 0:
        return ("dec", Lin.const(0)), b
    if b[0] == "int" and a[0] == "dec" and b[1].is_const() and b[1].c == 0:
        return a, ("dec", Lin.const(0))
    if a[0] == "tag" and b[0] == "tag" and a[1] == b[1] and a[2] == b[2] and set(a[3]) == set(b[3]):
        fa, fb = {}, {}
        for f in a[3]:
            fa[f], fb[f] = _coerce_dec(a[3][f], b[3][f])
        return ("tag", a[1], a[2], fa), ("tag", b[1], b[2], fb)
    return a, b


def _shape_eq(a, b):
    """same tree shape and tags (Lin leaves may differ)"""
    if a[0] != b[0]:
        return False
    if a[0] == "tag":
        return a[1] == b[1] and a[2] == b[2] and set(a[3]) == set(b[3]) and all(_shape_eq(a[3][f], b[3][f]) for f in a[3])
    if a[0] == "bool":
        return _cond_shape(a[1]) == _cond_shape(b[1])
    if a[0] == "ref":
        return a == b
    if a[0] in ("int", "dec", "dec10", "slice"):
        return True
    return a == b


def _cond_shape(c):
    if c[0] == "cmp":
        return ("cmp", c[1])
    if c[0] in ("and", "or"):
        return (c[0], _cond_shape(c[1]), _cond_shape(c[2]))
    if c[0] == "not":
        return ("not", _cond_shape(c[1]))
    if c[0] in ("ovf", "decfit"):
        return tuple(x for x in c if not isinstance(x, Lin))
    return c


def join_states(s1, s2, point):
    """least-upper-bound-ish join at program point `point` (a string used to name join symbols).
    s1 is the state already stored at the point, s2 the newly arriving one. Both must have equal
    partition keys."""
    if s1 is None or s1.bottom:
        return s2.copy()
    if s2.bottom:
        return s1.copy()
    res = State.__new__(State)
    res.env = {}
    res.mlen_gen = max(s1.mlen_gen, s2.mlen_gen)
    res.remdefs = {k: v for k, v in s1.remdefs.items() if s2.remdefs.get(k) == v}
    # collect numeric components that differ
    comps = []  # (id, e1, e2)
    cells = sorted(set(s1.env) & set(s2.env), key=lambda c: (c[0], c[1]))
    shaped = {}
    for ck in cells:
        a, b = s1.env[ck], s2.env[ck]
        a, b = _coerce_dec(a, b)
        if _shape_eq(a, b):
            shaped[ck] = (a, b)
    comps.append((("pos",), s1.pos, s2.pos))
    for ck in cells:
        if ck not in shaped:
            continue
        a, b = shaped[ck]
        la, lb = lins_in(a), lins_in(b)
        for (pa, ea), (pb, eb) in zip(la, lb):
            comps.append(((ck, pa), ea, eb))
    # symbols being redefined: join symbols of this point attached to differing components
    differing = {cid for cid, e1, e2 in comps if e1 != e2}
    changed = True
    redefined = set()
    while changed:
        changed = False
        for cid, e1, e2 in comps:
            if cid in differing:
                nm = jname(point, cid)
                if nm not in redefined:
                    redefined.add(nm)
                    changed = True
            elif set(e1.syms()) & redefined:
                differing.add(cid)
                changed = True
    # build the result DBMs: d1 = s1 + (tmp_j = e1), d2 = s2 + (tmp_j = e2); then join, rename tmp -> j
    d1, d2 = s1.dbm.copy(), s2.dbm.copy()
    pivots = []  # (jname, e1, e2)
    defs = {}  # cid -> Lin over new j symbols
    for cid, e1, e2 in comps:
        if cid not in differing:
            defs[cid] = e1
            continue
        done = False
        for pj, p1, p2 in pivots:
            r1, r2 = e1.sub(p1), e2.sub(p2)
            if r1 == r2 and not (set(r1.syms()) & redefined):
                defs[cid] = Lin.sym(pj).add(r1)
                done = True
                break
        if not done:
            for pj, p1, p2 in pivots:
                for qj, q1, q2 in pivots:
                    if pj == qj:
                        continue
                    r1, r2 = e1.sub(p1).add(q1), e2.sub(p2).add(q2)
                    if r1 == r2 and not (set(r1.syms()) & redefined):
                        defs[cid] = Lin.sym(pj).sub(Lin.sym(qj)).add(r1)
                        done = True
                        break
                if done:
                    break
        if done:
            continue
        nm = jname(point, cid)
        tmp = "~" + nm
        _define(d1, tmp, e1)
        _define(d2, tmp, e2)
        pivots.append((nm, e1, e2))
        defs[cid] = Lin.sym(nm)
    for nm in redefined:
        d1.forget(nm)
        d2.forget(nm)
        d1.forget("R(%s)" % nm)
        d2.forget("R(%s)" % nm)
    d = d1.join(d2)
    for nm, _, _ in pivots:
        d.rename("~" + nm, nm)
    res.dbm = d
    res.pos = defs[("pos",)]
    for ck in cells:
        if ck not in shaped:
            a, b = s1.env[ck], s2.env[ck]
            res.env[ck] = _join_unshaped(a, b)
            continue
        a, b = shaped[ck]
        paths = [p for p, _ in lins_in(a)]
        it = iter(paths)
        res.env[ck] = map_lins_path(a, lambda p, e: defs[(ck, p)], ())
    res.prune()
    return res


def map_lins_path(v, fn, path):
    k = v[0]
    if k in ("int", "dec", "dec10", "slice"):
        return (k, fn(path, v[1]))
    if k == "tag":
        return ("tag", v[1], v[2], {f: map_lins_path(x, fn, path + (f,)) for f, x in v[3].items()})
    if k == "bool":
        return ("bool", _map_cond_path(v[1], fn, path))
    return v


def _map_cond_path(c, fn, path):
    if c[0] == "cmp":
        return ("cmp", c[1], fn(path + ("a",), c[2]), fn(path + ("b",), c[3]))
    if c[0] in ("and", "or"):
        return (c[0], _map_cond_path(c[1], fn, path + ("l",)), _map_cond_path(c[2], fn, path + ("r",)))
    if c[0] == "not":
        return ("not", _map_cond_path(c[1], fn, path + ("n",)))
    if c[0] in ("ovf", "decfit"):
        out = []
        for i, x in enumerate(c[2:]):
            out.append(fn(path + (str(i),), x) if isinstance(x, Lin) else x)
        return tuple(c[:2]) + tuple(out)
    return c


def _join_unshaped(a, b):
    if a == b:
        return a
    if a[0] == "tag" and b[0] == "tag" and a[1] == b[1]:
        # different variants: unknown variant, payload fields joined where present in both
        fields = {}
        for f in set(a[3]) & set(b[3]):
            fields[f] = a[3][f] if a[3][f] == b[3][f] else TOP
        return ("tag", a[1], None if a[2] != b[2] else a[2], fields)
    if a[0] == "bool" and b[0] == "bool":
        return ("bool", ("?",))
    return TOP


def _define(d, name, e):
    """add name = e to the DBM as precisely as representable"""
    d.ensure(name)
    t = e.t
    if not t:
        d.add(name, ZERO, e.c)
        d.add(ZERO, name, -e.c)
        return
    if len(t) == 1 and t[0][1] == 1:
        s = t[0][0]
        d.add(name, s, e.c)
        d.add(s, name, -e.c)
        return
    # otherwise: bounds only, plus differences against every symbol
    u, l = d.upper(e), d.lower(e)
    if u != INF:
        d.add(name, ZERO, u)
    if l != -INF:
        d.add(ZERO, name, -l)
    for y in list(d.symbols()):
        if y in (ZERO, name):
            continue
        uy = d.upper(e.sub(Lin.sym(y)))
        if uy != INF:
            d.add(name, y, uy)
        ly = d.lower(e.sub(Lin.sym(y)))
        if ly != -INF:
            d.add(y, name, -ly)


def jname(point, cid):
    return "j[%s|%s]" % (point, _cid_str(cid))


def _cid_str(cid):
    if cid == ("pos",):
        return "pos"
    (frame, local), path = cid
    return "%s_%s%s" % (frame, local, ("." + ".".join(path)) if path else "")


def widen_states(old, new):
    """old ∇ new where new = join(old, incoming) computed at the same point"""
    res = new.copy()
    res.dbm = old.dbm.widen(new.dbm)
    # constraints on symbols that only exist in new are kept from new if old had no such symbol
    for x in new.dbm.symbols() - old.dbm.symbols():
        for y in new.dbm.symbols():
            if x == y:
                continue
            c = new.dbm.get(x, y)
            if c != INF:
                res.dbm.add(x, y, c)
            c = new.dbm.get(y, x)
            if c != INF:
                res.dbm.add(y, x, c)
    return res


def state_leq(a, b):
    """a ⊑ b (used for stabilisation): same env values and a's DBM entails b's"""
    if a.bottom:
        return True
    if b is None or b.bottom:
        return False
    if a.pos != b.pos:
        return False
    if set(a.env) != set(b.env):
        # b may have fewer cells (joined away); every cell of b must equal a's
        if not set(b.env) <= set(a.env):
            return False
    for ck, v in b.env.items():
        if a.env.get(ck) != v:
            return False
    return a.dbm.leq(b.dbm)

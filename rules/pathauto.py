"""Path automata: explore the product of a body's CFG with a small rule automaton, over all paths
(unwind, `?` error edges and await-cancellation edges included), with shortest-witness
reconstruction. A light constant propagation for switch operands keeps `matches!`-style boolean
temporaries path-sensitive (no false alarm from the infeasible arm)."""
from collections import deque

from common import classify_ret, describe_path


class Violation:
    def __init__(self, msg, path):
        self.msg = msg
        self.path = path


def _tracked_consts(body):
    """locals used bare as switch operands that receive at least one constant assignment"""
    sw = set()
    for bb in body.live_blocks():
        t = body.term(bb)
        if t and t["k"] == "switch" and t["op"]["k"] in ("copy", "move") and not t["op"]["pl"]["p"]:
            sw.add(t["op"]["pl"]["l"])
    out = set()
    # close under copies: `let flag = <tmp>` where <tmp> receives constants
    copies = {}
    for l in list(sw):
        for bi, si, whole in body.defs.get(l, []):
            if si != "T" and whole:
                rv = body.blocks[bi]["stmts"][si]["rv"]
                if rv["k"] == "use" and rv["op"]["k"] in ("copy", "move") and not rv["op"]["pl"]["p"]:
                    sw.add(rv["op"]["pl"]["l"])
    for l in sw:
        for bi, si, whole in body.defs.get(l, []):
            if si != "T" and whole:
                rv = body.blocks[bi]["stmts"][si]["rv"]
                if rv["k"] == "use" and rv["op"]["k"] == "const" and "int" in rv["op"]:
                    out.add(l)
    # a local copied from a tracked one is tracked too
    changed = True
    while changed:
        changed = False
        for l in sw:
            if l in out:
                continue
            for bi, si, whole in body.defs.get(l, []):
                if si != "T" and whole:
                    rv = body.blocks[bi]["stmts"][si]["rv"]
                    if rv["k"] == "use" and rv["op"]["k"] in ("copy", "move") and not rv["op"]["pl"]["p"] and rv["op"]["pl"]["l"] in out:
                        out.add(l)
                        changed = True
    return out


def explore(body, init, events, delta, on_exit, start=0, start_state=None, follow=lambda e: True, track_ret=True, max_states=400000):
    """
    events(bb, edge)  -> list of events that happen when leaving block bb along edge (edge None for exits)
    delta(state, ev)  -> new state, or Violation-message string prefixed with '!' to report
    on_exit(state, kind, ret_class, bb) -> None or message; kind in return|resume|cordrop|unreachable|terminate
    Returns list of Violation (deduplicated by message), each with the shortest block path.
    """
    tracked = _tracked_consts(body)
    s0 = (init if start_state is None else start_state, None, frozenset())
    parent = {(start, s0): None}
    dq = deque([(start, s0)])
    viols = {}

    def path_of(node):
        p = []
        while node is not None:
            p.append(node[0])
            node = parent[node]
        return list(reversed(p))

    n = 0
    while dq:
        node = dq.popleft()
        bb, (st, last0, consts) = node
        n += 1
        if n > max_states:
            viols.setdefault("state space exceeded (rule gives no verdict; fail closed)", Violation("state space exceeded", path_of(node)))
            break
        blk = body.blocks[bb]
        cur0 = last0
        cd = dict(consts)
        for si, s in enumerate(blk["stmts"]):
            if s["k"] != "assign":
                continue
            pl = s["pl"]
            if pl["l"] == 0 and not pl["p"]:
                cur0 = (bb, si)
            if pl["l"] in tracked and not pl["p"]:
                rv = s["rv"]
                if rv["k"] == "use" and rv["op"]["k"] == "const" and "int" in rv["op"]:
                    cd[pl["l"]] = rv["op"]["int"]
                elif rv["k"] == "use" and rv["op"]["k"] in ("copy", "move") and not rv["op"]["pl"]["p"] and rv["op"]["pl"]["l"] in cd:
                    cd[pl["l"]] = cd[rv["op"]["pl"]["l"]]
                else:
                    cd.pop(pl["l"], None)
        t = blk["term"]
        if t is None:
            continue
        k = t["k"]
        if k in ("return", "resume", "cordrop", "unreachable", "terminate"):
            s2 = st
            bad = None
            for ev in events(bb, None):
                s2 = delta(s2, ev)
                if isinstance(s2, str) and s2.startswith("!"):
                    bad = s2[1:]
                    break
            if bad is None and k != "unreachable":
                rc = classify_ret(body, cur0) if (k == "return" and track_ret) else None
                explore.last0 = cur0
                bad = on_exit(s2, k, rc, bb)
            if bad and bad not in viols:
                viols[bad] = Violation(bad, path_of(node))
            continue
        allowed = None
        if k == "switch" and t["op"]["k"] in ("copy", "move") and not t["op"]["pl"]["p"] and t["op"]["pl"]["l"] in cd:
            v = cd[t["op"]["pl"]["l"]]
            tg = [tb for val, tb in t["targets"] if val == v]
            allowed = {tg[0]} if tg else {t["otherwise"]}
        for e in body.succ[bb]:
            if not follow(e):
                continue
            if allowed is not None and e.dst not in allowed:
                continue
            s2 = st
            bad = None
            pruned = False
            for ev in events(bb, e):
                s2 = delta(s2, ev)
                if isinstance(s2, str) and s2 == "#prune":
                    pruned = True  # the rule knows this path is infeasible (contradictory facts)
                    break
                if isinstance(s2, str) and s2.startswith("!"):
                    bad = s2[1:]
                    break
            if pruned:
                continue
            if bad is not None:
                if bad not in viols:
                    viols[bad] = Violation(bad, path_of(node) + [e.dst])
                continue
            nxt0 = cur0
            if k == "call" and e.kind == "ret" and t["dest"]["l"] == 0 and not t["dest"]["p"]:
                nxt0 = (bb, "T")
            cd2 = cd
            if k == "call" and t["dest"]["l"] in cd and not t["dest"]["p"]:
                cd2 = dict(cd)
                cd2.pop(t["dest"]["l"], None)
            nn = (e.dst, (s2, nxt0 if track_ret else None, frozenset(cd2.items())))
            if nn not in parent:
                parent[nn] = node
                dq.append(nn)
    return list(viols.values())


def witness(body, v, interesting=None):
    return describe_path(body, v.path, interesting)

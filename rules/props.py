"""Which rules make up each property's check, and the tier-dependent fact loading."""
import os

import facts
from common import Ctx

import k1
import k4
import k2
import k2m
import k3
import k2s
import k5

_CTX = {}


def load_ctx(tier):
    if tier in _CTX:
        return _CTX[tier]
    prog = facts.load_program(target_set="lib")
    extra = {}
    targets = ["lib"]
    ctx = Ctx(prog, targets, extra)
    _CTX[tier] = ctx
    return ctx


PROPS = {
    "C14": {
        "rules": [k1.w1_file_mutation_api, k1.w7_recovery_read_only],
        "exhaustive": True,
        "not_decided": "that every created id is greater than every id the directory has ever contained (arithmetic over histories)",
    },
    "TEST6": {"rules": [k5.r1_bounded_recursion, k5.e1_no_dropped_result, k5.ghint_hint_validation, k5.p17_read_under_index_guard, k5.o1_recovery_order]},
    "TEST5": {"rules": [k2s.p10_accept_loop, k2s.p12_handler_loop, k2s.p11_command_application, k2s.p9_server_shutdown_handshake, k2s.p8_background_worker, k2s.p15_interval_loops]},
    "TEST4": {"rules": [k3.s1_roles, k3.s2_live_vs_recovery, k3.s3_displaced_accounting, k3.s5_trigger_threshold_roles, k3.s4_resp_tag_tables, k3.s9_command_table]},
    "TEST3": {"rules": [k2m.p4_merge_per_entry_order, k2m.p5_merge_outputs_before_unlink, k2m.s7_s8_merge_sets, k2m.t1_tombstone_conservation]},
    "TEST2": {"rules": [k2.p1_append_flushes, k2.p2_sync_always, k2.p3_publish_after_append, k2.p13_writer_identity_pair, k2.p14_rollover_test, k2.p6_reader_pool, k2.p7_closed_check]},
    "TEST": {"rules": [k4.v6_write_frame_flushes, k4.kdec_decimal_buffer, k4.v1_log_iterator_eof, k4.v2_parse_frame, k4.v3_read_frame_eof, k4.v4_never_policy, k4.v5_hint_fallback, k1.w1_file_mutation_api, k1.w7_recovery_read_only, k1.w2_index_mutators, k1.w4_no_abort, k1.w5_permit_ops, k1.w6_merge_sync_entry]},
}

"""Which rules make up each property's check, and the tier-dependent fact loading."""
import os

import facts
from common import Ctx

import k1

_CTX = {}


def load_ctx(tier):
    if tier in _CTX:
        return _CTX[tier]
    prog = facts.load_program(target_set="lib")
    extra = {}
    targets = ["lib"]
    ctx = Ctx(prog, targets, extra)
    _CTX[tier] = ctx
    return ctx


PROPS = {
    "C14": {
        "rules": [k1.w1_file_mutation_api, k1.w7_recovery_read_only],
        "exhaustive": True,
        "not_decided": "that every created id is greater than every id the directory has ever contained (arithmetic over histories)",
    },
    "TEST": {"rules": [k1.w1_file_mutation_api, k1.w7_recovery_read_only, k1.w2_index_mutators, k1.w4_no_abort, k1.w5_permit_ops, k1.w6_merge_sync_entry]},
}

"""Which rules make up each property's check, what the check does and does not decide, and the
tier-dependent fact loading."""
import os

import facts
from common import Ctx

import k1
import k2
import k2m
import k2s
import k3
import k4
import k5
import k6
import k7
import k8
import k9
import k10
import controls

_CTX = {}


def load_ctx(tier):
    if tier in _CTX:
        return _CTX[tier]
    prog = facts.load_program(target_set="lib")
    extra = {}
    targets = ["lib"]
    # the binaries are clients of the library: the enumerative deny rules and B1 look at them too
    from mir import Program

    files, hsh, meta = facts.extract(target_set="bins")
    for f in files:
        nm = os.path.basename(f).split("-")[0]
        if nm in ("svr", "cli"):
            extra["bin:" + nm] = Program.load(f)
            targets.append("bin:" + nm)
    ctx = Ctx(prog, targets, extra)
    _CTX[tier] = ctx
    return ctx


BASE_ASSUME = [
    "rustc's type-checked MIR (mir_promoted) is a faithful over-approximation of the executions of /repo's current tree",
    "library effect labels and models in rules/ are as read from the library sources in the cargo registry / the nightly rust-src",
    "calls through unresolved trait objects/generics are matched by trait method; code outside the crate is trusted",
    "rules/inline.py's copies of procedure-like and awaited private helpers into their callers (with return splitting and jump threading) preserve the paths of the original MIR",
]

PROPS = {
    "C01": {
        "title": "The store behaves as a key-value map for every operation sequence",
        "rules": [k2.p3_publish_after_append, k3.s1_roles, k2m.p4_merge_per_entry_order, k2m.p5_merge_outputs_before_unlink, k5.p17_read_under_index_guard, k2.p14_rollover_test, k2.p6b_pool_filled, k3.s2_live_vs_recovery, k2m.s7_s8_merge_sets, k8.s12_config_setters, k9.s15_position_tracking, k9.s14_reader_cache_keying, k9.s21_forwarding, k9.s22_one_codec, k9.p21_new_active_datafile, k1.w1_file_mutation_api, controls.control("W1"), k10.s24_record_symmetry, k10.t2_no_narrowing],
        "decides": "put publishes exactly the appended record's location, only after a successful append, with the id of the file the bytes went to; delete appends a tombstone, removes the key and reports presence; (fileid,len,pos) keep their roles through every call and struct; merge re-points an entry only to the bytes it just copied, at the offset before advancing, resetting the offset per output; the read happens under the index guard; rollover test after each append; a merge rotates the active file above its outputs and removes inputs oldest first; the reader pool is filled to its capacity (also for concurrency 0); put/delete perform exactly the live-path index effects; copy set = removed set; Config setters store what they are given; positions are tracked by the byte counts really transferred and an append reports (position before, position after − before); the reader cache is keyed by the file id asked for; the forwarding layers (trait impl, Handle::get, PooledReader, Reader::get → record.value | None) forward; writer and readers use one bincode configuration; new_active_datafile always switches to the file of the id it was given; data and merge output files are created exclusively (create_new): an id collision after a failed merge fails loudly instead of appending to a foreign file; the on-disk record types written are the types read, and each record's Serialize and Deserialize sides emit and decode the same fields, of the same types, in the same order, unconditionally (bincode is positional); no narrowing integer cast or sub-64-bit location field in the storage layer",
        "not_decided": "map semantics over histories as behaviour; that len/pos VALUES are right (position arithmetic inside BufWriterWithPos), LRU cache keying, value equality",
    },
    "C02": {
        "title": "Closing and reopening a store preserves exactly its contents, deletions included",
        "rules": [k3.s2_live_vs_recovery, k4.v1_log_iterator_eof, k1.w7_recovery_read_only, k5.o1_recovery_order, k2m.p5_merge_outputs_before_unlink, k5.ghint_hint_validation, k4.v5_hint_fallback, k2m.p4_merge_per_entry_order, k2m.s7_s8_merge_sets, k3.s1_roles, k9.s15_position_tracking, k9.s16_file_names, k9.s22_one_codec, k9.p21_new_active_datafile, k2.p3_publish_after_append, k10.s24_record_symmetry, k1.w1_file_mutation_api, controls.control("W1"), k10.o1b_listing_follows_links],
        "decides": "replaying a record performs the index effects writing it performed (tombstones remove); the sequential decoder stops cleanly exactly at end of file; recovery is read-only and creates one fresh file; files are replayed in ascending numeric id order; a merge always rotates the active file above its outputs (so later writes replay after merged copies); hint entries are admitted up to and including the end of the data file; only a missing hint falls back to the scan; hint records mirror the re-pointed entry by role and are appended in the right output; the sequential reader reports each record's (position before, bytes consumed); data/hint file names are `<id>.….<ext>` with distinct extensions and sorted_fileids recognises exactly the data extension; one bincode configuration on both sides; new_active_datafile always switches; the index changes only after the record (value or tombstone) was appended successfully — a failed delete leaves the key in place, memory and disk agree at the next open; the on-disk record types written are the types read, and each record's Serialize and Deserialize sides emit and decode the same fields, of the same types, in the same order, unconditionally (bincode is positional)",
        "not_decided": "equality of recovered values over histories; max+1 arithmetic beyond its shape",
    },
    "C03": {
        "title": "A process crash at any instant loses no acknowledged write and corrupts nothing",
        "rules": [k2.p1_append_flushes, k2.p3_publish_after_append, k2m.p4_merge_per_entry_order, k2m.p5_merge_outputs_before_unlink, k1.w1_file_mutation_api, controls.control("W1"), k1.w7_recovery_read_only, k4.v1_log_iterator_eof, k2m.s7_s8_merge_sets, k5.o1_recovery_order, k3.s2_live_vs_recovery, k9.s15_position_tracking, k9.s22_one_codec, k5.ghint_hint_validation, k10.s24_record_symmetry],
        "decides": "order constraints that must hold on every path for every kill point to be safe: an append that returned has flushed; index/ack follow the append; merge never issues an index re-point or hint record for bytes not yet in the file, never unlinks (in ascending order) before outputs are flushed+synced; only create-exclusive+append and whole-file unlink exist; a torn tail is skipped, not fatal; hint file created only after its data file; recovery replays in ascending id order and honours tombstones; append positions come from the bytes really written (a short write is not over-counted); one codec configuration; a hint entry that ends exactly at the end of its data file is admitted (the last record of every completed merge output); the on-disk record types written are the types read, and each record's Serialize and Deserialize sides emit and decode the same fields, of the same types, in the same order, unconditionally (bincode is positional)",
        "not_decided": "that these order constraints are sufficient; enumeration of crash points as executions",
    },
    "C04": {
        "title": "Concurrent gets, sets and deletes are linearizable and never panic or hang",
        "rules": [k2.p6_reader_pool, k2.p6b_pool_filled, k6.n2_mmap_extent, k7.l1_lock_order, k2.p18_handle_delegation, k2.p3_publish_after_append, k2m.p4_merge_per_entry_order, k1.w2_index_mutators, k5.p17_read_under_index_guard, k3.s2_live_vs_recovery, k9.s14_reader_cache_keying, k9.s21_forwarding, k9.n3_no_new_panic_sites, k9.s7b_merge_counts_in_output, k1.w1_file_mutation_api, controls.control("W1"), k10.n2b_remap_guard, k9.s15_position_tracking],
        "decides": "the pooled reader returns on every exit incl. unwind; index published only after flushed bytes (put and merge); index mutated only under the writer mutex or before sharing; the file read happens under the index shard guard; the pool is filled to capacity; no shard re-entrancy and an acyclic lock order; Handle operations return the writer's verdict obtained under the lock; each reader's file cache is keyed by the id asked for; Handle::get returns what its pooled reader returned; every explicit panic site (unwrap/expect/borrow/panic!) on the paths of get/put/delete/merge/sync is one of the reviewed ones; merge books live entries on the output they are in (an under-counted file makes a later overwrite underflow and panic); data and merge output files are created exclusively (create_new): an id collision after a failed merge fails loudly instead of appending to a foreign file; the mapped reader maps the file again whenever the END of the requested record lies beyond its mapping (a record completed after the mapping was taken is found, not reported as beyond the end of the file)",
        "not_decided": "linearizability of histories and real-time order (statements about schedules of run-time events)",
    },
    "C05": {
        "title": "Compaction never changes what any key reads, now or after a restart",
        "rules": [k2m.p4_merge_per_entry_order, k3.s1_roles, k2m.s7_s8_merge_sets, k2m.p5_merge_outputs_before_unlink, k2m.t1_tombstone_conservation, k5.ghint_hint_validation, k3.s2_live_vs_recovery, k3.s5_trigger_threshold_roles, k5.o1_recovery_order, k4.v5_hint_fallback, k5.e2_merge_errors_abort, k9.s14_reader_cache_keying, k9.p21_new_active_datafile, k9.s16_file_names, k1.w1_file_mutation_api, controls.control("W1"), k10.s24_record_symmetry],
        "decides": "merge re-points only to copied+flushed bytes with roles intact and hint mirroring the entry; hint/data ids paired; copy set = removed set; sources outlive synced outputs; active file rotated above outputs; hint admission boundary includes equality; T1: deletion markers conserved across the unlink (known finding on this tree); selection compares statistics with thresholds (not triggers); recovery order and hint fallback; merge aborts on the first failed disk operation; LogDir::copy copies (len, pos) of the file id asked for, from cached and fresh readers alike; new_active_datafile always switches (also when nothing was written to the current file); data and hint names differ; merge outputs are created exclusively (create_new): a retried merge can never append to the leftovers of a failed one; the on-disk record types written are the types read, and each record's Serialize and Deserialize sides emit and decode the same fields, of the same types, in the same order, unconditionally (bincode is positional)",
        "not_decided": "value equality before/after as behaviour; which files a threshold setting selects at run time (T1 quantifies over all subsets)",
    },
    "C06": {
        "title": "Over the network SET/GET/DEL answer exactly as the map model, in order",
        "rules": [k2s.p11_command_application, k2s.p12_handler_loop, k4.v2_parse_frame, k4.v3_read_frame_eof, k4.v6_write_frame_flushes, k3.s9_command_table, k2.p6b_pool_filled, k2.p3_publish_after_append, k2.p18_handle_delegation, k8.s9b_client_encoders, k8.v7_argument_parsers, k9.s19_value_transparency, k9.s20_client_response_mapping, k9.s18_encoder_sequence, k9.s21_forwarding, k9.b1_server_binary_lifetime, k9.s23_argument_errors_reject, k1.w5_permit_ops, k10.v9_no_size_limit, k8.p20_shutdown_helper, k10.s19b_key_transparency],
        "decides": "one reply per applied command, after the storage call completed, none on error paths, with the prescribed variant and the stored bytes; DEL counts Ok(true); the connection loop is read→parse→apply→reply; Incomplete ⇒ read more; exactly the checked length is consumed on every path and the read buffer is never replaced; every reply is flushed unconditionally; command names matched by full equality; DEL processes every key; arguments: only bulk strings, list ends only when exhausted, GET/SET reject trailing arguments; delete reports presence from under the writer lock; client encoders use the dispatched literals; no partial writes; Ok(None) only on Incomplete; values are carried as the bytes received (Set takes its value from get_bytes, apply passes the command's own key/value, GET replies with the store's bytes); the client writes its request before reading one response and maps replies per command; the encoder emits the RESP sequence per frame kind; the KeyValueStorage impl maps set/get/del to put/get/delete; the server binary keeps the store open while serving; argument errors reject the whole command; a connection slot is released in Handler's Drop on every way a handler ends (errors included), so later connections are still accepted and answered; the socket is read only after the buffered bytes were tried (requests that arrive in one segment are all answered); the parser compares an announced length only with the bytes at hand or 0/-1 (no size limit of its own: a large value is not refused); conversions into the key type wrap the argument's bytes unchanged (no trimming or normalisation of keys)",
        "not_decided": "byte-for-byte value equality and segmentation independence as observed behaviour",
    },
    "C07": {
        "title": "The RESP parser is total: no input panics, aborts or mis-reads a number",
        "rules": [k6.n1_parser_total, k5.r1_bounded_recursion, controls.control("R1"), k1.w4_no_abort, controls.control("W4"), k3.s10_check_parse_readers, k3.s4_resp_tag_tables, k3.s11_empty_number_guard, k4.v2_parse_frame, k9.s17_sign_discipline],
        "decides": "every panic obligation of the parser slice (bounds, overflow, Buf preconditions, slice ranges, allocation size, unwrap/panic) discharged by abstract interpretation for every buffer and cursor position; bounded recursion depth (ranking argument on every call-graph cycle); no process-terminating call; check and parse use the same line/integer readers per tag and agree with the encoder's tables; a number without digits is rejected; the connection consumes exactly the checked length; '-' selects the subtracting accumulation, '+'/none the adding one, both ×10, digits are exactly b'0'..=b'9' minus 48",
        "not_decided": "digit-by-digit value correctness of accepted numbers",
    },
    "C08": {
        "title": "RESP encoding and decoding round-trip, independent of stream chunking",
        "rules": [k3.s4_resp_tag_tables, k4.v3_read_frame_eof, k4.v2_parse_frame, k4.kdec_decimal_buffer, k4.v6_write_frame_flushes, k9.s18_encoder_sequence, k9.v8_who_says_incomplete, k9.s17_sign_discipline, k10.v9_no_size_limit],
        "decides": "encoder/parser/checker tag tables mutually inverse incl. the Null literal; EOF inside a frame ⇒ error, at a boundary ⇒ clean end; Incomplete ⇒ read more; consumed = checked length, buffer never replaced; decimal scratch buffer ≥ 20 bytes; frames flushed; the stream is read only after the buffer was tried; Ok(None) only on Incomplete; no partial-write API; per frame kind the encoder emits type byte, text/decimal, CRLF, payload, CRLF in the RESP order, the bulk length is the payload's own length and the array count the number of items written; write_decimal sends exactly the formatted bytes; Incomplete is constructed only at the reviewed byte-shortage tests of the reader helpers — check declares nothing incomplete on its own; negative numbers are accumulated downwards (so that i64::MIN, which the encoder can write, is read back); the parser imposes no size limit on announced lengths",
        "not_decided": "round-trip equality and 'every strict prefix is incomplete' as universally quantified statements over encodings",
    },
    "C09": {
        "title": "With sync=always an acknowledged write survives power loss, merges included",
        "rules": [k2.p2_sync_always, k2.p19_sync_chain, k2m.p5_merge_outputs_before_unlink, k5.ghint_hint_validation, k4.v1_log_iterator_eof, k8.s12_config_setters, k9.s12b_config_keys, k10.s12c_shipped_config_agrees, k10.s12d_env_separator],
        "decides": "Always ⇒ every successful append is followed by a checked fsync of the same file before Ok and before any rollover; LogWriter::sync reaches File::sync_all; merge flushes+fsyncs data AND hint outputs (checked) before replacing them, before the first unlink and before Ok; hint entries are admitted only if within the data file; the sync chain is unconditional down to File::sync_all; a torn tail after power loss is skipped, not fatal; Config::sync stores the strategy; the settings key `sync` (every field's own name) is accepted by the derived deserializer of the configuration structs; every key the shipped config.toml sets or documents resolves against the derived decoders, and the environment separator splits no key name (a setting given is a setting in force)",
        "not_decided": "the storage stack below fsync; the power-loss model itself",
    },
    "C10": {
        "title": "Hostile or malformed input harms only the connection that sent it",
        "rules": [k2s.p10_accept_loop, k2s.p12_handler_loop, k1.w4_no_abort, controls.control("W4"), k5.r1_bounded_recursion, controls.control("R1"), k1.w5_permit_ops, k3.s9_command_table, k8.p10b_accept_backoff, k4.v3_read_frame_eof, k8.v7_argument_parsers, k9.s23_argument_errors_reject, k9.p12b_read_error_ends_handler, k10.a1_receive_allocations],
        "decides": "each connection runs in its own spawned task that owns its Handler (a panic ends one task; the permit returns via Drop); only commands validated by Command::try_from reach set/del, names by full equality; no exit/abort/panic=abort; recursion bounded; listen() ends only when accept() itself gave up after its back-off; a half-sent frame ends the handler; malformed arguments are errors; an argument that fails to parse rejects the whole command (no command built from the arguments read so far); a read_frame error ends the handler instead of retrying on the same bytes; no allocation on the network path is sized by a value the peer controls (constants and lengths of data already in memory only)",
        "not_decided": "that other connections observe correct answers meanwhile",
    },
    "C11": {
        "title": "Concurrent clients see one linearizable store",
        "rules": [k2s.p11_command_application, k2.p18_handle_delegation, k1.w2_index_mutators, k5.p17_read_under_index_guard, k2.p3_publish_after_append, k3.s2_live_vs_recovery, k8.s9b_client_encoders, k9.s21_forwarding, k1.w1_file_mutation_api, controls.control("W1"), k10.n2b_remap_guard],
        "decides": "a reply is written only after the blocking storage call completed and its result was taken on the Ok edge; the store-level discipline the anchors name (single writer for index mutation, read under shard guard); results come from under the writer lock; put/delete perform exactly the live-path index effects with the location of the appended bytes; the KeyValueStorage impl of Handle forwards set/get/del to put/get/delete unchanged; exclusive file creation (a retried merge cannot append to a leftover output and re-point keys into it); the mapped reader maps the file again whenever the END of the requested record lies beyond its mapping (a record completed after the mapping was taken is found, not reported as beyond the end of the file)",
        "not_decided": "linearizability itself",
    },
    "C12": {
        "title": "Hint files are only an accelerator: recovery with or without them agrees",
        "rules": [k3.s1_roles, k2m.s7_s8_merge_sets, k3.s2_live_vs_recovery, k4.v5_hint_fallback, k5.ghint_hint_validation, k2m.p4_merge_per_entry_order, k5.e2_merge_errors_abort, k5.o1_recovery_order, k9.s15_position_tracking, k9.s16_file_names, k9.s22_one_codec, k2m.p5_merge_outputs_before_unlink, k2.p19_sync_chain, k1.w1_file_mutation_api, controls.control("W1"), k10.s24_record_symmetry],
        "decides": "hint record fields mirror the re-pointed index entry by role; hint n describes data n; the hint loader does to the index what the scanner does for live records; only NotFound falls back to the scan of the same id; admission boundary includes the last record; merge aborts on a failed hint write; recovery order; the scan path derives (len, pos) from the reader's real positions; a hint file is found under the id of its data file with a different extension; one codec for data and hint records; a merge's hint output is flushed and fsynced (LogWriter::sync reaches File::sync_all) before the inputs it indexes are removed — the hint file of a generation is never shorter than its data file; data and merge output files are created exclusively (create_new): an id collision after a failed merge fails loudly instead of appending to a foreign file; the on-disk record types written are the types read, and each record's Serialize and Deserialize sides emit and decode the same fields, of the same types, in the same order, unconditionally (bincode is positional)",
        "not_decided": "that offsets written equal offsets a scan computes (run-time values)",
    },
    "C13": {
        "title": "Compaction actually reclaims space and never grows the store",
        "rules": [k2m.s7_s8_merge_sets, k2m.p5_merge_outputs_before_unlink, k3.s5_trigger_threshold_roles, k9.s13_counter_arithmetic, k9.s2c_unconditional_counting, k9.s7b_merge_counts_in_output, k9.p14b_merge_rollover_test, k8.s12_config_setters, k5.ghint_hint_validation, k10.s13c_counters_start_at_zero],
        "decides": "only entries located in the selected files are copied and the selected set is exactly the removed set; each selected id loses accounting entry, hint file and data file, only NotFound tolerated; selection compares statistics with the thresholds, like with like; the counters behind the selection move as named and fragmentation = dead/(dead+live); dead records are counted unconditionally (a file holding only tombstones of absent keys still becomes eligible); copied entries are booked on the right output; merge outputs are rolled over on the running offset; no setting (e.g. a threshold) is rewritten between the setters and the running store; a merge that returns Ok removed every file it selected; a hint entry rejected by the extent test touches neither the index nor the per-file statistics (no phantom live keys)",
        "not_decided": "sizes, 'exactly as large as a fresh store', idempotence",
    },
    "C14": {
        "title": "Data files are append-only and immutable, with ids that only grow",
        "rules": [k1.w1_file_mutation_api, controls.control("W1"), k1.w7_recovery_read_only, k2.p14_rollover_test, k2m.p5_merge_outputs_before_unlink, k2m.s7_s8_merge_sets, k5.o1_recovery_order, k2m.p4_merge_per_entry_order, k9.s16_file_names, k9.p21_new_active_datafile, k9.p14b_merge_rollover_test],
        "exhaustive": True,
        "decides": "exhaustively over every call site: the only write-capable open is create_new+append; no truncate/rename/set_len/pwrite/MmapMut/seek-on-writer; unlink only in merge on store file names; reopen never opens an old file for writing; a rollover test follows every append; merge rotates the active id above its outputs; hint after data; ascending replay and max+1; the rollover test in merge sees the offset after the copied entry; file names carry the id first and the data extension last, ids are parsed back from exactly those names; new_active_datafile creates the file of the id it was given; a merge rolls its output over on the running offset (not on the single entry's length)",
        "not_decided": "'greater than every id the directory has ever contained' (arithmetic over histories)",
    },
    "C15": {
        "title": "The connection limit holds and slots are never leaked",
        "rules": [k2s.p10_accept_loop, k1.w5_permit_ops, k4.v3_read_frame_eof, k8.p10b_accept_backoff, k9.p12b_read_error_ends_handler, k9.s12b_config_keys, k10.s12c_shipped_config_agrees, k10.s12d_env_separator],
        "decides": "take-and-forget before accept once per iteration; handler built and moved into the task on every continuing path; the only release is +1 in Handler's Drop (runs on return, error, panic, cancellation); semaphore sized from max_connections; no Handler leak; the accept back-off never takes or leaks permits and gives up only after its maximum; a half-sent frame ends the handler; a handler whose read failed leaves (and frees its slot) instead of spinning; every key the shipped config.toml sets or documents resolves against the derived decoders, and the environment separator splits no key name (a setting given is a setting in force)",
        "not_decided": "the run-time count of live connections",
    },
    "C16": {
        "title": "Graceful shutdown terminates, keeps acknowledged data, and tears no reply",
        "rules": [k2s.p9_server_shutdown_handshake, k2s.p12_handler_loop, k4.v3_read_frame_eof, k2s.p10_accept_loop, k4.v6_write_frame_flushes, k8.p20_shutdown_helper, k8.p10b_accept_backoff, k9.b1_server_binary_lifetime, k9.p12b_read_error_ends_handler, k9.w8_channels_carry_no_messages, k2s.p11_command_application],
        "decides": "run(): notify, drop own completion sender, then wait, on every path; reading is raced with shutdown, applying a command is not; EOF mid-frame is an error path; every handler holds a completion sender and a subscription; replies are flushed; the Shutdown helper means what it says; accept back-off; no SO_LINGER on connections; in the server binary the store outlives `server.run().await` and the server's handle is a handle of that store; a handler never loops back to read_frame on an error (it would never see the shutdown); nothing is ever sent on the completion/notification channels, so the server's final recv() returns only when every handler is gone; a reply is written only after the storage call succeeded on both result layers (what a client saw acknowledged is in the store)",
        "not_decided": "bounded time; a client that never reads its replies",
    },
    "C17": {
        "title": "A closed store rejects all use and stops its background worker",
        "rules": [k2.p7_closed_check, k2s.p8_background_worker, k2s.p15_interval_loops, k8.p20_shutdown_helper, k9.w8_channels_carry_no_messages, k5.o1_recovery_order],
        "decides": "every Handle operation reaching writer/readers is dominated by the closed check (method set computed); Drop closes; the worker drops its own sender/handle before blocking; both loops race their sleep with shutdown and leave on it; the Shutdown helper means what it says; the worker's shutdown channel carries no messages (only its closing counts); the next open derives the new active id from every data file present (max + 1), so a directory closed without writes opens again",
        "not_decided": "thread and descriptor counts after N cycles",
    },
    "C18": {
        "title": "Background merge and sync follow the configured policy",
        "rules": [k4.v4_never_policy, k2s.p15_interval_loops, k2.p19_sync_chain, k1.w6_merge_sync_entry, k3.s5_trigger_threshold_roles, k8.v4b_window_policy, k8.s12_config_setters, k9.s13_counter_arithmetic, k9.s12b_config_keys, k10.s12c_shipped_config_agrees, k10.s12d_env_separator, k10.u1_duration_units],
        "decides": "Never ⇒ no path to merge; merge only behind can_merge()==true; triggers decide whether, thresholds decide which, like compared with like in the selecting direction; each tick of the sync loop reaches the fsync; periodic sync exactly under IntervalMs with its period; the Window policy compares the hour with start (<) and end (>); Config setters and the file-then-environment source order take effect; the jitter sampler accepts a zero-width range; fragmentation() is dead/(dead+live) and 0 without dead keys (what the triggers compare); every configuration field can be set under its own name from a file or the environment; every key the shipped config.toml sets or documents resolves against the derived decoders, and the environment separator splits no key name (a setting given is a setting in force); a period read from a setting named in milliseconds is built with Duration::from_millis (unit agreement by name)",
        "not_decided": "timing ('within one interval plus jitter')",
    },
    "C19": {
        "title": "Per-file live/dead accounting always matches the files' real contents",
        "rules": [k3.s3_displaced_accounting, k3.s2_live_vs_recovery, k2m.s7_s8_merge_sets, k9.s13_counter_arithmetic, k9.s2c_unconditional_counting, k9.s7b_merge_counts_in_output, k2.p3_publish_after_append, k5.ghint_hint_validation, k10.t2_no_narrowing, k10.s13c_counters_start_at_zero, k10.s24_record_symmetry, k10.o1b_listing_follows_links],
        "decides": "every displaced index entry is routed to overwrite(prev.len) on the file it lived in; every append is counted on the file it went to (before rollover) with the appended length; the rebuild counts like the live path; merge counts each copied entry live on the output it went to, looked up per entry; add_live/add_dead/overwrite change exactly the counters they name by 1 resp. the given byte count, on a single straight path; every record (also a tombstone of an absent key) is counted on the file it lies in on every path, in the writer and in the recovery scan alike; a merge books each copied entry on the output it was copied into (the id is not rolled over in between); the index (and with it the accounting of the displaced entry) changes only after the record was appended: a failed delete leaves index and counters untouched; a hint entry rejected by the extent test touches neither the index nor the per-file statistics (no phantom live keys); counters and location fields are 64 bits wide and no source-level cast in the storage layer narrows an integer",
        "not_decided": "equality with ground truth over histories; underflow of live_keys",
    },
    "C20": {
        "title": "A failed disk operation is reported and leaves the store consistent",
        "rules": [k5.e1_no_dropped_result, controls.control("E1"), k5.e2_merge_errors_abort, k2s.p11_command_application, k2m.p5_merge_outputs_before_unlink, k2.p13_writer_identity_pair, k2.p3_publish_after_append, k2.p1_append_flushes, k2m.s7_s8_merge_sets, k9.s15_position_tracking, k4.v5_hint_fallback, k1.w1_file_mutation_api, controls.control("W1"), k10.p16e_failed_merge_rotates],
        "decides": "no storage Result is dropped; no buffered output is left to Drop's error-swallowing flush before unlink/Ok; active_fileid and writer change together or not at all on every error path; the index is touched only on the Ok edge of the append; flush errors of append are propagated; merge aborts on the first failed disk operation (an error that is only logged does not count); hint after data so that a failed create leaves no orphan hint; the position an append reports is the tracked count of bytes handed to the buffered writer (bytes of a failed flush that are still buffered are counted, they precede the next record); every error of the hint loader other than NotFound ends the open with that error (none is swallowed into an incomplete index); files are created exclusively, so a retried operation can never adopt the leftovers of a failed one; over the network a failed storage call is never answered with a success reply (P11); a merge that gives up after re-pointing entries does not return while the active file is below its outputs (P16e: violated on the current tree, known finding D11)",
        "not_decided": "the effect of each errno as behaviour; history-shaped fault defects D11/D12 (DESIGN.md section 6)",
    },
}

for _p in PROPS.values():
    _p.setdefault("assumptions", BASE_ASSUME)

#!/bin/sh
# Build the fact extractor and warm the dependency cache (offline; files on disk only).
set -e
cd "$(dirname "$0")"
export CARGO_NET_OFFLINE=true
(cd driver && cargo build --offline)
python3 rules/facts.py lib >/dev/null
echo setup ok

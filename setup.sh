#!/bin/sh
# Build the fact extractor and warm the dependency cache (offline; files on disk only).
set -e
cd "$(dirname "$0")"
export CARGO_NET_OFFLINE=true
(cd driver && cargo build --offline)
python3 rules/facts.py lib >/dev/null
python3 -c "import sys; sys.path.insert(0, \"rules\"); import controls; controls._ctx()" >/dev/null
echo setup ok

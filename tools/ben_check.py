#!/usr/bin/env python3
"""tools/ben_check.py <out dir> <matrix.json> <name e.g. B1/c> [-v]: re-run, for one behaviour-preserving patch, the checks that
fired on it in the matrix; print their report lines"""
import json, os, subprocess, sys, tempfile, shutil
VERIF = os.path.dirname(os.path.dirname(os.path.abspath(__file__)))
out, mj, name = sys.argv[1:4]
m = json.load(open(mj))
props = sorted(m.get(name, {})) or ["C01"]
wt = tempfile.mkdtemp(prefix="vbc-", dir="/tmp"); os.rmdir(wt)
ev = tempfile.mkdtemp(prefix="vbcev-", dir="/tmp")
try:
    subprocess.check_call(["git", "-C", "/repo", "worktree", "add", "--detach", wt, "HEAD"], stdout=subprocess.DEVNULL, stderr=subprocess.DEVNULL)
    subprocess.check_call(["git", "-C", wt, "apply", os.path.join(out, name, "patch.diff")])
    env = dict(os.environ, VERIF_REPO=wt, VERIF_EVIDENCE_DIR=ev)
    seen = set()
    for p in props:
        r = subprocess.run([os.path.join(VERIF, "check"), p], env=env, capture_output=True, text=True, cwd=VERIF)
        for l in r.stdout.splitlines():
            if ("[violated]" in l or "[unrecognised" in l or "fail closed" in l or "floor:" in l) and l.split(": ", 1)[-1][:140] not in seen:
                seen.add(l.split(": ", 1)[-1][:140])
                print(p, l[:400 if "-v" in sys.argv else 260])
        print(r.stdout.strip().splitlines()[-1])
finally:
    if os.environ.get("KEEP"):
        print("kept", wt)
    else:
        subprocess.call(["git", "-C", "/repo", "worktree", "remove", "--force", wt], stdout=subprocess.DEVNULL, stderr=subprocess.DEVNULL)
    shutil.rmtree(ev, ignore_errors=True)

#!/usr/bin/env python3
"""tools/confirm_seed.py <mutant dir with patch.diff demo.diff meta.json> ...
Confirms in a scratch worktree (never /repo): the patch applies and compiles, the unedited suite
still passes with it, the demonstration fails with it and passes without it. Writes confirm.json."""
import json, os, re, subprocess, sys, time, shutil

def run(cmd, cwd, timeout=900, env=None):
    t0 = time.time()
    try:
        r = subprocess.run(cmd, cwd=cwd, shell=True, capture_output=True, text=True, timeout=timeout, env=env)
        return r.returncode, (r.stdout + r.stderr)[-6000:], time.time() - t0
    except subprocess.TimeoutExpired as e:
        return 124, "TIMEOUT after %ss\n%s" % (timeout, ((e.stdout or b"").decode(errors="replace") if isinstance(e.stdout, bytes) else (e.stdout or ""))[-3000:]), time.time() - t0

TARGET = os.environ.get("SEED_TARGET", "/tmp/seedtarget")
env = dict(os.environ, CARGO_NET_OFFLINE="true", CARGO_TARGET_DIR=TARGET)
for d in sys.argv[1:]:
    d = os.path.abspath(d)
    meta = json.load(open(os.path.join(d, "meta.json")))
    wt = "/tmp/seedwt-%d" % os.getpid()
    subprocess.call(["git", "-C", "/repo", "worktree", "remove", "--force", wt], stderr=subprocess.DEVNULL)
    subprocess.check_call(["git", "-C", "/repo", "worktree", "add", "--detach", wt, "HEAD"], stdout=subprocess.DEVNULL, stderr=subprocess.DEVNULL)
    res = {"dir": d, "head": subprocess.check_output(["git", "-C", "/repo", "rev-parse", "--short", "HEAD"], text=True).strip()}
    try:
        rc, out, _ = run("git apply %s/patch.diff" % d, wt)
        res["patch_applies"] = rc == 0
        if rc != 0:
            res["error"] = out[-500:]
            raise SystemExit
        rc, out, w = run("cargo test --workspace --no-fail-fast --offline 2>&1 | grep -E '^test result|error(\\[|:)' | head -20", wt, env=env)
        m = re.findall(r"test result: (\w+)\. (\d+) passed; (\d+) failed", out)
        passed = sum(int(x[1]) for x in m)
        failed = sum(int(x[2]) for x in m)
        res["suite_with_patch"] = {"passed": passed, "failed": failed, "wall_s": round(w)}
        demo_cmd = meta.get("demo_cmd", "")
        m2 = re.search(r"(cargo\s+(test|run)\b.*)$", demo_cmd)
        demo_cmd = m2.group(1) if m2 else demo_cmd
        demo_cmd = re.split(r"\s{2,}\(|\s+#\s", demo_cmd)[0].strip()
        demo_cmd = demo_cmd.replace("/tmp/mut/%s" % meta.get("property", "C00"), wt)
        res["demo_cmd"] = demo_cmd
        rc, out, _ = run("git apply %s/demo.diff" % d, wt)
        res["demo_applies"] = rc == 0
        run("git diff --name-only | xargs -r touch; sleep 1", wt)
        rc1, out1, w1 = run("timeout 600 " + demo_cmd, wt, timeout=700, env=env)
        res["demo_with_patch"] = {"exit": rc1, "tail": out1[-600:], "wall_s": round(w1)}
        rc, out, _ = run("git apply -R %s/patch.diff" % d, wt)
        res["patch_reverts"] = rc == 0
        run("git diff --name-only | xargs -r touch; git ls-files -m | xargs -r touch; touch src/lib.rs; sleep 1", wt)
        rc2, out2, w2 = run("timeout 600 " + demo_cmd, wt, timeout=700, env=env)
        res["demo_without_patch"] = {"exit": rc2, "tail": out2[-300:], "wall_s": round(w2)}
        res["confirmed"] = bool(res["patch_applies"] and passed == 44 and failed == 0 and rc1 != 0 and rc2 == 0)
    except SystemExit:
        res["confirmed"] = False
    finally:
        subprocess.call(["git", "-C", "/repo", "worktree", "remove", "--force", wt], stdout=subprocess.DEVNULL, stderr=subprocess.DEVNULL)
        subprocess.call(["git", "-C", "/repo", "worktree", "prune"])
    json.dump(res, open(os.path.join(d, "confirm.json"), "w"), indent=1)
    print(d, "CONFIRMED" if res.get("confirmed") else "NOT CONFIRMED", json.dumps({k: v for k, v in res.items() if k in ("suite_with_patch",)}), "demo+patch exit", res.get("demo_with_patch", {}).get("exit"), "demo-patch exit", res.get("demo_without_patch", {}).get("exit"), flush=True)

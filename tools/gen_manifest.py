#!/usr/bin/env python3
"""regenerate MANIFEST.json from rules/props.py"""
import json, os, sys
HERE = os.path.dirname(os.path.abspath(__file__))
VERIF = os.path.dirname(HERE)
sys.path.insert(0, os.path.join(VERIF, "rules"))
import props

MAIN = {"C03", "C04", "C07", "C09", "C10", "C14", "C15", "C17", "C20"}
checks = []
ids = sorted(props.PROPS)
for pid in ids:
    sp = props.PROPS[pid]
    rules = []
    for rf in sp["rules"]:
        rules.append(rf.__name__.split("_")[0].upper())
    text = ("Static analysis of the type-checked MIR of /repo's current tree; decides these NECESSARY STRUCTURAL clauses on every path (unwind, `?` error and await-cancellation edges included), not the behavioural statement as a whole: %s. NOT decided: %s. A violation names the function, construct and a shortest witness path." % (sp["decides"], sp["not_decided"]))
    checks.append({
        "property_id": pid,
        "quick_cmd": "./check %s --tier quick" % pid,
        "thorough_cmd": "./check %s --tier thorough" % pid,
        "evidence_file": "evidence/%s.json" % pid,
        "replay_cmd_template": "./check %s --replay {path}" % pid,
        "engine": "rules",
        "level_claimed": {"category": "other", "text": text, "design_ref": "DESIGN.md section 5/%s and section 4 (rules %s)" % (pid, ", ".join(rules))},
        "level_note": "Trusted base: rustc nightly front end and MIR construction; driver/ serialisation; the effect tables and library models in rules/ (std io::copy→BufWriter flush model, no-panic callee table, tokio select!/await shapes). Code outside the crate is trusted. The check is only as complete as its rule list: it is a conjunction of necessary conditions, %s." % ("the main structural content of this property" if pid in MAIN else "a partial claim"),
        "technique": "static analysis: custom MIR-based checker (rustc_private fact extractor + path/typestate automata, who-may-call tables, sibling-agreement and guard rules: %s)" % ", ".join(rules),
    })
m = {
    "version": 1,
    "setup_cmd": "./setup.sh",
    "hooks": {
        "guard": "letung3105_bitcask_verif",
        "enable": "none needed: static analysis reads /repo's code as it is; no hook is compiled in and the guard name is unused",
        "baseline_off_cmd": "cd /repo && cargo test --workspace --no-fail-fast --offline",
        "source_commits": [],
        "add_only": True,
    },
    "engines": [
        {"name": "bcfacts", "path": "driver/", "serves_properties": ids, "kind_free_text": "rustc_private driver (nightly) used as RUSTC_WRAPPER under cargo check: serialises mir_promoted of every body with resolved callees, named field projections, drop glue, spans"},
        {"name": "rules", "path": "rules/", "serves_properties": ids, "kind_free_text": "Python rule engines over the MIR facts: CFG/origin tracing, path automata with witness, who-may-call tables, sibling/role agreement, variant routing, bounded recursion, error discipline"},
    ],
    "checks": checks,
    "notes": "Every check is a static analysis of /repo's current working tree (facts are re-extracted whenever the tree's content hash changes). Known findings: known_findings.json (C05/T1). Genuine defects repaired by fix: commits in /repo are listed there as 'fixed'. repro/ holds the demonstrations of those defects (run on scratch copies only). seeded/ holds independently produced breaking changes and which check catches each.",
    "not_applicable": [],
}
json.dump(m, open(os.path.join(VERIF, "MANIFEST.json"), "w"), indent=1)
print("wrote MANIFEST.json with %d checks" % len(checks))

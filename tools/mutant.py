#!/usr/bin/env python3
"""tools/mutant.py <patch.diff> <Cnn> [<Cnn> ...]  [--base <rev>] [--keep]
Applies a patch to a scratch worktree of /repo (never to /repo itself), runs the given checks
against it, prints their output, removes the worktree. Exit 0 if at least one check fired."""
import os, subprocess, sys, tempfile, shutil
HERE = os.path.dirname(os.path.abspath(__file__))
VERIF = os.path.dirname(HERE)
args = sys.argv[1:]
base = "HEAD"
if "--base" in args:
    i = args.index("--base"); base = args[i + 1]; del args[i:i + 2]
patch = os.path.abspath(args[0]) if args[0] != "-" else None
props = args[1:]
wt = tempfile.mkdtemp(prefix="vm-", dir="/tmp")
os.rmdir(wt)
ev = tempfile.mkdtemp(prefix="vmev-", dir="/tmp")
try:
    subprocess.check_call(["git", "-C", "/repo", "worktree", "add", "--detach", wt, base], stdout=subprocess.DEVNULL, stderr=subprocess.DEVNULL)
    if patch:
        r = subprocess.run(["git", "-C", wt, "apply", patch], capture_output=True, text=True)
        if r.returncode != 0:
            print("PATCH DOES NOT APPLY:", r.stderr[:500]); sys.exit(3)
    env = dict(os.environ, VERIF_REPO=wt, VERIF_EVIDENCE_DIR=ev)
    fired = []
    for p in props:
        r = subprocess.run([os.path.join(VERIF, "check"), p], env=env, capture_output=True, text=True, cwd=VERIF)
        out = r.stdout + r.stderr
        print("--- %s exit=%d" % (p, r.returncode))
        print("\n".join(l for l in out.splitlines() if not l.startswith("    ") or "-v" in sys.argv)[:6000])
        if r.returncode != 0:
            fired.append(p)
    print("FIRED:", fired)
    sys.exit(0 if fired else 1)
finally:
    subprocess.call(["git", "-C", "/repo", "worktree", "remove", "--force", wt], stdout=subprocess.DEVNULL, stderr=subprocess.DEVNULL)
    subprocess.call(["git", "-C", "/repo", "worktree", "prune"])
    shutil.rmtree(ev, ignore_errors=True)

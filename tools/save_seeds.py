#!/usr/bin/env python3
"""tools/save_seeds.py <out dir with Cxx/{a,b,c}/…> <round tag, e.g. r2> <matrix.json> [--index-only]
Copies every CONFIRMED seeded change (confirm.json written by tools/confirm_seed.py) into
seeded/<Cxx><tag><letter>/ with patch.diff, demo.diff and a meta.json that records what was run to
confirm it and which checks fire (from the matrix written by tools/seed_matrix.py); then rewrites
seeded/INDEX.md from all meta.json files."""
import glob, json, os, shutil, sys

VERIF = os.path.dirname(os.path.dirname(os.path.abspath(__file__)))
SEEDED = os.path.join(VERIF, "seeded")


def save(out, tag, matrix):
    m = json.load(open(matrix))
    n = 0
    for d in sorted(glob.glob(os.path.join(out, "C??", "?"))):
        cj = os.path.join(d, "confirm.json")
        if not os.path.exists(cj):
            print("skip (no confirm.json):", d)
            continue
        conf = json.load(open(cj))
        if not conf.get("confirmed"):
            print("skip (not confirmed):", d)
            continue
        pid, letter = d.split("/")[-2:]
        name = "%s%s%s" % (pid, tag, letter)
        dst = os.path.join(SEEDED, name)
        os.makedirs(dst, exist_ok=True)
        for f in ("patch.diff", "demo.diff"):
            shutil.copy(os.path.join(d, f), os.path.join(dst, f))
        meta = json.load(open(os.path.join(d, "meta.json")))
        fired = m.get("%s/%s" % (pid, letter), {})
        out_meta = {
            "property": pid,
            "summary": meta.get("summary", ""),
            "breaks": meta.get("breaks", ""),
            "needs_to_manifest": meta.get("needs", meta.get("needs_to_manifest", "")),
            "produced_by": "independent sub-agent given only the property text and a scratch worktree of the repository at %s (nothing from /verif)" % conf.get("head", "HEAD"),
            "demo_cmd": conf.get("demo_cmd", meta.get("demo_cmd", "")),
            "confirmed_in_scratch_worktree": {
                "patch_applies_and_compiles": conf.get("patch_applies"),
                "existing_suite_with_change": conf.get("suite_with_patch"),
                "demonstration_with_change_exit": conf.get("demo_with_patch", {}).get("exit"),
                "demonstration_without_change_exit": conf.get("demo_without_patch", {}).get("exit"),
                "confirmed": True,
                "how": conf.get("how", "tools/confirm_seed.py: git worktree of /repo HEAD under /tmp, git apply patch.diff, cargo test --workspace --no-fail-fast --offline (44 pass), git apply demo.diff, run demo (fails), git apply -R patch.diff, run demo (passes); worktree removed afterwards"),
            },
            "checks_that_fire": fired,
            "caught_by_own_check": pid in fired,
        }
        json.dump(out_meta, open(os.path.join(dst, "meta.json"), "w"), indent=1, ensure_ascii=False)
        n += 1
    print("saved", n)


def index():
    rows = []
    for mj in sorted(glob.glob(os.path.join(SEEDED, "*", "meta.json"))):
        name = mj.split("/")[-2]
        m = json.load(open(mj))
        fired = m.get("checks_that_fire", {})
        rules = sorted({r for rs in fired.values() for r in rs})
        rows.append("| %s | %s | %s | %s | %s |" % (name, m["property"], m.get("summary", "").replace("|", "\\|").replace("\n", " ")[:150], ", ".join(rules), ", ".join(sorted(fired))))
    head = "# Independently seeded breaking changes\n\nEach directory holds `patch.diff` (the change), `demo.diff` (a demonstration that fails with the change and passes without it) and `meta.json` (what it breaks, what it needs to manifest, what was run to confirm it, which checks fire). Produced by sub-agents that saw only the property text and a scratch worktree; confirmed with `tools/confirm_seed.py`; never applied to /repo. Directory names: `<property><letter>` = round 1, `<property>r2<letter>` = round 2, `<property>r3<letter>` = round 3, `<property>r4<letter>` = round 4, `<property>r5<letter>` = round 5.\n\n| id | property | change | rules that fire | checks that fire |\n|---|---|---|---|---|\n"
    open(os.path.join(SEEDED, "INDEX.md"), "w").write(head + "\n".join(rows) + "\n")
    print("INDEX.md:", len(rows), "entries")


if __name__ == "__main__":
    if "--index-only" not in sys.argv:
        save(sys.argv[1], sys.argv[2], sys.argv[3])
    index()

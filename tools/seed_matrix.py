#!/usr/bin/env python3
"""run every seeded change under <dir>/*/*/patch.diff against all 20 checks; print which fire"""
import glob, json, os, re, subprocess, sys, tempfile, shutil
from concurrent.futures import ThreadPoolExecutor
VERIF = os.path.dirname(os.path.dirname(os.path.abspath(__file__)))
ALL = ["C%02d" % i for i in range(1, 21)]
root = sys.argv[1] if len(sys.argv) > 1 else "/tmp/mut/out"
only = sys.argv[2:] 
def one(d):
    wt = tempfile.mkdtemp(prefix="vsm-", dir="/tmp"); os.rmdir(wt)
    ev = tempfile.mkdtemp(prefix="vsmev-", dir="/tmp")
    try:
        for _try in range(20):
            if subprocess.call(["git", "-C", "/repo", "worktree", "add", "--detach", wt, "HEAD"], stdout=subprocess.DEVNULL, stderr=subprocess.DEVNULL) == 0:
                break
            __import__("time").sleep(0.5 + 0.1 * _try)
        else:
            raise RuntimeError("git worktree add failed repeatedly")
        r = subprocess.run(["git", "-C", wt, "apply", os.path.join(d, "patch.diff")], capture_output=True, text=True)
        if r.returncode:
            return d, None, "patch does not apply"
        env = dict(os.environ, VERIF_REPO=wt, VERIF_EVIDENCE_DIR=ev)
        fired = {}
        for p in ALL:
            r = subprocess.run([os.path.join(VERIF, "check"), p], env=env, capture_output=True, text=True, cwd=VERIF)
            if r.returncode:
                out = r.stdout
                rules = sorted(set(re.findall(r"^\S+: ([A-Za-z0-9/\-]+)/", out, re.M)))
                if "fail closed" in out: rules.append("fail-closed")
                if "floor:" in out: rules.append("floor")
                fired[p] = rules
        return d, fired, ""
    finally:
        subprocess.call(["git", "-C", "/repo", "worktree", "remove", "--force", wt], stdout=subprocess.DEVNULL, stderr=subprocess.DEVNULL)
        shutil.rmtree(ev, ignore_errors=True)
dirs = sorted(os.path.dirname(p) for p in glob.glob(os.path.join(root, "*", "*", "patch.diff")))
if only:
    dirs = [d for d in dirs if any(o in d for o in only)]
with ThreadPoolExecutor(6) as ex:
    res = list(ex.map(one, dirs))
subprocess.call(["git", "-C", "/repo", "worktree", "prune"])
out = {}
for d, fired, err in res:
    name = "/".join(d.split("/")[-2:])
    own = name.split("/")[0]
    if fired is None:
        print("%-8s %s" % (name, err)); continue
    tag = "OWN" if own in fired else ("other" if fired else "MISSED")
    print("%-8s %-6s %s" % (name, tag, json.dumps(fired)[:260]))
    out[name] = fired
json.dump(out, open(os.environ.get("SEED_MATRIX_OUT", os.path.join(VERIF, "selftest", "seed_matrix.json")), "w"), indent=1)

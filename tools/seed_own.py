#!/usr/bin/env python3
"""tools/seed_own.py [name-substring ...] — every seeded change under seeded/ is applied to a scratch
worktree of /repo and its own property's check is run: it must fire. Prints the ones that do not."""
import glob, json, os, re, subprocess, sys, tempfile, shutil, time
from concurrent.futures import ThreadPoolExecutor
VERIF = os.path.dirname(os.path.dirname(os.path.abspath(__file__)))
only = sys.argv[1:]
def one(d):
    meta = json.load(open(os.path.join(d, "meta.json")))
    pid = meta["property"]
    if meta.get("caught_by_own_check") is False and meta.get("checks_that_fire"):
        # documented as decided by a sibling property's check only (DESIGN.md 11f): that check must fire
        pid = sorted(meta["checks_that_fire"])[0]
    wt = tempfile.mkdtemp(prefix="vso-", dir="/tmp"); os.rmdir(wt)
    ev = tempfile.mkdtemp(prefix="vsoev-", dir="/tmp")
    try:
        for _try in range(30):
            if subprocess.call(["git", "-C", "/repo", "worktree", "add", "--detach", wt, "HEAD"], stdout=subprocess.DEVNULL, stderr=subprocess.DEVNULL) == 0:
                break
            time.sleep(0.5 + 0.1 * _try)
        else:
            return d, None, "worktree"
        r = subprocess.run(["git", "-C", wt, "apply", os.path.join(d, "patch.diff")], capture_output=True, text=True)
        if r.returncode:
            return d, None, "patch does not apply"
        env = dict(os.environ, VERIF_REPO=wt, VERIF_EVIDENCE_DIR=ev)
        r = subprocess.run([os.path.join(VERIF, "check"), pid], env=env, capture_output=True, text=True, cwd=VERIF)
        rules = sorted(set(re.findall(r"^\S+: ([A-Za-z0-9/\-]+)/", r.stdout, re.M)))
        if "fail closed" in r.stdout: rules.append("fail-closed")
        if "floor:" in r.stdout: rules.append("floor")
        return d, r.returncode != 0, rules
    finally:
        subprocess.call(["git", "-C", "/repo", "worktree", "remove", "--force", wt], stdout=subprocess.DEVNULL, stderr=subprocess.DEVNULL)
        shutil.rmtree(ev, ignore_errors=True)
dirs = sorted(os.path.dirname(p) for p in glob.glob(os.path.join(VERIF, "seeded", "*", "patch.diff")))
if only:
    dirs = [d for d in dirs if any(o in os.path.basename(d) for o in only)]
with ThreadPoolExecutor(6) as ex:
    res = list(ex.map(one, dirs))
subprocess.call(["git", "-C", "/repo", "worktree", "prune"])
bad = 0
for d, fired, rules in res:
    if not fired:
        bad += 1
        print("NOT CAUGHT", os.path.basename(d), rules)
    elif "-v" in sys.argv:
        print("ok", os.path.basename(d), rules)
print("%d seeded changes, %d not caught by their own check" % (len(res), bad))
sys.exit(1 if bad else 0)

#!/usr/bin/env python3
"""tools/selftest.py [--only name-substring] [--jobs N] [--kind mutant|benign]
Two-way test of the rules: every entry of selftest/catalogue.json is an edit of /repo applied to a
scratch worktree (never /repo). Mutants must make the expected rule fire in the expected property;
benign (behaviour-preserving) edits must leave every check silent. Prints a table; exit 1 on any
miss or false alarm."""
import json, os, subprocess, sys, tempfile, shutil, re
from concurrent.futures import ThreadPoolExecutor

HERE = os.path.dirname(os.path.abspath(__file__))
VERIF = os.path.dirname(HERE)
ALL = ["C%02d" % i for i in range(1, 21)]


def run_entry(ent):
    wt = tempfile.mkdtemp(prefix="vst-", dir="/tmp")
    os.rmdir(wt)
    ev = tempfile.mkdtemp(prefix="vstev-", dir="/tmp")
    res = {"name": ent["name"], "kind": ent["kind"], "ok": False, "detail": ""}
    try:
        for _try in range(20):
            if subprocess.call(["git", "-C", "/repo", "worktree", "add", "--detach", wt, "HEAD"], stdout=subprocess.DEVNULL, stderr=subprocess.DEVNULL) == 0:
                break
            __import__("time").sleep(0.5 + 0.1 * _try)
        else:
            raise RuntimeError("git worktree add failed repeatedly")
        for ed in ent.get("edits", []):
            p = os.path.join(wt, ed["file"])
            s = open(p).read()
            n = s.count(ed["old"])
            if n != ed.get("count", 1):
                res["detail"] = "edit does not apply (%d matches of %r)" % (n, ed["old"][:40])
                return res
            s = s.replace(ed["old"], ed["new"])
            open(p, "w").write(s)
        if ent.get("patch"):
            r = subprocess.run(["git", "-C", wt, "apply", os.path.join(VERIF, ent["patch"])], capture_output=True, text=True)
            if r.returncode != 0:
                res["detail"] = "patch does not apply: " + r.stderr[:200]
                return res
        env = dict(os.environ, VERIF_REPO=wt, VERIF_EVIDENCE_DIR=ev)
        props = ent.get("props") or ALL
        if ent["kind"] == "benign":
            props = ALL
        fired = {}
        for p in props:
            r = subprocess.run([os.path.join(VERIF, "check"), p], env=env, capture_output=True, text=True, cwd=VERIF)
            out = r.stdout + r.stderr
            if "does not compile" in out:
                res["detail"] = "edit does not compile"
                return res
            if r.returncode != 0:
                rules = sorted(set(re.findall(r"^\S+: ([A-Za-z0-9/\-]+)/", out, re.M)))
                if "fail closed" in out:
                    rules.append("fail-closed")
                if "floor:" in out:
                    rules.append("floor")
                fired[p] = rules
        res["fired"] = fired
        if ent["kind"] == "mutant":
            exp = ent.get("expect", [])
            hit = any(any(e == x or x.startswith(e) for x in rs) for rs in fired.values() for e in exp) if exp else bool(fired)
            res["ok"] = hit
            if not hit:
                res["detail"] = "expected %s, fired %s" % (exp, fired)
        else:
            res["ok"] = not fired
            if fired:
                res["detail"] = "FALSE ALARM %s" % fired
        return res
    finally:
        subprocess.call(["git", "-C", "/repo", "worktree", "remove", "--force", wt], stdout=subprocess.DEVNULL, stderr=subprocess.DEVNULL)
        shutil.rmtree(ev, ignore_errors=True)


def main():
    cat = json.load(open(os.path.join(VERIF, "selftest", "catalogue.json")))
    args = sys.argv[1:]
    only = args[args.index("--only") + 1] if "--only" in args else None
    kind = args[args.index("--kind") + 1] if "--kind" in args else None
    jobs = int(args[args.index("--jobs") + 1]) if "--jobs" in args else 6
    ents = [e for e in cat if (not only or only in e["name"]) and (not kind or e["kind"] == kind)]
    with ThreadPoolExecutor(jobs) as ex:
        results = list(ex.map(run_entry, ents))
    subprocess.call(["git", "-C", "/repo", "worktree", "prune"])
    bad = 0
    for r in results:
        print("%-7s %-44s %s %s" % (r["kind"], r["name"], "ok  " if r["ok"] else "FAIL", (json.dumps(r.get("fired", {})) if r["ok"] else r["detail"])[:230]))
        bad += 0 if r["ok"] else 1
    print("%d entries, %d failing" % (len(results), bad))
    json.dump(results, open(os.path.join(VERIF, "selftest", "last_run.json"), "w"), indent=1)
    return 1 if bad else 0


if __name__ == "__main__":
    sys.exit(main())

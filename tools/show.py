#!/usr/bin/env python3
"""debug helper: show calls/switches/returns of a body: tools/show.py <path suffix> [--all] [--macros]"""
import sys, os
sys.path.insert(0, os.path.join(os.path.dirname(os.path.abspath(__file__)), "..", "rules"))
from facts import load_program
from mir import *
from common import *
p = load_program()
suf = sys.argv[1]
macros = "--macros" in sys.argv
bs = [b for b in p.bodies.values() if suf in b.name]
for b in bs:
    print("=====", b.path, "blocks", len(b.blocks), "cor", b.coroutine, "args", b.arg_count, b.params)
    if "--list" in sys.argv:
        continue
    for bi in sorted(b.live_blocks()):
        blk = b.blocks[bi]
        t = blk["term"]
        cl = "C" if blk["cleanup"] else " "
        if "--stmts" in sys.argv:
            for st in blk["stmts"]:
                if st["k"] == "assign" and (macros or "macro" not in st.get("exp", "")):
                    print("   %s %4d   _%d%s = %s" % (cl, bi, st["pl"]["l"], "".join("." + str(e[2] if e[0] == "f" else e[0]) for e in st["pl"]["p"]), origin_str(b.origin_rvalue(st["rv"]))[:150]))
        if t["k"] == "switch":
            si = b.switch_info(bi)
            if not macros and "macro" in t["exp"]:
                continue
            print("SW %s %4d %s %s %s %s" % (cl, bi, si["kind"], origin_str(si["on"])[:120], dict(si["arms"]), short_span(t["span"])))
        elif t["k"] == "call":
            if not macros and "macro" in t["fn_exp"]:
                continue
            print("CL %s %4d %s(%s) -> _%d%s t=%s u=%s %s %s" % (cl, bi, strip_generics(t["callee"]), ", ".join(origin_str(b.origin_operand(a))[:60] for a in t["args"]), t["dest"]["l"], "." if t["dest"]["p"] else "", t["t"], t["unwind"], short_span(t["span"]), t["fn_exp"][:30]))
        elif t["k"] == "drop":
            if "--all" in sys.argv or "--drops" in sys.argv:
                print("DR %s %4d drop _%d%s : %s t=%s u=%s dt=%s" % (cl, bi, t["pl"]["l"], "." if t["pl"]["p"] else "", t["ty"][:80], t["t"], t["unwind"], [d[:50] for d in t["dtors"]][:3]))
        elif t["k"] in ("return", "resume", "yield", "assert", "unreachable"):
            extra = ""
            if t["k"] == "yield":
                extra = "resume=%s drop=%s" % (t["resume"], t["drop"])
            if t["k"] == "assert":
                extra = "%s t=%s" % (t["msg"]["k"], t["t"])
            print("%s %s %4d %s %s" % (t["k"][:2].upper(), cl, bi, extra, short_span(t["span"])))
        elif "--all" in sys.argv:
            print("   %s %4d %s -> %s" % (cl, bi, t["k"], [e.dst for e in b.succ[bi]]))

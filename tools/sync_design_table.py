#!/usr/bin/env python3
"""tools/sync_design_table.py — rewrite the rule column of DESIGN.md's verdict table (section 1)
from the rule lists the checks actually ran (evidence/<id>.json), so the table cannot drift."""
import json, os, re
V = os.path.dirname(os.path.dirname(os.path.abspath(__file__)))
p = os.path.join(V, "DESIGN.md")
s = open(p).read()
out = []
for line in s.split("\n"):
    m = re.match(r"^\| (C\d\d) \| ([^|]*) \| ([^|]*) \| (.*)$", line)
    if m and os.path.exists(os.path.join(V, "evidence", m.group(1) + ".json")):
        e = json.load(open(os.path.join(V, "evidence", m.group(1) + ".json")))
        rules = [r["rule"] for r in e["coverage"]["rules"] if not r["rule"].startswith("CTL-")]
        line = "| %s | %s | %s | %s" % (m.group(1), m.group(2).strip(), ", ".join(rules), m.group(4))
    out.append(line)
open(p, "w").write("\n".join(out))
print("table synced")

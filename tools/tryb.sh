#!/bin/bash
# tools/tryb.sh <catalogue entry name> <Cnn> [lines] : apply the entry's edits to a scratch worktree of
# /repo under /tmp, run one check against it and print its report lines; KEEP=1 keeps the worktree
name=$1; prop=$2
wt=/tmp/tryb-$$; rm -rf $wt; git -C /repo worktree add --detach $wt HEAD >/dev/null 2>&1
python3 - "$name" "$wt" <<'PY'
import json,sys,os
c=json.load(open(os.path.join(os.path.dirname(os.path.abspath("/verif/selftest/catalogue.json")),"catalogue.json")))
e=[x for x in c if x["name"]==sys.argv[1]][0]
for ed in e["edits"]:
    p=sys.argv[2]+"/"+ed["file"]; s=open(p).read(); assert s.count(ed["old"])==1, ed["old"][:40]; open(p,"w").write(s.replace(ed["old"],ed["new"]))
PY
cd /verif && VERIF_REPO=$wt VERIF_EVIDENCE_DIR=/tmp/trybev-$$ ./check $prop | grep -v "^    " | grep -v "KNOWN-FINDING" | head -${3:-12}
if [ -n "$KEEP" ]; then echo "kept $wt"; else git -C /repo worktree remove --force $wt; fi
rm -rf /tmp/trybev-$$

#!/bin/bash
# tryp.sh <patch.diff> <Cnn> [lines]; KEEP=1 keeps worktree
patch=$1; prop=$2
wt=/tmp/tryp-$$; rm -rf $wt; git -C /repo worktree add --detach $wt HEAD >/dev/null 2>&1
git -C $wt apply $patch || exit 1
cd /verif && VERIF_REPO=$wt VERIF_EVIDENCE_DIR=/tmp/trypev-$$ ./check $prop | grep -v "^    " | grep -v "KNOWN-FINDING\|^VIOLATION" | head -${3:-12}
if [ -n "$KEEP" ]; then echo "kept $wt"; else git -C /repo worktree remove --force $wt; fi
rm -rf /tmp/trypev-$$
